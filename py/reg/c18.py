SPEC = dict(
    kind="mixed", bins=rust("c18"), module="c18", design_ref="§3-C18",
    technique="bounded-exhaustive enumeration: the whole generated presentation space must be accepted; exhaustive token strings and single-byte mutations for termination and position consistency",
    rule="(1) every document of the C14 presentation space (same generator, same sub-spaces) -> must be accepted; (2) every string of <= 4 (quick) / "
         "<= 5 (thorough) tokens over 28 YAML tokens; (3) every single-byte mutation (16 replacement bytes + deletion, every position) of every "
         "Y(2) document under LF and CRLF; for (2)/(3): no panic, returns under a watchdog, offset <= len, (line, column) == naive LF/CR/CRLF "
         "splitter at the offset; CLI: a hash-selected slice of (1) through `yq --validate`. distinct = distinct document bytes (1) / distinct "
         "(error kind, line, column) observations (2,3).",
    level_text="Every well-formed document of the generated space is put through the real strict validator and must be accepted; every token "
               "string and mutation must come back (watchdog) with accept or an error whose line/column equal an independent line splitter's "
               "answer for the reported offset. Exhaustive within the stated alphabets.",
    level_note="Well-formedness rests on the C14 generator (cross-checked against PyYAML by the C14 check). The watchdog turns a non-returning "
               "call into a machinery error ('undecided'), never a verdict. CLI side runs through the __verif-batch hook with a real-process "
               "equivalence slice and confirmation of every candidate.",
    assumptions=["'arbitrary byte strings' are represented by token strings and single-byte mutations, not all byte strings",
                 "line/column convention: LF, CR and CRLF are each one break; columns count bytes; an offset between CR and LF is still on the old line"],
    wall_cap={"quick": 600, "thorough": 3000},
)
