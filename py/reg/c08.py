SPEC = dict(
    kind="mixed",
    module="c08",
    bins=rust("c08"),
    design_ref="§3-C08",
    technique="automaton-product exploration (S4): depth-first walk of the viable-prefix tree of an own RFC 8259 pushdown recogniser, every dead extension probed; "
              "plus the byte-level mutation closure of a small document grammar and nesting families",
    rule="DFS: 18 start contexts x every viable prefix of <= 4 (quick) / 5 (thorough) symbols over a 55-symbol byte-class alphabet, and <= 5 / 7 symbols over a 19-symbol structural "
         "alphabet; at each interior prefix every dead one-symbol extension is probed alone and with 40 continuations (1-2 symbols over {x \" ] SP 0 80} x {} \" 0 80} plus tails that complete a pending UTF-8 sequence / \\u escape and close the string). Mutation closure: all documents with <= 3 (4) nodes "
         "over fixed leaf alphabets x 6 whitespace patterns x every offset x {insert b, replace by b, delete, truncate} for b over 69 representative bytes (quick) / all 256 (thorough). Nesting depth {1..1000} x 4 container mixes x every "
         "truncation. A case is distinct+non-trivial by (automaton configuration class at death/end, reference verdict, error kind, reported offset minus viable-prefix length).",
    level_text="For every enumerated byte string the real validator's verdict equals the reference recogniser's (RFC 8259 + nesting <= 128); on rejection the reported offset is compared with "
               "d = length of the longest prefix the trim reference automaton has not rejected (offset <= d required) and (line, column) with a naive LF/CR/CRLF scan of the reported offset.",
    level_note="The reference automaton is trim (every non-error configuration has an accepted continuation), so 'can still be extended to a valid document' is exactly 'no error transition yet'. "
               "It is self-tested against all y_/n_ cases of tests/data/json-test-suite-*.json (95 + 188) before exploration; a disagreement is a machinery error. "
               "The CLI `json validate` wrapper is checked on a fixed slice of a few hundred inputs as real processes (exit status against a Python json-based oracle, printed position must be a position of the input); the batch hook has no entry for it.",
    assumptions=["byte values outside the 55-symbol class alphabet occur singly (mutation closure: every byte value at every offset), not in combination",
                 "documents beyond 4 nodes / prefixes deeper than 5-7 symbols past a start context are out of scope",
                 "kind of the reported error is not judged (the statement constrains verdict, offset and line/column only)"],
)
