"""C28 (CLI slice) — `succinctly jq-locate` output evaluated by `succinctly jq`.

Space (exhaustive within the bounds): every duplicate-free document of py/jgen.py's
J(n) with the reduced alphabets (quick n=2 under 3 uniform whitespace patterns,
thorough n=3 under all 6), plus the single-scalar / one-container documents over the
full leaf alphabet and a few documents with keys that need bracket notation or
are non-ASCII; EVERY byte offset that the generator classifies as inside a
scalar token, inside a key token or on a container's opening bracket.

Per (document, offset), through the real clap parser and run_jq_locate / run_jq
(batch hook, self-tested and confirmed against real process spawns):
  1. `jq-locate FILE --offset o --format json`  -> expression, byte_range
  2. `jq-locate FILE --line l --column c`        -> same expression
  3. `jq -c EXPR FILE`                           -> the node's value (for a key: the value it names)
  4. `jq -c 'at_offset(o)' FILE`, `jq -c 'at_position(l; c)' FILE` -> the token's own value
Oracle: generator spans / values (py/jgen.py), Python's json for reading the CLI output.
"""
import json, os
import batch, common, jgen

DOCDIR = os.path.join(batch.SCRATCH, "c28docs")


def line_col(t, off):
    """1-based (line, column) under LF / CR / CRLF line breaks (bytes)."""
    line = 1; ls = 0; i = 0
    while i < off:
        c = t[i]
        if c == 0x0d:
            w = 2 if i + 1 < len(t) and t[i + 1] == 0x0a else 1
            if i + w > off:
                break
            line += 1; i += w; ls = i
        elif c == 0x0a:
            line += 1; i += 1; ls = i
        else:
            i += 1
    return line, off - ls + 1


def has_dup(p):
    if isinstance(p, list) and p and p[0] == 'O':
        ks = [k for k, _ in p[1:]]
        return len(ks) != len(set(ks)) or any(has_dup(v) for _, v in p[1:])
    if isinstance(p, list) and p and p[0] == 'A':
        return any(has_dup(v) for v in p[1:])
    return False


def eq(a, b):
    """typed JSON equality; numbers compared numerically"""
    if isinstance(a, bool) or isinstance(b, bool):
        return isinstance(a, bool) and isinstance(b, bool) and a == b
    if isinstance(a, (int, float)) and isinstance(b, (int, float)):
        return float(a) == float(b)
    if isinstance(a, list) and isinstance(b, list):
        return len(a) == len(b) and all(eq(x, y) for x, y in zip(a, b))
    if isinstance(a, dict) and isinstance(b, dict):
        return a.keys() == b.keys() and all(eq(a[k], b[k]) for k in a)
    return type(a) == type(b) and a == b


def documents(tier):
    """yield (text bytes, table) of duplicate-free documents"""
    N = jgen.N
    seen = set()

    def emit(t, ws):
        out = [ws]; table = []
        jgen.render(t, ws, out, table, [], None, [0]); out.append(ws)
        text = ''.join(out).encode()
        if text in seen or has_dup(jgen.pairs(t)):
            return None
        seen.add(text)
        return text, table

    for s in jgen.scalars():
        for t in [s, N('arr', kids=[s]), N('obj', kids=[s], keys=[jgen.KEYS[0]])]:
            for ws in (jgen.WS if tier != "quick" else jgen.WS[:2]):
                r = emit(t, ws)
                if r: yield r
    one = N('scalar', '1', 1); two = N('scalar', '"x"', 'x')
    for k in jgen.KEYS:
        for k2 in jgen.KEYS[:3]:
            for t in [N('obj', kids=[one, two], keys=[k, k2]),
                      N('arr', kids=[N('obj', kids=[N('arr', kids=[one, two])], keys=[k]), one]),
                      N('obj', kids=[N('obj', kids=[two], keys=[k])], keys=[k2])]:
                for ws in ('', ' \n\t\r '):
                    r = emit(t, ws)
                    if r: yield r
    n = 2 if tier == "quick" else 3
    leaves = [N('scalar', s, v) for s, v in [jgen.SCAL[0], jgen.SCAL[3], jgen.SCAL[8], jgen.SCAL[11]] + [jgen.STR[0], jgen.STR[1], jgen.STR[3], jgen.STR[9], jgen.STR[10]]]
    keys = [jgen.KEYS[0], jgen.KEYS[1], jgen.KEYS[3], jgen.KEYS[4]]
    for t in jgen.trees(n, leaves, keys):
        for ws in (jgen.WS if tier != "quick" else (jgen.WS[0], jgen.WS[3], jgen.WS[5])):
            r = emit(t, ws)
            if r: yield r


def qualifying(text, table):
    """offset -> (entry, expected value of the expression, own value)"""
    q = {}
    vals = {}
    for e in table:
        if e['kind'] != 'key':
            vals[json.dumps(e['path'])] = e
    for e in table:
        if e['kind'] in ('arr', 'obj'):
            q[e['start']] = (e, e['val'], e['val'])
    for e in table:
        if e['kind'] == 'scalar':
            for o in range(e['start'], e['end']):
                q[o] = (e, e['val'], e['val'])
        elif e['kind'] == 'key':
            tgt = vals[json.dumps(e['path'])]
            for o in range(e['start'], e['end']):
                q[o] = (e, tgt['val'], e['val'])
    return q


def parse_one(res):
    """(ok, value | reason) from a jq -c run expected to print exactly one JSON value"""
    code, out, err = res
    if batch.crashed(code):
        return False, "crash"
    if code != "0":
        return False, "error-exit"
    lines = [l for l in out.decode("utf8", "replace").split("\n") if l]
    if len(lines) != 1:
        return False, "no-output" if not lines else "several-outputs"
    try:
        return True, json.loads(lines[0])
    except Exception:  # noqa
        return False, "unparseable-output"


def feature(expr):
    b = expr.encode()
    for i in range(len(b) - 2):
        if b[i:i + 2] == b"]." and b[i + 2] >= 0x80:
            return "non-ascii-dot-key-after-bracket"
    return "other-path"


def check_cases(cases, rep, files):
    """cases: list of (doc index, offset). Runs the 2 phases and records failures."""
    jobs1 = []
    for (di, o) in cases:
        path, text, q = files[di]
        l, c = line_col(text, o)
        jobs1.append((["jq-locate", path, "--offset", str(o), "--format", "json"], b""))
        jobs1.append((["jq-locate", path, "--line", str(l), "--column", str(c)], b""))
    res1 = batch.runbatch(jobs1, tag="c28a")
    jobs2 = []; plan = []
    for idx, (di, o) in enumerate(cases):
        path, text, q = files[di]
        e, exp_val, own_val = q[o]
        r, r2 = res1[2 * idx], res1[2 * idx + 1]
        rep.trans(2)
        ex = {"kind": "cli", "side": "py", "doc": text.decode("utf8", "replace"), "doc_hex": text.hex(), "offset": o}
        if r[0] != "0":
            rep.fail("cli:jq-locate:" + ("crash" if batch.crashed(r[0]) else "error-exit") + ":" + e['kind'], len(text), dict(ex, got=batch.job_example(jobs1[2 * idx], r)))
            continue
        try:
            j = json.loads(r[1].decode())
            expr = j["expression"]; rng = j["byte_range"]
        except Exception:  # noqa
            rep.fail("cli:jq-locate:unparseable-json-output", len(text), dict(ex, got=batch.job_example(jobs1[2 * idx], r)))
            continue
        if rng != [e['start'], e['end']]:
            rep.fail("cli:jq-locate:byte_range:" + e['kind'], len(text), dict(ex, got=rng, expected=[e['start'], e['end']], expression=expr))
        if r2[0] != "0" or r2[1].decode("utf8", "replace").rstrip("\n") != expr:
            rep.fail("cli:jq-locate:line-column-differs-from-offset", len(text), dict(ex, got=batch.job_example(jobs1[2 * idx + 1], r2), expression=expr))
        l, c = line_col(text, o)
        for name, prog, want in (("expression", expr, exp_val), ("at_offset", "at_offset(%d)" % o, own_val), ("at_position", "at_position(%d; %d)" % (l, c), own_val)):
            jobs2.append((["jq", "-c", prog, path], b""))
            plan.append((ex, name, prog, want, e['kind']))
    res2 = batch.runbatch(jobs2, tag="c28b")
    confirmed = {}   # signature -> (number confirmed by a real process, smallest confirmed size)
    for (ex, name, prog, want, kind), job, r in zip(plan, jobs2, res2):
        rep.trans(1)
        ok, v = parse_one(r)
        if ok and eq(v, want):
            continue
        what = "wrong-value" if ok else v
        doc = bytes.fromhex(ex["doc_hex"])
        if name == "expression":
            feat = feature(prog)
        else:
            # the CLI evaluates each JSON value of the file on its own slice: positions are relative to the value
            feat = "document-has-leading-whitespace" if doc[:1] in (b" ", b"\n", b"\r", b"\t") else "no-leading-whitespace:" + kind
        sig = f"cli:{name}:{what}:{feat}"
        size = len(doc)
        n, best = confirmed.get(sig, (0, 1 << 60))
        # real process spawns are scarce (a few per second under load): confirm the first candidates of each
        # signature and every candidate that would become the recorded (smallest) example
        if n < 3 or size < best:
            same, real = batch.confirm(job, r)
            if not same:
                ok2, v2 = parse_one(real)
                if ok2 and eq(v2, want):
                    raise common.Machinery(f"batch and real process disagree on {job[0]!r}")
            confirmed[sig] = (n + 1, min(best, size))
            rep.fail(sig, size, dict(ex, program=prog, expected=want, got=batch.job_example(job, r), confirmed_by_real_process=True))
        else:
            rep.fail(sig, size + 1, dict(ex, program=prog, expected=want, got=batch.job_example(job, r), confirmed_by_real_process=False))
    rep.extra["violation_candidates_confirmed_by_real_spawns"] = rep.extra.get("violation_candidates_confirmed_by_real_spawns", 0) + sum(n for n, _ in confirmed.values())
    return jobs1 + jobs2, res1 + res2


def run(ctx):
    tier = ctx["tier"]
    rep = batch.Report()
    os.makedirs(DOCDIR, exist_ok=True)
    if ctx["replay"]:
        case = json.load(open(ctx["replay"]))["case"]
        text = bytes.fromhex(case["doc_hex"])
        # rebuild the table by finding the document in the generator output
        for t, table in documents("thorough"):
            if t == text:
                break
        else:
            raise common.Machinery("replay document is not in the generated space")
        path = os.path.join(DOCDIR, "replay.json")
        with open(path, "wb") as f:
            f.write(text)
        rep.space("replay")
        rep.input()
        files = [(path, text, qualifying(text, table))]
        a = batch.Report(); b = batch.Report()
        check_cases([(0, case["offset"])], a, files)
        check_cases([(0, case["offset"])], b, files)
        if sorted(a.failures) != sorted(b.failures):
            raise common.Machinery("replay not deterministic")
        for f in a.failures.values():
            rep.fail(f["signature"], 0, f["example"])
        return rep.to_json()
    files = []; cases = []
    rep.space("cli/J%d-reduced+special" % (2 if tier == "quick" else 3), True,
              "every duplicate-free document of the stated families x every qualifying byte offset; 5 CLI runs per (document, offset)")
    for i, (text, table) in enumerate(documents(tier)):
        path = os.path.join(DOCDIR, f"d{i}.json")
        with open(path, "wb") as f:
            f.write(text)
        q = qualifying(text, table)
        files.append((path, text, q))
        rep.input()
        rep.seen(text)
        for o in sorted(q):
            cases.append((i, o))
    jobs, res = check_cases(cases, rep, files)
    confirmed = batch.selftest(jobs, res, n=16 if tier == "quick" else 40)
    rep.traces_validated = confirmed
    rep.extra["batch_jobs"] = len(jobs)
    rep.extra["batch_jobs_confirmed_by_real_spawns"] = confirmed
    rep.extra["cli_documents"] = len(files)
    rep.extra["cli_offsets"] = len(cases)
    rep.sample({"document": '[{"a b":[1,"x"]},1]', "offset": 11, "runs": ["jq-locate F --offset 11 --format json", "jq-locate F --line 1 --column 12", "jq -c '<expr>' F", "jq -c 'at_offset(11)' F", "jq -c 'at_position(1; 12)' F"]})
    for p, _, _ in files:
        try:
            os.remove(p)
        except OSError:
            pass
    return rep.to_json()
