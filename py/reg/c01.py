SPEC = dict(
    kind="rust",
    bins=rust("c01", (("default", ()), ("simd", ("simd",)), ("portable-popcount", ("portable-popcount",)))),
    design_ref="§3-C01",
    technique="bounded-exhaustive input enumeration (S2) + scale families across the 8-word scan block / 512-bit rank block (S3), "
              "every query argument against a bit-at-a-time model, repeated in three feature builds (S5)",
    rule="inputs = (raw words, len) pairs: all vectors of <=3 (quick) / <=4 (thorough) words over the 8-word alphabet W8 with every len "
         "(<=2 words) or every word-boundary len ±{0,1,2,7} (last two words), each as given / clean / all bits >= len set / +1 / +2 surplus "
         "u64::MAX words; block families (special word s at position p in filler f, 7..33 (quick) / 7..129 (thorough) words, len in "
         "{cap, cap-1, cap-65}); sparse families (4 one-carrying words separated by all-zero gaps of 0..33 words). Each input x from_words "
         "and every sample rate of {0,1,2,3,7,8,63,64,65,255,256,257,512,4096} (long block vectors: {1,3,64,256}, thorough "
         "{0,1,3,64,65,256,4096}) x every get/rank1/rank0/select1/select0 argument incl. out-of-range ones. A case is distinct and "
         "non-trivial when its (len, valid bits, storage feature) triple is new and the valid prefix contains both a 0 and a 1; "
         "for the free scan functions: a new word vector containing a 1",
    level_text="Every (vector, len, storage variant, sample rate) of the bounded families is built with the real BitVec and every "
               "query argument (all positions, all ranks, and the out-of-range ones) is compared with a model that reads the first len "
               "bits one at a time; scan_select / scan_select_scalar / select_from are driven from every start word. The same "
               "exploration runs in the default, simd and portable-popcount builds.",
    level_note="Bounds: <= 4 words exhaustively over W8; families up to 129 words (8256 bits) and gaps up to 33 zero words; the 2^32-bit "
               "L0 superblock of the rank directory is out of reach. Oracle: prefix sums / position lists from one bit-at-a-time scan "
               "(self-tested against core's count_ones of the masked words). Dispatch paths that ran on this host are listed in the "
               "evidence (simd build: AVX-512 VPOPCNTDQ popcount_words where the CPU has it; scan_select: AVX2 block popcount; "
               "select_in_word: whatever the dispatcher picks - each select path is driven separately by C02).",
    assumptions=["words outside W8 only appear as filler/special/carrier patterns of the families",
                 "get(i) for i >= len is documented to panic; that is what is checked",
                 "vectors longer than 8256 bits and the L0 (2^32 bits) rank level are not explored"],
)
