#!/bin/bash
# Confirm a seeded change independently of the agent that wrote it:
#   tools/confirm_mutant.sh <ID> <outdir-with-patch.diff-and-demo>
# 1. fresh scratch worktree of /repo HEAD, apply patch.diff (must apply and compile)
# 2. the repository's whole test suite, unedited, must pass with the change
# 3. the demonstration must FAIL with the change and PASS without it
# Result -> /verif/seeded/<ID>/confirm.json ; worktree and build output are removed afterwards.
set -u
id=$1; src=$2
wt=/tmp/confirm-$id
td=/verif/.cache/target-confirm
dst=/verif/seeded/$id
mkdir -p $dst
cp $src/patch.diff $dst/patch.diff
[ -f $src/demo.rs ] && cp $src/demo.rs $dst/demo.rs
[ -f $src/demo.sh ] && cp $src/demo.sh $dst/demo.sh
[ -f $src/meta.json ] && cp $src/meta.json $dst/meta.agent.json
git -C /repo worktree remove --force $wt 2>/dev/null
git -C /repo worktree add -q --detach $wt HEAD || exit 2
cd $wt
export CARGO_TARGET_DIR=$td CARGO_NET_OFFLINE=true
applies=true; git apply $dst/patch.diff || applies=false
lower=$(echo $id | tr 'A-Z' 'a-z' | tr -d '-')
run_demo() { # prints PASS/FAIL
  if [ -f $dst/demo.rs ]; then
    cp $dst/demo.rs tests/demo_$lower.rs
    feat=""; grep -q "features cli\|CARGO_BIN_EXE\|--features" $dst/demo.rs $dst/meta.agent.json 2>/dev/null && feat="--features cli"
    if cargo test --offline $feat --test demo_$lower > $dst/demo.$1.log 2>&1; then echo PASS; else echo FAIL; fi
    rm -f tests/demo_$lower.rs
  else
    cargo build --offline --release --features cli --bin succinctly > $dst/demo.$1.build.log 2>&1
    if SUCCINCTLY=$td/release/succinctly BIN=$td/release/succinctly bash $dst/demo.sh $td/release/succinctly > $dst/demo.$1.log 2>&1; then echo PASS; else echo FAIL; fi
  fi
}
suite="not-run"; passed=0
if $applies; then
  cargo nextest run --workspace --no-fail-fast --test-threads 8 --offline > $dst/nextest.log 2>&1
  suite=$(grep -E "^\s*Summary" $dst/nextest.log | tail -1)
  grep -qE "tests run: ([0-9]+) passed" $dst/nextest.log && ! grep -qE "[0-9]+ failed" <<<"$suite" && passed=1
  with=$(run_demo with)
  git apply -R $dst/patch.diff
  without=$(run_demo without)
else
  with=NA; without=NA
fi
python3 - <<PY
import json
json.dump({"id":"$id","patch_applies":"$applies"=="true","suite_summary":"""$suite""".strip(),"suite_passed":bool($passed),
           "demo_with_change":"$with","demo_without_change":"$without",
           "confirmed": ("$applies"=="true") and bool($passed) and "$with"=="FAIL" and "$without"=="PASS"},
          open("$dst/confirm.json","w"),indent=1)
PY
tail -c 3000 $dst/nextest.log > $dst/nextest.tail.log 2>/dev/null; rm -f $dst/nextest.log
cd /; git -C /repo worktree remove --force $wt
cat $dst/confirm.json
