#!/bin/bash
# Run registered checks against a seeded change: tools/seed_check.sh <ID> <CHECK> [<CHECK>...]
# Fresh scratch worktree of /repo HEAD + seeded/<ID>/patch.diff, VERIF_REPO pointing at it; results ->
# seeded/<ID>/checks.json. /repo is never touched; the worktree and its build output are removed afterwards.
set -u
id=$1; shift
cd /verif
wt=/tmp/seedchk-$id
git -C /repo worktree remove --force $wt 2>/dev/null
git -C /repo worktree add -q --detach $wt HEAD || exit 2
( cd $wt && git apply /verif/seeded/$id/patch.diff ) || { echo "patch does not apply"; git -C /repo worktree remove --force $wt; exit 2; }
head=$(git -C /repo rev-parse --short HEAD)
alt=$(python3 -c "import hashlib;print('-alt'+hashlib.sha1(b'$wt').hexdigest()[:8])")
res="[]"
for c in "$@"; do
  out=$(VERIF_REPO=$wt ./check $c --tier ${TIER:-quick} 2>/dev/null); rc=$?
  sigs=$(echo "$out" | grep -E "^  violation signature=" | sed -E 's/^  violation signature=([^ ]+) count=([0-9]+).*/\1/' | head -12 | python3 -c "import sys,json;print(json.dumps([l.strip() for l in sys.stdin if l.strip()]))")
  nv=$(echo "$out" | grep -c "^VIOLATION")
  res=$(python3 -c "
import json,sys
r=json.loads('''$res'''); r.append({'check':'$c','tier':'${TIER:-quick}','exit':$rc,'violations':$nv,'signatures':json.loads('''$sigs'''),'detected':$rc==1})
print(json.dumps(r))")
  echo "$id vs $c: exit=$rc violations=$nv"
done
python3 - <<PY
import json
json.dump({"seed":"$id","repo_head":"$head","runs":json.loads('''$res''')}, open("/verif/seeded/$id/checks.json","w"), indent=1)
PY
git -C /repo worktree remove --force $wt
rm -rf /verif/.cache/*$alt
