SPEC = dict(
    kind="rust",
    bins=rust("c25", (("regex", ("regex",)),)),
    design_ref="§3-C25",
    technique="bounded-exhaustive enumeration of a JSON value grammar x all paths (S2), identities checked in the harness on an own value model "
              "(own parser, own jq total order, own getpath/setpath, tree diff), on both evaluators",
    rule="values: every value with <= 4 (quick) / 5 (thorough) nodes and depth <= 3 over 13 leaves {null,false,true,0,-1,1.5,1e17 as integer,2^53+1,"
         "\"\",\"a\",\"aé😀\",\"\\u0000\",\"b\"}, arrays, objects with distinct keys from {a,b,\"\"} in every order (41 135 / 1 184 406 values); every path of each; "
         "arrays of length <= 3 / 4 over a 24-value sort alphabet (all type ranks with ties); strings of <= 4 / 5 symbols over 12 (ASCII, %, +, /, =, ~, é, 😀, NUL). "
         "Distinct+non-trivial = distinct value with at least two paths, array of length >= 2, or string of >= 2 bytes.",
    level_text="For every value: tojson|fromjson, to_entries|from_entries (objects), [tostream]|fromstream(.[]) and fromstream(tostream) reproduce it; "
               "[paths] equals the harness's pre-order path list; for every path p getpath(p) equals the harness's getpath, setpath(p; getpath(p)) reproduces "
               "the value, and setpath(p;\"N\"), `p = \"N\"`, `p |= \"N\"` differ from the input at exactly p (tree diff); the same holds when an array element is addressed by its negative index (i - length) in getpath, setpath and `=`; sort/unique outputs are ordered "
               "(strictly for unique) under the harness's implementation of jq's total order and are a permutation / deduplication of the input; "
               "@base64|@base64d reproduces every string and @uri decodes (own percent-decoder, which rejects anything but unreserved ASCII and %XX) to the "
               "original bytes. All on jq::eval::<_, JqSemantics> and on jq::eval_generic::eval_with_cursor.",
    level_note="Bounded to the value grammar above (duplicate-free keys, depth <= 3, <= 5 nodes). Equality is JSON value equality with numbers compared as "
               "f64 (so 9007199254740993 == 9007199254740992, as in jq). The CLI slice mentioned in the design is not run here: the generic evaluator is the "
               "CLI's evaluator and C27 covers routes. Oracle: jqgen.rs (self-tested: parser round trip, total order on 22 ranked values, paths/setpath/diff).",
    assumptions=["jq's total order: null < false < true < numbers < strings (code point order) < arrays < objects (sorted key lists first, then values)"],
)
