#!/bin/sh
# Offline build of the whole framework from files on disk (harness binaries + CLI with hooks).
set -e
cd "$(dirname "$0")"
export CARGO_NET_OFFLINE=true
exec ./check --build-all
