"""Registry of checks: one entry per claimed property.

kind "rust": `bins` = [(binary, variant, cargo features of svh)] — every variant is
built from /repo's working tree and run; reports are merged.
kind "py":   `module` under /verif/py with run(ctx) -> report (CLI-driven checks).
"""

def rust(binname, variants=(("default", ()),)):
    return [(binname, v, tuple(f)) for v, f in variants]

CHECKS = {}

CHECKS["C03"] = dict(
    kind="rust", bins=rust("c03"), design_ref="§3-C03",
    technique="closed-state BFS to fixpoint over the real cursor (explicit-state, S1) + bounded-exhaustive input enumeration against a Vec model",
    rule="inputs: all non-decreasing sequences of length<=4 (quick) / 5 (thorough) over a 15-value alphabet plus scale families "
         "(strides, 2^31 gaps at sample boundaries, duplicate runs) of 255..1025 elements; states = distinct concrete cursor states "
         "(all fields) reached by BFS; a case is distinct+non-trivial when its (sequence, cursor state) pair is new",
    level_text="Every reachable concrete state of the real EliasFanoCursor (on each enumerated sequence) has every operation of the "
               "alphabet applied and compared with a plain-vector model, to a fixpoint: all finite histories over the alphabet, not "
               "histories up to a depth. get/predecessor/iteration are compared for every argument of the stated sets.",
    level_note="Bounded to the enumerated sequences and the op alphabet (advance_by k in {0..3,5,63..66,255..257,usize::MAX}, "
               "seek/cursor_from at every index for short sequences, boundary indices for long ones). Oracle: Vec<u32>.",
    assumptions=["state key = Debug rendering of every cursor field (derive(Debug)), so merged states have identical futures",
                 "sequences beyond ~1000 elements and > 10^6-element select samples are out of reach"],
)

CHECKS["C22"] = dict(
    kind="py", module="c22", design_ref="§3-C22",
    technique="bounded-exhaustive enumeration of (delimiter, array) pairs through the real CLI code path, composed format -> read-back, against the identity model",
    rule="arrays of length 1..3 over 18 strings (+ the delimiter), length-20 arrays, and long fields (62..130 bytes, around the SIMD chunk sizes) combined with short ones x @csv and @dsv(d) for all 93 printable ASCII d != '\"'; "
         "a case is the (delimiter, array) pair; non-trivial = distinct pair",
    level_text="Every (delimiter, array) pair of the bounded space is formatted by the real jq runner and read back by the real DSV input "
               "path; the composed function must be the identity. Exhaustive over the stated alphabets.",
    level_note="Runs through the __verif-batch hook (same clap parser and run_jq as main); an evenly spread slice is re-run as real "
               "processes and must be byte-identical; every reported violation is localised and confirmed with real processes.",
    assumptions=["strings outside the 18-string alphabet and arrays longer than 3 (except 20 copies) are out of scope"],
)

NOT_APPLICABLE = {}
HOOK_COMMITS = ["4eebcf9", "f5ca208"]
FIX_COMMITS = ["b3d92f0", "c4106b5", "b46521b", "9eb13bc", "c808f7a", "0de42e6", "8ba5c96", "d3e74d0", "e6c6b40", "da3144b", "45e3f7d", "346527f", "681f6bd", "2a3653c", "a3edb33", "28e05c2", "8174908", "4828015", "17b6674", "c788435"]

# Per-property fragments: py/reg/cNN.py defines SPEC = dict(...) (same keys as above; may use `rust`).
import glob as _glob, os as _os, importlib.util as _ilu
for _f in sorted(_glob.glob(_os.path.join(_os.path.dirname(_os.path.abspath(__file__)), "reg", "c*.py"))):
    _spec = _ilu.spec_from_file_location("reg_" + _os.path.basename(_f)[:-3], _f)
    _m = _ilu.module_from_spec(_spec)
    _m.rust = rust
    _spec.loader.exec_module(_m)
    CHECKS[_os.path.basename(_f)[:-3].upper()] = _m.SPEC
    if hasattr(_m, "NOT_APPLICABLE_REASON"):
        NOT_APPLICABLE[_os.path.basename(_f)[:-3].upper()] = _m.NOT_APPLICABLE_REASON
