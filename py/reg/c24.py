SPEC = dict(
    kind="py", module="c24", design_ref="§3-C24",
    technique="bounded-exhaustive enumeration of (program, input) pairs through the real CLI code path against a reference model of jq 1.7.1 "
              "bound to the recorded jq-1.7.1 traces and cross-witnessed by jq 1.6",
    rule="placeholder", level_text="placeholder", level_note="placeholder", assumptions=[],
)
