//! C16 — YAML index independent of the SIMD dispatch level (S5 over S2/S3): the dump binary.
//!
//! `py/c16.py` runs this binary three times — default build, default build with
//! `SUCCINCTLY_SIMD=sse2` (the clamp is read once per process), `scalar-yaml` build — over the
//! same deterministic input corpus and compares the per-input digest streams
//! (`--digests FILE`: 4 x u64 per input = hash of `format!("{:?}", YamlIndex)`, of
//! `to_json_document`, of `stream_yaml_document`, of the error / panic). In-process each run
//! also drives the public `yaml::simd::*` kernels on every (buffer, start[, end | indent]) of
//! a kernel corpus against trivially scalar references written from their doc comments.
use engine::*;
use serde_json::{json, Value};
use std::sync::Mutex;
use succinctly::jq::document::IndentSpec;
use succinctly::yaml::simd;
use succinctly::yaml::YamlIndex;

#[path = "../ygen.rs"]
mod ygen;

// ------------------------------------------------------------------ corpus --

const SOUP: [&[u8]; 23] = [b"a", b": ", b":", b"- ", b"\n", b" ", b"#", b"\"", b"'", b"[", b"]", b"{", b"}", b",", b"&a ", b"*a", b"|", b">", b"? ", b"---", b"\r", b"\\", b"\t"];

fn brk_bytes(b: usize) -> &'static [u8] {
    [&b"\n"[..], b"\r\n", b"\r"][b]
}

/// Long constructs of every length 0..=maxn around the 16/32-byte chunk sizes.
fn long_constructs(maxn: usize) -> Vec<Vec<u8>> {
    let mut out = Vec::new();
    // windows placed right after `n` filler bytes
    let plain_w: [&[u8]; 10] = [b"", b": ", b" #c", b":x", b"#x", b" ", b"'", b"\"", b"\\", b"\t"];
    let dq_w: [&[u8]; 8] = [b"", b"\\\"", b"\\\\", b"\\n", b"'", b": ", b" #", b"\xc3\xa9"];
    let sq_w: [&[u8]; 6] = [b"", b"''", b"\"", b"\\", b": ", b" #"];
    let tails: [&[u8]; 2] = [b"", b"z: 1\n# cccccccccccccccccccccccccccccccccccccccc\n"];
    for n in 0..=maxn {
        let a = vec![b'a'; n];
        let sp = vec![b' '; n];
        for b in 0..3 {
            let nl = brk_bytes(b);
            for tail in tails {
                let mut push = |parts: &[&[u8]]| {
                    let mut v = Vec::new();
                    for p in parts {
                        for &c in *p {
                            if c == b'\n' {
                                v.extend_from_slice(nl);
                            } else {
                                v.push(c);
                            }
                        }
                    }
                    v.extend_from_slice(&tail.iter().flat_map(|&c| if c == b'\n' { nl.to_vec() } else { vec![c] }).collect::<Vec<u8>>());
                    out.push(v);
                };
                for w in plain_w {
                    push(&[b"k: ", &a, w, b"b\n"]); // plain value
                    push(&[&a, w, b"b: v\n"]); // plain key
                    push(&[b"- ", &a, w, b"b\n"]); // sequence item
                    push(&[b"[", &a, w, b"b, c]\n"]); // flow
                    push(&[&a, w, b"b\n"]); // document-level scalar
                }
                for w in dq_w {
                    push(&[b"k: \"", &a, w, b"b\"\n"]);
                    push(&[b"\"", &a, w, b"b\": v\n"]);
                    push(&[b"[\"", &a, w, b"b\", c]\n"]);
                }
                for w in sq_w {
                    push(&[b"k: '", &a, w, b"b'\n"]);
                    push(&[b"'", &a, w, b"b': v\n"]);
                }
                // indentation runs
                push(&[b"p:\n", &sp, b"k: v\n"]);
                push(&[b"p:\n", &sp, b"- v\n"]);
                push(&[b"k:", &sp, b"v\n"]);
                push(&[b"k: v", &sp, b"# c\n"]);
                // block scalars: content indented by n, blank lines, dedent
                for hdr in [&b"|"[..], b">", b"|-", b"|+", b">2"] {
                    push(&[b"k: ", hdr, b"\n", &sp, b" x\n", &sp, b" y\n"]);
                    push(&[b"k: ", hdr, b"\n  ", &a, b"\n\n  ", &a, b"\nj: 1\n"]);
                    push(&[b"- ", hdr, b"\n  x\n", &sp, b"\n  y\n"]);
                }
                // anchors / aliases
                push(&[b"k: &", &a, b"x v\nj: *", &a, b"x\n"]);
                push(&[b"k: &", &a, b":x v\nj: *", &a, b":x\n"]);
                push(&[b"[&", &a, b"x v, *", &a, b"x]\n"]);
                push(&[b"&", &a, b"x\n- 1\n"]);
                push(&[b"k: &", &a, b": v\n"]);
                // comments and long lines
                push(&[b"#", &a, b"\nk: v\n"]);
                push(&[b"k: v #", &a, b"\nj: w\n"]);
            }
        }
    }
    out
}

fn soups(maxlen: u32) -> Vec<Vec<u8>> {
    let a = SOUP.len() as u64;
    let n = count_strings(a, maxlen);
    let mut out = Vec::with_capacity(2 * n as usize);
    let mut idx = Vec::new();
    for i in 0..n {
        nth_string(a, maxlen, i, &mut idx);
        let mut s = Vec::new();
        for &k in &idx {
            s.extend_from_slice(SOUP[k]);
        }
        let mut t = s.clone();
        t.extend_from_slice(b"\nx: yyyyyyyyyyyyyyyyyyyyyyyyyyyyyyyyyyyyyyyy\n");
        out.push(s);
        out.push(t);
    }
    out
}

/// The generated documents (Y(2), every style, no wrapper, LF/CRLF/CR) under the alignment
/// sweep: a leading comment line of p bytes and a trailing comment line of q bytes.
fn aligned_docs(ctx: &Ctx) -> Vec<Vec<u8>> {
    let plan = ygen::plan(true);
    let mut sp: Vec<ygen::Space> = plan.into_iter().filter(|s| s.name == "styles/n<=2" || s.name == "anchors" || s.name == "comments").collect();
    for s in sp.iter_mut() {
        s.wraps = vec![ygen::Wrap::None];
        if s.name == "anchors" {
            s.brks = vec![ygen::Brk::Lf];
        }
    }
    let docs: Mutex<Vec<Vec<u8>>> = Mutex::new(Vec::new());
    let _ = ygen::explore_plan(ctx, &sp, |c, _| {
        if c.space == "anchors" && h64(c.text) % 8 != 0 {
            return;
        }
        docs.lock().unwrap().push(c.text.to_vec());
    });
    let mut docs = docs.into_inner().unwrap();
    docs.sort();
    docs.dedup();
    let ps: Vec<usize> = if ctx.quick() { vec![0, 31] } else { vec![0, 1, 2, 7, 14, 15, 16, 17, 30, 31, 32, 33, 47, 48, 63, 64, 65] };
    let qs: [usize; 2] = [0, 40];
    let mut out = Vec::with_capacity(docs.len() * ps.len() * 2);
    for d in &docs {
        let nl: &[u8] = if d.windows(2).any(|w| w == b"\r\n") {
            b"\r\n"
        } else if d.contains(&b'\r') && !d.contains(&b'\n') {
            b"\r"
        } else {
            b"\n"
        };
        for &p in &ps {
            for &q in &qs {
                let mut v = Vec::with_capacity(d.len() + p + q + 4);
                if p >= 2 {
                    v.push(b'#');
                    v.extend(std::iter::repeat(b'c').take(p - 1 - nl.len().min(p - 1)));
                    v.extend_from_slice(nl);
                } else if p == 1 {
                    v.extend_from_slice(nl);
                }
                v.extend_from_slice(d);
                if q > 0 {
                    v.push(b'#');
                    v.extend(std::iter::repeat(b'c').take(q));
                    v.extend_from_slice(nl);
                }
                out.push(v);
            }
        }
    }
    out
}

fn corpus(ctx: &Ctx) -> Vec<(&'static str, Vec<Vec<u8>>)> {
    vec![("long-constructs", long_constructs(ctx.pick(72, 100))), ("token-strings", soups(ctx.pick(3, 4))), ("aligned-documents", aligned_docs(ctx))]
}

// ---------------------------------------------------------------- observe --

struct Obs {
    debug: String,
    json: String,
    yaml: String,
    err: String,
}

fn observe(t: &[u8]) -> Obs {
    let r = catch(|| match YamlIndex::build(t) {
        Ok(ix) => {
            let debug = format!("{ix:?}");
            let root = ix.root(t);
            let json = root.to_json_document();
            let mut yaml = String::new();
            let y = root.stream_yaml_document(&mut yaml, IndentSpec::spaces(2), false);
            if y.is_err() {
                yaml.push_str("<fmt error>");
            }
            Obs { debug, json, yaml, err: String::new() }
        }
        Err(e) => Obs { debug: String::new(), json: String::new(), yaml: String::new(), err: format!("{e:?}") },
    });
    r.unwrap_or_else(|p| Obs { debug: String::new(), json: String::new(), yaml: String::new(), err: format!("PANIC {p}") })
}

fn digest(o: &Obs) -> [u64; 4] {
    [h64(o.debug.as_str()), h64(o.json.as_str()), h64(o.yaml.as_str()), h64(o.err.as_str())]
}

// ---------------------------------------------------------------- kernels --

fn ref_find2(input: &[u8], start: usize, end: usize, pred: impl Fn(u8) -> bool) -> Option<usize> {
    if start >= end || start >= input.len() {
        return None;
    }
    let end = end.min(input.len());
    (start..end).find(|&i| pred(input[i])).map(|i| i - start)
}

fn ref_count_spaces(input: &[u8], start: usize) -> usize {
    let mut n = 0;
    while start + n < input.len() && input[start + n] == b' ' {
        n += 1;
    }
    n
}

fn ref_find_newline(input: &[u8], start: usize) -> Option<usize> {
    if start >= input.len() {
        return None;
    }
    (start..input.len()).find(|&i| input[i] == b'\n').map(|i| i - start)
}

/// "Returns the start of the first line whose content sits at less than `min_indent` spaces, or
/// `input.len()`. Blank lines belong to the block. Both `\n` and `\r` open a new line."
fn ref_block_end(input: &[u8], start: usize, min_indent: usize) -> usize {
    let len = input.len();
    let mut i = start;
    while i < len {
        if input[i] == b'\n' || input[i] == b'\r' {
            let ls = i + 1;
            if ls >= len {
                return len;
            }
            let ind = ref_count_spaces(input, ls);
            if ls + ind < len {
                let c = input[ls + ind];
                let blank = c == b'\n' || c == b'\r';
                if !blank && ind < min_indent {
                    return ls;
                }
            }
        }
        i += 1;
    }
    len
}

/// "Terminators are whitespace (space, tab, LF, CR), the flow indicators `[ ] { } ,`, and a `:`
/// that is followed by whitespace — a bare `:` is legal inside an anchor name."
fn ref_anchor_name(input: &[u8], start: usize) -> usize {
    let ws = |c: u8| c == b' ' || c == b'\t' || c == b'\n' || c == b'\r';
    let mut i = start;
    while i < input.len() {
        let c = input[i];
        if ws(c) || matches!(c, b'[' | b']' | b'{' | b'}' | b',') {
            return i;
        }
        if c == b':' && i + 1 < input.len() && ws(input[i + 1]) {
            return i;
        }
        i += 1;
    }
    i.max(start)
}

#[cfg(not(feature = "scalar-yaml"))]
fn classify_level() -> &'static str {
    let buf = [b'a'; 64];
    match simd::classify_yaml_chars::<true>(&buf, 0) {
        Some(c) if c.width == 32 => "avx2",
        Some(_) => "sse2",
        None => "none",
    }
}
#[cfg(feature = "scalar-yaml")]
fn classify_level() -> &'static str {
    "scalar"
}

#[cfg(not(feature = "scalar-yaml"))]
fn check_classify(buf: &[u8], off: usize, level: &str, rep: &mut Report, acc: &mut u64) {
    for has_cr in [false, true] {
        rep.trans(1);
        let got = if has_cr { simd::classify_yaml_chars::<true>(buf, off) } else { simd::classify_yaml_chars::<false>(buf, off) };
        let case = || json!({"kind":"kernel","kernel":"classify_yaml_chars","hex":hex(buf),"start":off,"has_cr":has_cr});
        if off + 16 > buf.len() {
            if got.is_some() {
                rep.fail("kernel:classify_yaml_chars:some-with-less-than-16-bytes", buf.len(), case);
            }
            continue;
        }
        let Some(c) = got else {
            rep.fail("kernel:classify_yaml_chars:none-with-16-bytes-available", buf.len(), case);
            continue;
        };
        let want_w = if level == "avx2" && off + 32 <= buf.len() { 32 } else { 16 };
        if c.width != want_w {
            rep.fail(&format!("kernel:classify_yaml_chars:width:{level}"), buf.len(), case);
            continue;
        }
        let mask = |p: &dyn Fn(u8) -> bool| -> u32 {
            let mut m = 0u32;
            for i in 0..c.width {
                if p(buf[off + i]) {
                    m |= 1 << i;
                }
            }
            m
        };
        let low = if c.width == 32 { u32::MAX } else { 0xffff };
        let chans: [(&str, u32, u32); 9] = [
            ("newlines", c.newlines, mask(&|b| b == b'\n')),
            ("carriage_returns", c.carriage_returns, if has_cr { mask(&|b| b == b'\r') } else { 0 }),
            ("colons", c.colons, mask(&|b| b == b':')),
            ("hyphens", c.hyphens, mask(&|b| b == b'-')),
            ("spaces", c.spaces, mask(&|b| b == b' ')),
            ("quotes_double", c.quotes_double, mask(&|b| b == b'"')),
            ("quotes_single", c.quotes_single, mask(&|b| b == b'\'')),
            ("backslashes", c.backslashes, mask(&|b| b == b'\\')),
            ("hash", c.hash, mask(&|b| b == b'#')),
        ];
        for (name, g, w) in chans {
            rep.evals(1);
            if g & low != w {
                rep.fail(&format!("kernel:classify_yaml_chars:{name}:{level}:width{}", c.width), buf.len(), case);
            }
            // digest only the 16 low bits: they are defined at every level
            *acc = acc.wrapping_mul(0x9E37_79B9_7F4A_7C15).wrapping_add((g & 0xffff) as u64);
        }
    }
}
#[cfg(feature = "scalar-yaml")]
fn check_classify(_buf: &[u8], _off: usize, _level: &str, _rep: &mut Report, _acc: &mut u64) {}

/// Special bytes per kernel corpus.
const SPECIALS: [u8; 14] = [b'"', b'\\', b'\'', b' ', b'\n', b'\r', b':', b'\t', b'[', b'}', b',', b'#', b'-', 0xc3];

fn kernel_buffers(maxlen: usize) -> Vec<Vec<u8>> {
    let mut out: Vec<Vec<u8>> = Vec::new();
    for l in 0..=maxlen {
        out.push(vec![b'a'; l]);
        out.push(vec![b' '; l]);
        out.push(vec![b'\n'; l]);
        for &s in &SPECIALS {
            for i in 0..l {
                let mut b = vec![b'a'; l];
                b[i] = s;
                out.push(b);
                // the same special inside a run of spaces (indentation kernels)
                let mut b = vec![b' '; l];
                if s != b' ' {
                    b[i] = s;
                    out.push(b);
                }
            }
        }
        // two-byte windows: `: ` `:\n` `:x` CRLF `\n ` at every position
        for w in [&b": "[..], b":\n", b":\t", b":x", b"\r\n", b"\n ", b"\n\n", b"\nx", b"\r ", b"::"] {
            for i in 0..l.saturating_sub(1) {
                let mut b = vec![b'a'; l];
                b[i] = w[0];
                b[i + 1] = w[1];
                out.push(b);
            }
        }
        // block-scalar shapes: a break at i followed by j spaces then content / break
        if l >= 3 {
            for i in 0..l - 2 {
                for j in [0usize, 1, 2, 15, 16, 17, 31, 32, 33] {
                    if i + 1 + j < l {
                        for brk in [b'\n', b'\r'] {
                            let mut b = vec![b' '; l];
                            for x in b.iter_mut().take(i) {
                                *x = b'a';
                            }
                            b[i] = brk;
                            b[i + 1 + j] = b'x';
                            out.push(b.clone());
                            b[i + 1 + j] = b'\n';
                            out.push(b);
                        }
                    }
                }
            }
        }
        // block-scalar shapes with TWO adjacent line breaks of every kind (`\n\n`, `\n\r`, `\r\n`, `\r\r`: a blank
        // line; mixed break kinds are legal) followed by j spaces and dedented / indented content, at every position
        if l >= 8 {
            for i in 0..l - 4 {
                for j in [0usize, 1, 2, 3] {
                    if i + 2 + j < l {
                        for b1 in [b'\n', b'\r'] {
                            for b2 in [b'\n', b'\r'] {
                                let mut b = vec![b'a'; l];
                                if i >= 2 {
                                    b[0] = b' ';
                                    b[1] = b' ';
                                }
                                b[i] = b1;
                                b[i + 1] = b2;
                                for x in b.iter_mut().skip(i + 2).take(j) {
                                    *x = b' ';
                                }
                                out.push(b);
                            }
                        }
                    }
                }
            }
        }
    }
    out
}

fn run_kernels(ctx: &Ctx, level: &'static str, rep: &mut Report) -> u64 {
    let bufs = kernel_buffers(ctx.pick(50, 100));
    let indents = [0usize, 1, 2, 3, 16, 17, 33];
    let accs: Mutex<Vec<(u64, u64)>> = Mutex::new(Vec::new());
    let r = par_range_in(ctx, "kernels", bufs.len() as u64, 64, |bi, rep| {
        let buf = &bufs[bi as usize];
        let l = buf.len();
        rep.input();
        let mut acc = 0u64;
        fn mixv(acc: &mut u64, v: u64) {
            *acc = acc.wrapping_mul(0x9E37_79B9_7F4A_7C15).wrapping_add(v.wrapping_add(1));
        }
        let opt = |o: Option<usize>| o.map_or(u64::MAX, |x| x as u64);
        for start in 0..=l + 1 {
            let kcase = |k: &str, extra: Value| json!({"kind":"kernel","kernel":k,"hex":hex(buf),"start":start,"arg":extra});
            // a kernel that panics on a (buffer, start) its scalar counterpart answers is a disagreement, not a harness crash
            let body = catch(|| {
            // find_quote_or_escape / find_single_quote: every end in start..=l+1 would be cubic; ends: l, l+5, start+1, start+16, start+17, start+32, start+33
            for end in [l, l + 5, start, start + 1, start + 15, start + 16, start + 17, start + 32, start + 33] {
                rep.trans(2);
                let g = simd::find_quote_or_escape(buf, start, end);
                let w = ref_find2(buf, start, end, |b| b == b'"' || b == b'\\');
                if g != w {
                    rep.fail(&format!("kernel:find_quote_or_escape:{level}"), l * 100 + start, || kcase("find_quote_or_escape", json!(end)));
                }
                mixv(&mut acc, opt(g));
                let g = simd::find_single_quote(buf, start, end);
                let w = ref_find2(buf, start, end, |b| b == b'\'');
                if g != w {
                    rep.fail(&format!("kernel:find_single_quote:{level}"), l * 100 + start, || kcase("find_single_quote", json!(end)));
                }
                mixv(&mut acc, opt(g));
            }
            rep.trans(2);
            let g = simd::count_leading_spaces(buf, start);
            if g != ref_count_spaces(buf, start) {
                rep.fail(&format!("kernel:count_leading_spaces:{level}"), l * 100 + start, || kcase("count_leading_spaces", Value::Null));
            }
            mixv(&mut acc, g as u64);
            let g = simd::find_newline(buf, start);
            if g != ref_find_newline(buf, start) {
                rep.fail(&format!("kernel:find_newline:{level}"), l * 100 + start, || kcase("find_newline", Value::Null));
            }
            mixv(&mut acc, opt(g));
            if start <= l {
                rep.trans(1);
                let g = simd::parse_anchor_name(buf, start);
                if g != ref_anchor_name(buf, start) {
                    rep.fail(&format!("kernel:parse_anchor_name:{level}"), l * 100 + start, || kcase("parse_anchor_name", Value::Null));
                }
                mixv(&mut acc, g as u64);
                for &mi in &indents {
                    rep.trans(1);
                    let g = simd::find_block_scalar_end(buf, start, mi);
                    if g != Some(ref_block_end(buf, start, mi)) {
                        rep.fail(&format!("kernel:find_block_scalar_end:{level}"), l * 100 + start, || kcase("find_block_scalar_end", json!(mi)));
                    }
                    mixv(&mut acc, opt(g));
                }
                // classify exists only in the vector builds: compared with its reference here, kept out of
                // the cross-configuration digest
                let mut unused = 0u64;
                check_classify(buf, start, level, rep, &mut unused);
            }
            });
            if let Err(p) = body {
                let which = ["find_quote_or_escape", "find_single_quote", "count_leading_spaces", "find_newline", "parse_anchor_name", "find_block_scalar_end", "classify"]
                    .into_iter()
                    .find(|k| p.contains(k))
                    .unwrap_or("some-kernel");
                rep.fail(&format!("kernel:PANIC:{which}:{level}"), l * 100 + start, || kcase("panic", json!(p)));
            }
        }
        rep.distinct(&(buf, acc));
        accs.lock().unwrap().push((bi, acc));
    });
    rep.merge(r);
    rep.mark_exhaustive("kernels", "buffers of every length 0..=50 (thorough 100): uniform filler, one special byte (14) at every position in 'a' and ' ' filler, 10 two-byte windows at every position, break + j spaces + content shapes; every start 0..=len+1; ends {len, len+5, start+{0,1,15,16,17,32,33}}; min_indent {0,1,2,3,16,17,33}; each answer == a byte-at-a-time reference");
    let mut v = accs.into_inner().unwrap();
    v.sort_unstable();
    h64(&v)
}

// ---------------------------------------------------------------- explore --

fn explore(ctx: &Ctx, rep: &mut Report) {
    let level = classify_level();
    rep.path(level);
    rep.extra.insert("dispatch_level_observed".into(), json!(level));
    rep.extra.insert("SUCCINCTLY_SIMD".into(), json!(std::env::var("SUCCINCTLY_SIMD").ok()));
    // self-test of the kernel references on hand-written cases from the doc comments / unit tests
    assert!(ref_anchor_name(b"anchor: rest", 0) == 6 && ref_anchor_name(b"anchor:rest", 0) == 11 && ref_anchor_name(b"name:", 0) == 5 && ref_anchor_name(b"*alias more", 1) == 6);
    assert!(ref_block_end(b"  a\n  b\nc\n", 0, 2) == 8 && ref_block_end(b"  a\r\n  b\r\nc\r\n", 0, 2) == 10 && ref_block_end(b"  a\n\n  b\nc\n", 0, 2) == 9 && ref_block_end(b"  a\n  b\n", 0, 2) == 8);
    let parts = corpus(ctx);
    let mut all: Vec<(&'static str, &Vec<u8>)> = Vec::new();
    for (name, v) in &parts {
        for t in v {
            all.push((name, t));
        }
    }
    // `--detail i,j,k`: print the full observations of selected inputs instead of exploring
    if let Some(list) = ctx.arg("--detail") {
        let mut det = Vec::new();
        for i in list.split(',').filter_map(|s| s.parse::<usize>().ok()) {
            if let Some((name, t)) = all.get(i) {
                let o = observe(t);
                det.push(json!({"index": i, "space": name, "hex": hex(t), "text": show(t), "debug": o.debug, "json": o.json, "yaml": o.yaml, "err": o.err}));
            }
        }
        rep.extra.insert("details".into(), Value::Array(det));
        return;
    }
    let kd = run_kernels(ctx, level, rep);
    rep.extra.insert("kernel_digest".into(), json!(format!("{kd:016x}")));
    let digests: Mutex<Vec<(u64, [u64; 4])>> = Mutex::new(Vec::with_capacity(all.len()));
    let r = par_range(ctx, all.len() as u64, 256, |i, rep| {
        let (name, t) = all[i as usize];
        rep.space(name);
        rep.input();
        rep.trans(1);
        let o = observe(t);
        let d = digest(&o);
        rep.distinct(&d);
        if o.err.starts_with("PANIC") {
            rep.fail("PANIC:YamlIndex::build-or-output", t.len(), || json!({"kind":"input","hex":hex(t),"text":show(t),"panic":o.err}));
        }
        if i % 50021 == 11 {
            rep.sample(|| json!({"space": name, "input": show(t), "digest": d.iter().map(|x| format!("{x:016x}")).collect::<Vec<_>>()}));
        }
        digests.lock().unwrap().push((i, d));
    });
    rep.merge(r);
    for (name, v) in &parts {
        rep.mark_exhaustive(name, &format!("{} inputs, each built in this process and digested", v.len()));
    }
    let mut v = digests.into_inner().unwrap();
    v.sort_unstable_by_key(|x| x.0);
    if let Some(p) = ctx.arg("--digests") {
        let mut bytes = Vec::with_capacity(v.len() * 32);
        for (_, d) in &v {
            for x in d {
                bytes.extend_from_slice(&x.to_le_bytes());
            }
        }
        std::fs::write(p, bytes).expect("write digests");
    }
    rep.extra.insert("inputs".into(), json!(v.len()));
    rep.extra.insert("soup_tokens".into(), json!(SOUP.iter().map(|t| show(t)).collect::<Vec<_>>()));
}

fn replay(case: &Value, rep: &mut Report) {
    let level = classify_level();
    rep.space("replay");
    rep.input();
    let buf = unhex(case["hex"].as_str().unwrap());
    match case["kind"].as_str().unwrap_or("input") {
        "kernel" => {
            let start = case["start"].as_u64().unwrap() as usize;
            let k = case["kernel"].as_str().unwrap();
            let arg = case["arg"].as_u64().unwrap_or(0) as usize;
            let bad = match k {
                "find_quote_or_escape" => simd::find_quote_or_escape(&buf, start, arg) != ref_find2(&buf, start, arg, |b| b == b'"' || b == b'\\'),
                "find_single_quote" => simd::find_single_quote(&buf, start, arg) != ref_find2(&buf, start, arg, |b| b == b'\''),
                "count_leading_spaces" => simd::count_leading_spaces(&buf, start) != ref_count_spaces(&buf, start),
                "find_newline" => simd::find_newline(&buf, start) != ref_find_newline(&buf, start),
                "parse_anchor_name" => simd::parse_anchor_name(&buf, start) != ref_anchor_name(&buf, start),
                "find_block_scalar_end" => simd::find_block_scalar_end(&buf, start, arg) != Some(ref_block_end(&buf, start, arg)),
                _ => {
                    let mut acc = 0;
                    check_classify(&buf, start, level, rep, &mut acc);
                    false
                }
            };
            if bad {
                rep.fail(&format!("kernel:{k}:{level}"), 0, || case.clone());
            }
        }
        _ => {
            // whole-index observation of one input: returned to py/c16.py, which compares the three configurations
            let o = observe(&buf);
            if o.err.starts_with("PANIC") {
                rep.fail("PANIC:YamlIndex::build-or-output", buf.len(), || case.clone());
            }
            rep.extra.insert("observation".into(), json!({"debug": o.debug, "json": o.json, "yaml": o.yaml, "err": o.err, "level": level}));
        }
    }
}

fn main() {
    drive("C16", explore, replay);
}
