"""Registry of checks: one entry per claimed property.

kind "rust": `bins` = [(binary, variant, cargo features of svh)] — every variant is
built from /repo's working tree and run; reports are merged.
kind "py":   `module` under /verif/py with run(ctx) -> report (CLI-driven checks).
"""

def rust(binname, variants=(("default", ()),)):
    return [(binname, v, tuple(f)) for v, f in variants]

CHECKS = {}

CHECKS["C03"] = dict(
    kind="rust", bins=rust("c03"), design_ref="§3-C03",
    technique="closed-state BFS to fixpoint over the real cursor (explicit-state, S1) + bounded-exhaustive input enumeration against a Vec model",
    rule="inputs: all non-decreasing sequences of length<=4 (quick) / 5 (thorough) over a 15-value alphabet plus scale families "
         "(strides, 2^31 gaps at sample boundaries, duplicate runs) of 255..1025 elements; states = distinct concrete cursor states "
         "(all fields) reached by BFS; a case is distinct+non-trivial when its (sequence, cursor state) pair is new",
    level_text="Every reachable concrete state of the real EliasFanoCursor (on each enumerated sequence) has every operation of the "
               "alphabet applied and compared with a plain-vector model, to a fixpoint: all finite histories over the alphabet, not "
               "histories up to a depth. get/predecessor/iteration are compared for every argument of the stated sets.",
    level_note="Bounded to the enumerated sequences and the op alphabet (advance_by k in {0..3,5,63..66,255..257,usize::MAX}, "
               "seek/cursor_from at every index for short sequences, boundary indices for long ones). Oracle: Vec<u32>.",
    assumptions=["state key = Debug rendering of every cursor field (derive(Debug)), so merged states have identical futures",
                 "sequences beyond ~1000 elements and > 10^6-element select samples are out of reach"],
)

NOT_APPLICABLE = {}
HOOK_COMMITS = []
