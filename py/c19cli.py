"""C19 (CLI half) — malformed input never crashes the CLI.

Every input of the bounded spaces (the generator is the Rust explorer `c19`, dumped
with --dump-spec / --dump-nest, so both halves enumerate the same alphabets and seeds)
  * token strings over the JSON / YAML / DSV token alphabets,
  * every truncation, single-byte substitution and deletion of the small valid documents,
  * the nesting families of depth {128,129,255,256,257,384,385,5000,100000},
  * jq program token strings (jq -n / yq -n) and program nesting families (-f file)
is piped through the real clap parser and run_jq / run_yq:
  JSON : jq . | jq -c .a | jq --validate . | yq -p json .
  YAML : yq . | yq -o json . | yq --validate . | yq .a | yq ..
  DSV  : jq --input-dsv , .
Oracle: an exit status with a value or a reported error. A caught panic ('P', exit
101), an abort (134), a signal or a dead batch worker is a violation candidate; it is
re-run as a real process and classified from that process's stderr (panic location ->
source file + enclosing function + message class; allocation failure -> innermost
succinctly frame; stack overflow -> seam + family). Watchdog hits are "undecided".

This module also hosts what c30cli.py shares: the limited batch runner (address-space
limit + per-job CPU watchdog, which batch.runbatch cannot provide) and the crash
classifier.
"""
import json, os, re, subprocess, threading, time, itertools
from concurrent.futures import ThreadPoolExecutor
import batch, common

AS_KB = 1536 * 1024              # address-space limit of batch workers and isolated re-runs (KiB)
JOB_CPU_S = 5.0                  # per-job CPU watchdog
IMPOSSIBLE_ALLOC = 1 << 46

# ---------------------------------------------------------------- spec from the Rust generator --


_built = {}


def rust_dump(binname, tier, *args):
    if binname not in _built:       # one (no-op) cargo invocation per binary and run, not per dump
        _built[binname] = common.build_bin(binname)
    path = _built[binname]
    p = subprocess.run([path, "--tier", tier] + list(args), stdout=subprocess.PIPE, stderr=subprocess.PIPE, env=common.base_env())
    if p.returncode != 0:
        raise common.Machinery(f"{binname} {' '.join(args)} failed: {p.stderr[-300:]!r}")
    return p.stdout


def load_spec(tier):
    d = json.loads(rust_dump("c19", tier, "--dump-spec"))
    for k in ("JT", "YT", "DT", "PT", "json_seeds", "yaml_seeds", "dsv_seeds"):
        d[k] = [bytes.fromhex(x) for x in d[k]]
    d["mutation_bytes_cli"] = bytes(d["mutation_bytes_cli"])
    return d


def load_nest(tier, which, max_bytes=None):
    out = []
    extra = ["--max-bytes", str(max_bytes)] if max_bytes else []
    for l in rust_dump("c19", tier, "--dump-nest", which, *extra).decode().split("\n"):
        if l:
            name, depth, hx = l.split("\t")
            out.append((name, int(depth), bytes.fromhex(hx)))
    return out


def soups(tokens, maxlen, sep=b""):
    for n in range(0, maxlen + 1):
        for c in itertools.product(tokens, repeat=n):
            yield sep.join(c)


def variants(seed, mbytes):
    """the seed, every proper prefix, every (position, byte) substitution, every single-byte deletion"""
    yield seed, "seed"
    for k in range(len(seed)):
        yield seed[:k], "truncate"
    for i in range(len(seed)):
        for b in mbytes:
            yield seed[:i] + bytes([b]) + seed[i + 1:], "substitute"
    for i in range(len(seed)):
        yield seed[:i] + seed[i + 1:], "delete"


# ------------------------------------------------------------------------ limited batch runner --

def _wrap(cmd):
    return ["/bin/sh", "-c", 'ulimit -v %d; ulimit -c 0; exec "$0" "$@"' % AS_KB] + cmd


def _cpu_seconds(pid):
    try:
        with open(f"/proc/{pid}/stat") as f:
            s = f.read()
        f2 = s[s.rindex(")") + 2:].split()
        return (int(f2[11]) + int(f2[12])) / 100.0
    except Exception:  # noqa
        return 0.0


def spawn_limited(argv, stdin=b"", timeout=40, backtrace=False):
    """One real process under the address-space limit. (code, stdout, stderr); 'T' on timeout."""
    e = batch.env()
    if backtrace:
        e["RUST_BACKTRACE"] = "1"
    os.makedirs(batch.SCRATCH, exist_ok=True)
    of = os.path.join(batch.SCRATCH, f"iso-{os.getpid()}-{threading.get_ident()}.out")
    argv = list(argv)
    tmp = None
    if any("\0" in a for a in argv):
        # a NUL cannot travel in a real argv (only the batch hook can carry it): pass the program text through -f
        if "--" in argv and argv.index("--") == len(argv) - 2:
            tmp = of + ".jq"
            with open(tmp, "w") as f:
                f.write(argv[-1])
            argv = argv[:-2] + ["-f" if argv[0] == "jq" else "--from-file", tmp]
        else:
            return ("UNSPAWNABLE", b"", b"")
    try:
        with open(of, "wb") as o:
            p = subprocess.run(_wrap([batch.cli()] + list(argv)), input=stdin, stdout=o, stderr=subprocess.PIPE, env=e, timeout=timeout)
    except subprocess.TimeoutExpired:
        for fn in (tmp, of):
            if fn and os.path.exists(fn):
                os.remove(fn)
        return ("T", b"", b"")
    with open(of, "rb") as o:
        out = o.read(1 << 20)
    os.remove(of)
    if tmp:
        os.remove(tmp)
    code = str(p.returncode) if p.returncode >= 0 else f"S{-p.returncode}"
    return (code, out, p.stderr[-20000:])


def _read_results(rf):
    got = []
    if os.path.exists(rf):
        with open(rf) as f:
            for l in f.read().split("\n"):
                if not l:
                    continue
                parts = l.split("\t")
                if len(parts) != 3:
                    break
                try:
                    got.append((parts[0], bytes.fromhex(parts[1]), bytes.fromhex(parts[2])))
                except ValueError:
                    break
    return got


def _run_chunk(i, chunk, tag, cpu_s):
    if not chunk:
        return []
    os.makedirs(batch.SCRATCH, exist_ok=True)
    jf = os.path.join(batch.SCRATCH, f"ljobs-{os.getpid()}-{tag}-{i}.txt")
    rf = os.path.join(batch.SCRATCH, f"lres-{os.getpid()}-{tag}-{i}.txt")
    out = []
    start = 0
    while start < len(chunk):
        with open(jf, "w") as f:
            for argv, inp in chunk[start:]:
                f.write("\x1f".join(argv).encode().hex() + "\t" + inp.hex() + "\n")
        for fn in (rf, rf + ".cur"):
            try:
                os.remove(fn)
            except OSError:
                pass
        p = subprocess.Popen(_wrap([batch.cli(), "__verif-batch", jf, rf]), env=batch.env(), stdout=subprocess.DEVNULL, stderr=subprocess.PIPE)
        cur, cur_cpu, cur_wall, killed = None, 0.0, time.time(), False
        while p.poll() is None:
            time.sleep(0.05)
            try:
                with open(rf + ".cur") as f:
                    c = f.read(24).strip()
            except OSError:
                c = None
            cpu = _cpu_seconds(p.pid)
            if c != cur:
                cur, cur_cpu, cur_wall = c, cpu, time.time()
            elif c is not None and (cpu - cur_cpu > cpu_s or time.time() - cur_wall > 20 * cpu_s):
                killed = True
                p.kill()
        err = p.stderr.read()
        p.wait()
        got = _read_results(rf)
        out += got
        start += len(got)
        if start < len(chunk):
            if killed:
                out.append(("T", b"", b""))
            else:
                argv, inp = chunk[start]
                r = spawn_limited(argv, inp)
                out.append(("DIED:" + r[0], r[1], r[2]))
            start += 1
        elif p.returncode != 0 and not got:
            raise common.Machinery(f"batch worker failed without results: {err[:300]!r}")
    for fn in (jf, rf, rf + ".cur"):
        try:
            os.remove(fn)
        except OSError:
            pass
    return out


def run_limited(jobs, tag="l", nproc=None, cpu_s=JOB_CPU_S):
    """Like batch.runbatch, but workers run under an address-space limit and a per-job CPU watchdog.
    Result codes: exit status | 'P' (caught panic) | 'DIED:<status>' (killed its worker; re-run alone) |
    'T' (watchdog: undecided)."""
    if not jobs:
        return []
    nproc = nproc or min(common.nproc(), max(1, len(jobs) // 50))
    chunks = [jobs[i::nproc] for i in range(nproc)]
    with ThreadPoolExecutor(nproc) as ex:
        rs = list(ex.map(lambda i: _run_chunk(i, chunks[i], tag, cpu_s), range(nproc)))
    res = [None] * len(jobs)
    for i in range(nproc):
        for k, r in enumerate(rs[i]):
            res[i + k * nproc] = r
    return res


# --------------------------------------------------------------------------- crash classification --

def msg_class(msg):
    """Mirror of crashkit::msg_class (Rust): first clause, digit runs -> N, slug."""
    first = (msg.split("\n") or [""])[0].split(";")[0]
    out = []
    prev_digit = False
    n = 0
    for ch in first:
        if ch == "`":
            continue
        if ch.isascii() and ch.isdigit():
            if not prev_digit:
                out.append("N"); n += 1
            prev_digit = True
            continue
        prev_digit = False
        if (ch.isascii() and ch.isalnum()) or ch in "_:().":
            out.append(ch); n += 1
        elif not (out and out[-1] == "-"):
            out.append("-"); n += 1
        if n >= 72:
            break
    return "".join(out).strip("-")


_FN = re.compile(r"^\s*((pub(\([a-z: ]+\))?|const|unsafe|async|extern|\"C\"|default)\s+)*fn\s+([A-Za-z0-9_]+)")
_fn_cache = {}


def enclosing_fn(path, line):
    key = (path, line)
    if key in _fn_cache:
        return _fn_cache[key]
    name = "unknown-fn"
    try:
        with open(os.path.join(common.REPO, path)) as f:
            lines = f.read().split("\n")
        i = min(line, len(lines))
        while i > 0:
            i -= 1
            if lines[i].lstrip().startswith("//"):
                continue
            m = _FN.match(lines[i])
            if m:
                name = m.group(4)
                break
    except OSError:
        pass
    _fn_cache[key] = name
    return name


def norm_file(path):
    if "/rustc/" in path or "/library/" in path:
        return "std:" + path.rsplit("/library/", 1)[-1], "std"
    if "/registry/" in path:
        t = path.rsplit("/registry/", 1)[-1]
        t = t.split("/", 2)[-1] if t.count("/") >= 2 else t
        return "dep:" + t, "dep"
    i = path.find("/src/")
    if i >= 0 and not path.startswith("src/"):
        return path[i + 1:], "repo"
    return path, "repo"


_PANIC = re.compile(rb"panicked at ([^\n]+?):(\d+):(\d+):\n([^\n]*)")
_FRAME = re.compile(rb"^\s*\d+: <?(succinctly::[^\n]+)$", re.M)


def first_repo_frame(stderr):
    m = _FRAME.search(stderr)
    if not m:
        return None
    s = m.group(1).decode("utf8", "replace").strip()
    s = re.sub(r"::h[0-9a-f]{16}$", "", s)
    s = s.replace("succinctly::", "").replace("{{closure}}", "closure").replace("<", "").replace(">", "")
    return s[:90]


_frame_cache = {}


def probe_frame(key, job):
    """Re-run once with RUST_BACKTRACE=1 (seconds: cached per root-cause candidate) for the innermost repo frame."""
    if key not in _frame_cache:
        r = spawn_limited(job[0], job[1], backtrace=True)
        _frame_cache[key] = first_repo_frame(r[2]) or "unknown-frame"
    return _frame_cache[key]


def classify(job, spawned, seam, family, key):
    """spawned = (code, stdout, stderr) of the real process. Returns ('ok', None) | ('undecided', why) |
    ('violation', signature)."""
    code, _out, err = spawned
    if code == "T":
        return "undecided", "timeout"
    if code == "UNSPAWNABLE":
        return "undecided", "argv cannot be passed to a real process"
    if not batch.crashed(code):
        return "ok", None
    m = _PANIC.search(err)
    if m:
        path = m.group(1).decode("utf8", "replace")
        line = int(m.group(2))
        msg = m.group(4).decode("utf8", "replace")
        nf, origin = norm_file(path)
        if msg.startswith("capacity overflow") or msg.startswith("memory allocation of"):
            return "violation", "huge-alloc@" + probe_frame(key, job)
        if msg.startswith("nesting depth exceeds limit of"):
            return "violation", "panic:depth-guard:nesting-depth-exceeds-limit-of-N"
        if origin == "repo":
            return "violation", f"panic:{nf}:{enclosing_fn(nf, line)}:{msg_class(msg)}"
        return "violation", f"panic@{probe_frame(key, job)}:{msg_class(msg)}"
    m = re.search(rb"memory allocation of (\d+) bytes failed", err)
    if m:
        n = int(m.group(1))
        if n < IMPOSSIBLE_ALLOC:
            return "undecided", f"alloc-under-rlimit:{n}"
        return "violation", "huge-alloc@" + probe_frame(key, job)
    if b"has overflowed its stack" in err or b"stack overflow" in err:
        return "violation", f"stack-overflow:{seam}" + (f":{family}" if family else "")
    return "violation", f"died:{code}:{seam}" + (f":{family}" if family else "")


def seam_of(argv):
    """CLI seam of a job: the argv without a trailing program / file operand."""
    a = list(argv)
    if "--" in a:
        a = a[:a.index("--")]
    if "-f" in a:
        a = a[:a.index("-f")]
    if "--from-file" in a:
        a = a[:a.index("--from-file")]
    return "cli:" + " ".join(a)


class Checker:
    """Runs job lists through the limited runner and folds the crash oracle into a batch.Report."""

    def __init__(self, rep):
        self.rep = rep
        self.undecided = 0
        self.confirmed = 0
        self.selftested = 0
        self.codes = {}

    def run(self, space, jobs, metas, note, selftest_n=16, exhaustive=True):
        """metas[i] = dict(label=..., family=..., program=... (optional, for the example))"""
        rep = self.rep
        rep.space(space, exhaustive, note)
        if not jobs:
            return
        _t = time.time()
        res = run_limited(jobs, tag=re.sub(r"[^a-z0-9]", "", space))
        if os.environ.get("VERIF_TIMING"):
            print(f"[timing] {space}: {len(jobs)} jobs in {time.time() - _t:.1f}s", flush=True)
        # equivalence self-test against real processes (watchdog results cannot be compared)
        idx = [i for i, r in enumerate(res) if r[0] != "T" and len(jobs[i][1]) < 200000 and not any("\0" in a for a in jobs[i][0])]
        if idx and selftest_n:
            self.selftested += batch.selftest([jobs[i] for i in idx], [res[i] for i in idx], n=selftest_n)
        cands = []
        for i, (job, r, meta) in enumerate(zip(jobs, res, metas)):
            rep.input(); rep.trans(1)
            hk = r[0] if not r[0].startswith("DIED") else "DIED"
            self.codes[hk] = self.codes.get(hk, 0) + 1
            rep.seen((job[0][0], tuple(job[0][1:3]), r[0], len(r[1]) > 0, r[2][:40]))
            if r[0] == "T":
                self.undecided += 1
                rep.notes.append(f"undecided (watchdog {JOB_CPU_S}s cpu): {space} {' '.join(job[0])[:120]} label={meta.get('label', '')}")
            elif batch.crashed(r[0]):
                cands.append(i)
        # every candidate is re-run as a real process (confirmation + the stderr that names the cause);
        # a few at a time: process creation is the scarce resource here
        with ThreadPoolExecutor(6) as ex:
            spawned = list(ex.map(lambda i: spawn_limited(jobs[i][0], jobs[i][1]), cands))
        if os.environ.get("VERIF_TIMING"):
            print(f"[timing] {space}: selftest + {len(cands)} confirmations done at +{time.time() - _t:.1f}s", flush=True)
        for i, sp in zip(cands, spawned):
            job, r, meta = jobs[i], res[i], metas[i]
            self.confirmed += 1
            seam = meta.get("seam") or seam_of(job[0])
            family = meta.get("family", "")
            if space.endswith("/nesting") and not meta.get("seam"):
                # a stack overflow on a nested *document* cannot be attributed to an API from outside the process:
                # one signature per tool (the library half names the API stage)
                seam, family = f"cli:{job[0][0]}:nested-document", ""
            key = seam + "|" + (meta.get("key") or meta.get("label") or "")
            verdict, sig = classify(job, sp, seam, family, key)
            if verdict == "violation" and meta.get("parser_only") and not (":src/jq/parser.rs:" in sig or "@jq::parser" in sig or sig.startswith("stack-overflow") or sig.startswith("died:")):
                # C19's clause about programs is about the *parser*; `jq -n PROGRAM` also evaluates. A crash raised by the
                # evaluator is C30's subject (same program space there) and is only counted here.
                self.outside = getattr(self, "outside", {})
                self.outside[sig] = self.outside.get(sig, 0) + 1
                continue
            if verdict == "ok":
                rep.notes.append(f"batch-only crash not reproduced by a real process: {space} {' '.join(job[0])[:100]} batch={r[0]} real={sp[0]}")
                rep.fail(f"batch-only:{seam}", len(job[1]), batch.job_example(job, r, space=space, **meta))
            elif verdict == "undecided":
                self.undecided += 1
                rep.notes.append(f"undecided ({sig}): {space} {' '.join(job[0])[:120]}")
            else:
                ex_ = batch.job_example(job if len(job[1]) <= 8192 else (job[0], job[1][:8192]), sp, space=space, **meta)
                if len(job[1]) > 8192:
                    ex_["stdin_truncated_from"] = len(job[1])
                rep.fail(sig, len(job[1]) + len(" ".join(job[0])), ex_)

    def finish(self):
        rep = self.rep
        rep.traces_validated = self.selftested + self.confirmed
        rep.extra["batch_jobs_confirmed_by_real_spawns"] = self.selftested + self.confirmed
        rep.extra["undecided"] = self.undecided
        if getattr(self, "outside", None):
            rep.extra["evaluator_crashes_outside_this_property"] = self.outside
        rep.extra["exit_status_histogram"] = dict(sorted(self.codes.items()))
        rep.extra["limits"] = {"address_space_kib": AS_KB, "job_cpu_watchdog_s": JOB_CPU_S}


# --------------------------------------------------------------------------------- the check --

J_ARGV = (["jq", "."], ["jq", "-c", ".a"], ["jq", "--validate", "."], ["yq", "-p", "json", "."])
Y_ARGV = (["yq", "."], ["yq", "-o", "json", "."], ["yq", "--validate", "."], ["yq", ".a"], ["yq", ".."])
D_ARGV = (["jq", "--input-dsv", ",", "."],)


def program_file(text, name):
    os.makedirs(batch.SCRATCH, exist_ok=True)
    p = os.path.join(batch.SCRATCH, f"prog-{os.getpid()}-{name}.jq")
    with open(p, "w") as f:
        f.write(text)
    return p


def cross(inputs, argvs):
    jobs, metas = [], []
    for inp, meta in inputs:
        for a in argvs:
            jobs.append((list(a), inp)); metas.append(meta)
    return jobs, metas


def replay(ctx, rep):
    case = json.load(open(ctx["replay"]))["case"]
    rep.space("replay")
    job = (case["argv"], bytes.fromhex(case.get("stdin_hex", "")))
    space = case.get("space", "")
    if space.endswith("/nesting") and case.get("label"):
        # large nesting inputs are recorded truncated / as a scratch file: regenerate from the label
        which = "prog" if "/program/" in space else space.split("/")[1]
        hit = [b for n, d, b in load_nest(ctx["tier"], which) if f"{n}/{d}" == case["label"]]
        if hit and which == "prog":
            path = job[0][-1]
            os.makedirs(os.path.dirname(path), exist_ok=True)
            with open(path, "w") as f:
                f.write(hit[0].decode())
        elif hit:
            job = (job[0], hit[0])
    seam = case.get("seam") or seam_of(job[0])
    if space.endswith("/nesting") and not case.get("seam"):
        seam, case = f"cli:{job[0][0]}:nested-document", dict(case, family="")
    sigs = []
    for _ in range(2):
        sp = spawn_limited(job[0], job[1])
        verdict, sig = classify(job, sp, seam, case.get("family", ""), seam + "|" + (case.get("key") or case.get("label") or ""))
        sigs.append((verdict, sig))
    if sigs[0] != sigs[1]:
        raise common.Machinery(f"replay not deterministic: {sigs}")
    rep.input(); rep.trans(2)
    if sigs[0][0] == "violation":
        rep.fail(sigs[0][1], 0, dict(case, got={"status": sp[0], "stderr": sp[2].decode("utf8", "replace")[:300]}))
    return rep.to_json()


def run(ctx):
    tier = ctx["tier"]
    quick = tier == "quick"
    rep = batch.Report()
    if ctx["replay"]:
        return replay(ctx, rep)
    t0 = time.time()
    S = load_spec(tier)
    seeds = load_spec("quick")          # the CLI half mutates the quick seed set in both tiers (the library half takes the larger one)
    ck = Checker(rep)
    jl, yl, dl, pl = (3, 3, 6, 2)   # one more JSON / YAML / DSV token: thorough, in budgeted slices below; programs: C30 runs <=3 through both tools
    mb = S["mutation_bytes_cli"]

    def tok(alpha, n, lo=0):
        return [(s, {}) for s in soups(alpha, n) ] if lo == 0 else [(b"".join(c), {}) for k in range(lo, n + 1) for c in itertools.product(alpha, repeat=k)]

    jobs, metas = cross(tok(S["JT"], jl), J_ARGV)
    ck.run("cli/json/tokens", jobs, metas, f"all strings of 0..={jl} tokens over the 22-token JSON alphabet x {len(J_ARGV)} command lines")
    jobs, metas = cross(tok(S["YT"], yl), Y_ARGV)
    ck.run("cli/yaml/tokens", jobs, metas, f"all strings of 0..={yl} tokens over the 30-token YAML alphabet x {len(Y_ARGV)} command lines")
    jobs, metas = cross(tok(S["DT"], dl), D_ARGV)
    ck.run("cli/dsv/tokens", jobs, metas, f"all strings of 0..={dl} symbols over the 5 DSV symbols")

    def muts(sd):
        seen, out = set(), []
        for x in sd:
            for v, kind in variants(x, mb):
                if v not in seen:
                    seen.add(v); out.append((v, {"label": kind}))
        return out

    for name, sd, argvs in (("json", seeds["json_seeds"], J_ARGV), ("yaml", seeds["yaml_seeds"], Y_ARGV), ("dsv", seeds["dsv_seeds"], D_ARGV)):
        ins = muts(sd)
        jobs, metas = cross(ins, argvs)
        ck.run(f"cli/{name}/mutations", jobs, metas,
               f"{len(sd)} seed documents: the seed, every prefix, every position x {len(mb)} bytes substituted, every single-byte deletion = {len(ins)} distinct inputs x {len(argvs)} command lines")

    # nesting families (documents above 2 MB — the quadratic block-indentation shapes at depth 5000 — only in thorough)
    cap = 2_000_000 if quick else 30_000_000
    for name, which, argvs in (("json", "json", J_ARGV), ("yaml", "yaml", Y_ARGV)):
        fam = [(b, {"label": f"{n}/{d}", "family": n}) for n, d, b in load_nest(tier, which, cap)]
        jobs, metas = cross(fam, argvs)
        ck.run(f"cli/{name}/nesting", jobs, metas, f"every nesting shape x depth {S['depths']} ({len(fam)} documents up to {cap} bytes) x {len(argvs)} command lines", selftest_n=6)

    # the program parser through the CLI: token strings with -n (evaluation included; C30 owns the deeper program space)
    PT = [t.decode() for t in S["PT"]]
    progs = [" ".join(c) for n in range(0, pl + 1) for c in itertools.product(PT, repeat=n)]
    jobs = [(["jq", "-n", "--", p], b"") for p in progs] + [(["yq", "-n", "--", p], b"") for p in progs]
    ck.run("cli/program/tokens", jobs, [{"label": "tokens", "parser_only": True}] * len(jobs), f"all strings of 0..={pl} tokens (joined by a space) over the 62-token program alphabet x (jq -n, yq -n)")
    files = []
    jobs, metas = [], []
    for n, d, b in load_nest(tier, "prog"):
        path = program_file(b.decode(), f"{n}-{d}")
        files.append(path)
        for tool in ("jq", "yq"):
            jobs.append(([tool, "-n", "-f" if tool == "jq" else "--from-file", path], b"")); metas.append({"label": f"{n}/{d}", "family": n, "seam": "cli-program"})
    ck.run("cli/program/nesting", jobs, metas, f"every program nesting shape x depth {S['depths']} through -f / --from-file x (jq, yq)", selftest_n=6)
    for p in files:
        try:
            os.remove(p)
        except OSError:
            pass

    if not quick:
        # one token more, in slices by first token under a wall budget: every input of these slices is also run by the
        # library half, so hitting the budget on a loaded machine narrows only the CLI confirmation
        budget_s = 300

        def slices(space, alpha, n, argvs, what):
            done = 0
            rep.space(space, True, "")
            for first in alpha:
                if time.time() - t0 > budget_s:
                    break
                ins = [(first + b"".join(c), {}) for c in itertools.product(alpha, repeat=n - 1)]
                jobs, metas = cross(ins, argvs)
                ck.run(space, jobs, metas, "", selftest_n=2)
                done += 1
            complete = done == len(alpha)
            rep.subspaces[space]["exhaustive"] = complete
            rep.subspaces[space]["note"] = f"all strings of exactly {n} {what} x {len(argvs)} command lines, in {len(alpha)} slices by first token: {done} slices run" + ("" if complete else f" (wall budget of {budget_s}s reached)")
            if not complete:
                rep.caps.append(f"{space}: wall budget reached after {done} of {len(alpha)} slices (the library half covers all of them)")

        for n in (7, 8):
            slices(f"cli/dsv/tokens-{n}", S["DT"], n, D_ARGV, "DSV symbols")
        slices("cli/json/tokens-4", S["JT"], 4, J_ARGV, "JSON tokens")
        slices("cli/yaml/tokens-4", S["YT"], 4, Y_ARGV, "YAML tokens")
    ck.finish()
    rep.sample({"space": "cli/yaml/tokens", "argv": ["yq", "-o", "json", "."], "stdin": "&a: *a\n- ", "oracle": "exit status with a value or a reported error; never 101 / 134 / signal"})
    rep.sample({"space": "cli/json/mutations", "argv": ["jq", "-c", ".a"], "stdin": "{\"a\":\"\\ud83d\\ude0", "variant": "truncate"})
    return rep.to_json()
