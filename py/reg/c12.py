SPEC = dict(
    kind="rust",
    bins=rust("c12"),
    design_ref="§3-C12",
    technique="closed-state BFS to fixpoint over the real LineIndex cache (explicit-state, S1) + bounded-exhaustive text enumeration against a naive LF/CR/CRLF line splitter",
    rule="texts: every string over {a, LF, CR} of length <= 8 (quick) / 11 (thorough) plus long-body families (pre . k lines . post, "
         "k around the 16-line forward-walk cap and its multiples, line in {'', x}, terminator LF/CR/CRLF/mixed, pre/post in {'', a, CR, LF CR, CRLF}); "
         "states = distinct concrete values of the `cache` field reached by BFS; a case is distinct+non-trivial when its (text, cache state) pair is new",
    level_text="On every enumerated text every reachable concrete state of the real one-entry lookup cache has every offset of the op alphabet "
               "queried and compared with a naive scan, to a fixpoint: all finite query histories over the alphabet, not histories up to a depth. "
               "line_count / line_start / to_offset are compared for every argument of the stated sets and every in-bounds offset makes the round trip; "
               "the same mapping is checked through JsonIndex and YamlIndex in ascending, descending and zig-zag query order.",
    level_note="Bounded to the enumerated texts and the op alphabet (offsets 0..=len+2 and 2^32-2, 2^32-1, 2^32+4, 2^40, usize::MAX-1, usize::MAX; "
               "an op whose exact column is 2^64 has no representable answer and is skipped). Oracle: own forward line splitter. "
               "State key: full Debug rendering of the cache field, the only mutable field of LineIndex.",
    assumptions=["cache is the only mutable field of LineIndex (checked by reading src/text/lines.rs); starts/text_len are immutable after build",
                 "texts longer than ~100 bytes / more than 50 lines and the 4 GiB ceiling are out of reach",
                 "to_line_column(usize::MAX) on a text whose last line starts at 0 is not judged: the exact column (2^64) is not representable"],
)
