//! C17 — YAML position tables return the recorded positions under any access order (S2 + S3 + S1).
//!
//! Seam: the public `YamlIndex::from_parts(.., bp_to_text, bp_to_text_end, ..)` then
//! `text_pos_by_open_idx`, `text_end_pos_by_open_idx`, `bp_to_text_pos`, `bp_to_text_end_pos`;
//! and real documents through `YamlIndex::build` whose last node starts at `text_len`.
//!
//! S1: breadth-first search over the CONCRETE states of the two `Cell<SequentialCursor>`s
//! (state key = the full `Debug` rendering of both cells — every field), edges = one real
//! lookup on either table, run to a fixpoint: every reachable state has had every lookup of
//! the alphabet applied and compared with the recorded vectors. That decides all finite
//! lookup orders over the alphabet, not orders up to a depth.
//!
//! Oracle (the statement, literally): start(i) == starts[i]; end(i) == ends[i] when it is
//! non-zero; otherwise `None` or the non-zero end recorded for an EARLIER node — and, on
//! parser-consistent inputs (every recorded end lies at or before every later start; the
//! contract of `yaml::end_positions`), at or before starts[i]. Out of range -> None.
use engine::*;
use serde_json::{json, Value};
use std::collections::{HashMap, VecDeque};
use succinctly::yaml::YamlIndex;

type Ix = YamlIndex<Vec<u64>>;

#[derive(Clone, Copy, Debug, PartialEq, Eq, Hash)]
enum Op {
    Start(usize),
    End(usize),
}

impl Op {
    fn to_json(self) -> Value {
        match self {
            Op::Start(i) => json!(["start", i]),
            Op::End(i) => json!(["end", i]),
        }
    }
    fn from_json(v: &Value) -> Op {
        let i = v[1].as_u64().unwrap() as usize;
        if v[0] == "start" {
            Op::Start(i)
        } else {
            Op::End(i)
        }
    }
}

#[derive(Clone, Debug)]
struct Input {
    fam: &'static str,
    l: usize,
    starts: Vec<u32>,
    ends: Vec<u32>,
}

fn build(inp: &Input) -> Ix {
    let n = inp.starts.len();
    let mut bp = vec![0u64; (2 * n).div_ceil(64).max(1)];
    for i in 0..n {
        bp[i / 64] |= 1 << (i % 64);
    }
    YamlIndex::from_parts(vec![0u64; inp.l.div_ceil(64).max(1)], inp.l, bp, 2 * n, vec![0u64], 0, inp.starts.clone(), inp.ends.clone(), vec![0u64; (2 * n).div_ceil(64).max(1)], Default::default(), Default::default(), Default::default())
}

/// State key of the S1 search: a 128-bit digest of the *complete* `Debug` rendering of the
/// index. Everything immutable is identical for all states of one search, so the digest
/// distinguishes exactly the mutable parts (today: the two `Cell<SequentialCursor>`s) —
/// whatever they are called and wherever they live. No layout assumption is made, so a
/// refactored or additional cache cannot turn into a false alarm or a too-coarse key.
fn state_key(ix: &Ix) -> String {
    let d = format!("{ix:?}");
    let a = h64(&d);
    let b = h64(&(0x9e37_79b9_7f4a_7c15u64, &d, d.len()));
    format!("{a:016x}{b:016x}")
}

fn variant(ix: &Ix) -> (&'static str, &'static str) {
    let d = format!("{ix:?}");
    (if d.contains("open_positions: Compact(") { "compact" } else { "dense" }, if d.contains("bp_to_text_end: Compact(") { "compact" } else { "dense" })
}

/// every recorded (non-zero) end lies at or before every later start
fn consistent(inp: &Input) -> bool {
    let n = inp.starts.len();
    for i in 0..n {
        for j in 0..i {
            if inp.ends[j] > 0 && inp.ends[j] > inp.starts[i] {
                return false;
            }
        }
    }
    true
}

/// Judge one answer. Returns Some((signature-stem, detail)) on disagreement.
fn judge(inp: &Input, cons: bool, op: Op, got: Option<usize>) -> Option<String> {
    let n = inp.starts.len();
    match op {
        Op::Start(i) => {
            let exp = inp.starts.get(i).map(|&v| v as usize);
            if got == exp {
                return None;
            }
            Some(match (exp, got) {
                (Some(e), None) if e == inp.l && inp.l % 64 == 0 => "start:lost:pos==text_len:text_len%64==0".into(),
                (Some(e), None) if e == inp.l => "start:lost:pos==text_len".into(),
                (Some(_), None) => "start:lost".into(),
                (None, Some(_)) => "start:spurious-out-of-range".into(),
                (Some(e), Some(g)) if inp.l % 64 == 0 && inp.starts.iter().any(|&s| s as usize == inp.l) && e != g => "start:wrong:input-has-pos==text_len:text_len%64==0".into(),
                _ => "start:wrong".into(),
            })
        }
        Op::End(i) => {
            if i >= n {
                return if got.is_none() { None } else { Some("end:spurious-out-of-range".into()) };
            }
            let own = inp.ends[i] as usize;
            if own > 0 {
                return if got == Some(own) {
                    None
                } else if got.is_none() {
                    Some("end:own-lost".into())
                } else {
                    Some("end:own-wrong".into())
                };
            }
            match got {
                None => None,
                Some(x) => {
                    let earlier = inp.ends[..i].iter().any(|&e| e > 0 && e as usize == x);
                    if !earlier {
                        Some("end:inherited-is-no-earlier-node's-end".into())
                    } else if cons && x > inp.starts[i] as usize {
                        Some("end:inherited-after-own-start:consistent-input".into())
                    } else {
                        None
                    }
                }
            }
        }
    }
}

fn apply(ix: &Ix, op: Op) -> Option<usize> {
    match op {
        Op::Start(i) => ix.text_pos_by_open_idx(i),
        Op::End(i) => ix.text_end_pos_by_open_idx(i),
    }
}

fn index_alphabet(n: usize) -> Vec<usize> {
    if n <= 8 {
        (0..n + 2).collect()
    } else {
        let mut v: Vec<usize> = gen::boundaries(&[0, 64, 128, 256, 512, 768, 1024, n / 2, n], n + 1);
        v.push(n + 1);
        v.sort_unstable();
        v.dedup();
        v
    }
}

fn input_json(inp: &Input) -> Value {
    json!({"family": inp.fam, "text_len": inp.l, "starts": inp.starts, "ends": inp.ends})
}

/// S1 search. `split`: explore the two tables one after the other (each with the other's
/// cell left in its initial state) instead of their product — used for the scale family,
/// where the product would cost 10^5 transitions per input; the lookups of one table never
/// touch the other's cell (the product search on the small family exercises exactly that).
fn bfs(inp: &Input, split: bool, rep: &mut Report) {
    let n = inp.starts.len();
    let cons = consistent(inp);
    let ix0 = build(inp);
    let (vs, ve) = variant(&ix0);
    let idxs = index_alphabet(n);
    let all_ops: Vec<Op> = idxs.iter().map(|&i| Op::Start(i)).chain(idxs.iter().map(|&i| Op::End(i))).collect();
    // answers in the pristine state (to tell a static wrong answer from a history-dependent one)
    let fresh: HashMap<Op, Option<usize>> = all_ops.iter().map(|&op| (op, apply(&ix0.clone(), op))).collect();
    // bp-addressed entry points agree with the open-index ones (rank1 of 1^n 0^n at i is min(i, n))
    for &i in &idxs {
        rep.evals(2);
        let a = ix0.clone().bp_to_text_pos(i);
        let b = ix0.clone().bp_to_text_end_pos(i);
        let j = i.min(n);
        if a != fresh.get(&Op::Start(j)).copied().unwrap_or_else(|| apply(&ix0.clone(), Op::Start(j))) {
            rep.fail("bp_to_text_pos:differs-from-text_pos_by_open_idx", n, || json!({"kind":"bfs","input":input_json(inp),"split":split,"bp_pos":i}));
        }
        if b != fresh.get(&Op::End(j)).copied().unwrap_or_else(|| apply(&ix0.clone(), Op::End(j))) {
            rep.fail("bp_to_text_end_pos:differs-from-text_end_pos_by_open_idx", n, || json!({"kind":"bfs","input":input_json(inp),"split":split,"bp_pos":i}));
        }
    }
    let passes: Vec<Vec<Op>> = if split { vec![all_ops.iter().copied().filter(|o| matches!(o, Op::Start(_))).collect(), all_ops.iter().copied().filter(|o| matches!(o, Op::End(_))).collect()] } else { vec![all_ops.clone()] };
    for ops in passes {
        let mut ids: HashMap<String, usize> = HashMap::new();
        let mut parent: Vec<(usize, Option<Op>)> = Vec::new();
        let mut q: VecDeque<(usize, Ix)> = VecDeque::new();
        ids.insert(state_key(&ix0), 0);
        parent.push((0, None));
        q.push_back((0, ix0.clone()));
        let path_of = |parent: &Vec<(usize, Option<Op>)>, mut id: usize, last: Op| -> Vec<Value> {
            let mut p = vec![last.to_json()];
            while let (pid, Some(op)) = parent[id] {
                p.push(op.to_json());
                id = pid;
            }
            p.reverse();
            p
        };
        while let Some((id, ix)) = q.pop_front() {
            rep.state();
            for &op in &ops {
                rep.trans(1);
                let ix2 = ix.clone();
                let got = apply(&ix2, op);
                if let Some(stem) = judge(inp, cons, op, got) {
                    let hist = if fresh[&op] == got { "static" } else { "history-dependent" };
                    let tv = if matches!(op, Op::Start(_)) { vs } else { ve };
                    let sig = format!("{stem}:{tv}:{hist}");
                    let ops_path = path_of(&parent, id, op);
                    rep.fail(&sig, n * 1000 + ops_path.len(), || json!({"kind":"history","input":input_json(inp),"ops":ops_path,"got":format!("{got:?}"),"fresh_answer":format!("{:?}", fresh[&op])}));
                    continue; // do not explore beyond a wrong answer
                }
                rep.distinct(&(inp.l, &inp.starts, &inp.ends, op, got));
                let k = state_key(&ix2);
                if !ids.contains_key(&k) {
                    let nid = parent.len();
                    ids.insert(k, nid);
                    parent.push((id, Some(op)));
                    q.push_back((nid, ix2));
                }
            }
        }
    }
}

fn replay_history(inp: &Input, ops: &[Op], rep: &mut Report) {
    let cons = consistent(inp);
    let ix = build(inp);
    let (vs, ve) = variant(&ix);
    for (step, &op) in ops.iter().enumerate() {
        rep.trans(1);
        let fresh = apply(&build(inp), op);
        let got = apply(&ix, op);
        if let Some(stem) = judge(inp, cons, op, got) {
            let hist = if fresh == got { "static" } else { "history-dependent" };
            let tv = if matches!(op, Op::Start(_)) { vs } else { ve };
            rep.fail(&format!("{stem}:{tv}:{hist}"), step, || json!({"kind":"history","input":input_json(inp),"failed_at_step":step,"got":format!("{got:?}")}));
            return;
        }
    }
}

fn ends_kinds(starts: &[u32], l: usize) -> Vec<(&'static str, Vec<u32>)> {
    let n = starts.len();
    let lu = l as u32;
    let mut v: Vec<(&'static str, Vec<u32>)> = vec![
        ("zero", vec![0; n]),
        ("start+1", starts.iter().map(|&s| (s + 1).min(lu)).collect()),
        ("alt-zero/start+2", starts.iter().enumerate().map(|(i, &s)| if i % 2 == 0 { 0 } else { (s + 2).min(lu) }).collect()),
        ("alt-start+1/zero", starts.iter().enumerate().map(|(i, &s)| if i % 2 == 1 { 0 } else { (s + 1).min(lu) }).collect()),
        ("descending", (0..n).map(|i| lu.saturating_sub(i as u32).max(1)).collect()),
        ("all-text_len", vec![lu.max(1); n]),
    ];
    // the empty scalar at a position: end == start (non-zero starts only)
    v.push(("end==start", starts.iter().map(|&s| s).collect()));
    v
}

fn small_inputs(ctx: &Ctx) -> Vec<Input> {
    let mut out = Vec::new();
    let ls: &[usize] = if ctx.quick() { &[66, 128, 130] } else { &[64, 66, 128, 130, 192] };
    let maxlen = ctx.pick(4, 5);
    for &l in ls {
        let mut al: Vec<u32> = vec![0, 1, 2, 63, 64, 65, (l - 1) as u32, l as u32];
        al.retain(|&p| p as usize <= l); // a position beyond the text length is not a valid input
        al.sort_unstable();
        al.dedup();
        for starts in gen::sequences(&al, maxlen) {
            for (name, ends) in ends_kinds(&starts, l) {
                if ctx.quick() && matches!(name, "alt-start+1/zero" | "all-text_len") {
                    continue;
                }
                out.push(Input { fam: "small", l, starts: starts.clone(), ends });
            }
        }
    }
    // de-duplicate identical (l, starts, ends)
    let mut seen = std::collections::HashSet::new();
    out.retain(|i| seen.insert((i.l, i.starts.clone(), i.ends.clone())));
    out
}

fn scale_inputs(ctx: &Ctx) -> Vec<Input> {
    let mut out = Vec::new();
    let counts: &[usize] = if ctx.quick() { &[255, 256, 257, 300] } else { &[255, 256, 257, 258, 300, 511, 512, 513, 600, 1025] };
    let gaps: &[usize] = if ctx.quick() { &[1, 3, 65] } else { &[1, 2, 3, 64, 65, 130] };
    let runs: &[usize] = if ctx.quick() { &[1, 2, 5] } else { &[1, 2, 3, 4, 5] };
    for &distinct in counts {
        for &g in gaps {
            for off in [0usize, 3] {
                for &r in runs {
                    let pos: Vec<u32> = (0..distinct).flat_map(|i| std::iter::repeat((i * g + off) as u32).take(r)).collect();
                    let last = *pos.last().unwrap() as usize;
                    // text length: one past the last start; exactly the last start (node at text_len);
                    // padded to the next multiple of 64
                    let mut ls = vec![last + 1, last, (last + 1).div_ceil(64) * 64];
                    ls.sort_unstable();
                    ls.dedup();
                    for l in ls {
                        if l == 0 {
                            continue;
                        }
                        for (name, ends) in ends_kinds(&pos, l) {
                            if matches!(name, "zero" | "start+1" | "alt-zero/start+2") {
                                out.push(Input { fam: "scale", l, starts: pos.clone(), ends });
                            }
                        }
                    }
                }
            }
        }
    }
    out
}

/// Real documents whose last node (an empty mapping value) starts at `text_len`:
/// `#c…c\nk:` and `x: c…c\na:\n  k:` for every total length of a range. Expected start
/// positions are known analytically; ends are checked for history-independence only.
fn real_docs(ctx: &Ctx, rep: &mut Report) {
    rep.space("real-documents");
    let maxlen = ctx.pick(330, 1100);
    for fam in 0..2 {
        for len in 8..=maxlen {
            let (text, exp_last): (Vec<u8>, Vec<usize>) = if fam == 0 {
                let mut t = vec![b'#'];
                while t.len() + 3 < len {
                    t.push(b'c');
                }
                t.extend_from_slice(b"\nk:");
                let l = t.len();
                (t, vec![l - 2, l - 2, l])
            } else {
                let mut t = b"x: ".to_vec();
                while t.len() + 8 < len {
                    t.push(b'c');
                }
                t.extend_from_slice(b"\na:\n  k:");
                let l = t.len();
                (t, vec![l - 2, l - 2, l])
            };
            if text.len() != len {
                continue;
            }
            rep.input();
            let case = || json!({"kind":"realdoc","family":fam,"len":len});
            guard(rep, "PANIC:real-document", len, case, |rep| {
                let ix = match YamlIndex::build(&text) {
                    Ok(ix) => ix,
                    Err(e) => {
                        rep.fail("real-document:does-not-load", len, || json!({"kind":"realdoc","family":fam,"len":len,"error":format!("{e:?}")}));
                        return;
                    }
                };
                let opens: Vec<usize> = (0..ix.bp().len()).filter(|&b| ix.bp().is_open(b)).collect();
                // the last three opens are: the innermost mapping, its key `k`, the empty value at text_len
                let k = opens.len();
                let tail = &opens[k - 3..];
                // S1 over bp-addressed lookups of every open (+ one past)
                let mut ops: Vec<(bool, usize)> = Vec::new();
                for &b in &opens {
                    ops.push((true, b));
                    ops.push((false, b));
                }
                let fresh: Vec<Option<usize>> = ops.iter().map(|&(s, b)| if s { ix.clone().bp_to_text_pos(b) } else { ix.clone().bp_to_text_end_pos(b) }).collect();
                for (j, &b) in tail.iter().enumerate() {
                    rep.evals(1);
                    let got = ix.clone().bp_to_text_pos(b);
                    if got != Some(exp_last[j]) {
                        let sig = if got.is_none() && exp_last[j] == len && len % 64 == 0 { "real-document:start-of-node-at-text_len-lost:text_len%64==0".to_string() } else { format!("real-document:start-wrong:node{j}-of-tail") };
                        rep.fail(&sig, len, || json!({"kind":"realdoc","family":fam,"len":len,"text":show(&text),"bp":b,"got":format!("{got:?}"),"expected":exp_last[j]}));
                    }
                }
                let mut seen: HashMap<String, usize> = HashMap::new();
                let mut q: VecDeque<Ix> = VecDeque::new();
                seen.insert(state_key(&ix), 0);
                q.push_back(ix.clone());
                while let Some(cur) = q.pop_front() {
                    rep.state();
                    for (oi, &(s, b)) in ops.iter().enumerate() {
                        rep.trans(1);
                        let c2 = cur.clone();
                        let got = if s { c2.bp_to_text_pos(b) } else { c2.bp_to_text_end_pos(b) };
                        if got != fresh[oi] {
                            rep.fail(if s { "real-document:start:history-dependent" } else { "real-document:end:history-dependent" }, len, || json!({"kind":"realdoc","family":fam,"len":len,"bp":b,"got":format!("{got:?}"),"fresh":format!("{:?}", fresh[oi])}));
                            continue;
                        }
                        let key = state_key(&c2);
                        if !seen.contains_key(&key) {
                            seen.insert(key, seen.len());
                            q.push_back(c2);
                        }
                    }
                }
            });
        }
    }
    rep.mark_exhaustive("real-documents", "two document families ending in an empty mapping value (`#c..c\\nk:` and `x: c..c\\na:\\n  k:`), every total length of the range; analytic start positions of the last three nodes; S1 over bp_to_text_pos / bp_to_text_end_pos of every node");
}

fn explore(ctx: &Ctx, rep: &mut Report) {
    let small = small_inputs(ctx);
    let scale = scale_inputs(ctx);
    let all: Vec<(bool, &Input)> = small.iter().map(|i| (false, i)).chain(scale.iter().map(|i| (true, i))).collect();
    let r = par_range(ctx, all.len() as u64, 16, |i, rep| {
        let (split, inp) = all[i as usize];
        rep.space(if split { "from_parts/scale" } else { "from_parts/small" });
        rep.input();
        let case = || json!({"kind":"bfs","input":input_json(inp),"split":split});
        guard(rep, if split { "PANIC:from_parts/scale" } else { "PANIC:from_parts/small" }, inp.starts.len(), case, |rep| bfs(inp, split, rep));
        if i % 20011 == 7 {
            rep.sample(|| json!({"input": input_json(inp), "ops": "BFS to fixpoint over text_pos_by_open_idx(i), text_end_pos_by_open_idx(i)", "state_key_example": state_key(&build(inp))}));
        }
    });
    rep.merge(r);
    rep.mark_exhaustive("from_parts/small", "text_len in {66,128,130} (thorough + {64,192}); starts = every sequence of length <= 4 (thorough 5) over {0,1,2,63,64,65,L-1,L} (monotone -> compact, others -> dense); 7 end patterns each (quick: 5); product BFS over both tables, lookups at every index 0..=n+1");
    rep.mark_exhaustive("from_parts/scale", "255..300 (thorough ..1025) distinct positions x gap {1,3,65,..} x offset {0,3} x duplicate runs 1..5 x text_len {last+1, last, padded to 64} x 3 end patterns; per-table BFS over boundary indices of 0/64/128/256/512/768/1024/n/2/n (+-2) and n+1");
    let mut r2 = Report::new();
    real_docs(ctx, &mut r2);
    rep.merge(r2);
    rep.extra.insert("state_key".into(), json!("Debug rendering of every `cursor: Cell { value: SequentialCursor { next_open_idx, adv_cumulative, ib_word_idx, ib_ones_before, last_ib_arg, last_ib_result } }` of the index (key = 128-bit digest of the complete Debug rendering of the index; no layout assumption)"));
}

fn input_from(v: &Value) -> Input {
    Input {
        fam: "replay",
        l: v["text_len"].as_u64().unwrap() as usize,
        starts: v["starts"].as_array().unwrap().iter().map(|x| x.as_u64().unwrap() as u32).collect(),
        ends: v["ends"].as_array().unwrap().iter().map(|x| x.as_u64().unwrap() as u32).collect(),
    }
}

fn replay(case: &Value, rep: &mut Report) {
    rep.space("replay");
    rep.input();
    match case["kind"].as_str().unwrap_or("bfs") {
        "history" => {
            let inp = input_from(&case["input"]);
            let ops: Vec<Op> = case["ops"].as_array().map(|a| a.iter().map(Op::from_json).collect()).unwrap_or_default();
            replay_history(&inp, &ops, rep);
        }
        "realdoc" => {
            // re-run the whole family member (cheap)
            let len = case["len"].as_u64().unwrap() as usize;
            let fam = case["family"].as_u64().unwrap() as usize;
            let mut t: Vec<u8> = if fam == 0 { vec![b'#'] } else { b"x: ".to_vec() };
            let tail: &[u8] = if fam == 0 { b"\nk:" } else { b"\na:\n  k:" };
            while t.len() + tail.len() < len {
                t.push(b'c');
            }
            t.extend_from_slice(tail);
            let ix = YamlIndex::build(&t).unwrap();
            let opens: Vec<usize> = (0..ix.bp().len()).filter(|&b| ix.bp().is_open(b)).collect();
            let b = *opens.last().unwrap();
            let got = ix.bp_to_text_pos(b);
            if got != Some(len) {
                let sig = if got.is_none() && len % 64 == 0 { "real-document:start-of-node-at-text_len-lost:text_len%64==0".to_string() } else { "real-document:start-wrong:node2-of-tail".to_string() };
                rep.fail(&sig, len, || case.clone());
            }
        }
        _ => {
            let inp = input_from(&case["input"]);
            bfs(&inp, case["split"].as_bool().unwrap_or(false), rep);
        }
    }
}

fn main() {
    drive("C17", explore, replay);
}
