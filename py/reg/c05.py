SPEC = dict(
    kind="rust",
    bins=rust("c05"),
    design_ref="§3-C05",
    technique="automaton-product exhaustive enumeration (S4): every string over byte-class alphabets at every chunk alignment and carry-in state, "
              "every engine compared bit-for-bit with an own byte-at-a-time reference DFA (S5 differential with a reference)",
    rule="inputs = (window string, offset p before it, carry-in state of the reference DFA at the window start, total length); windows: all strings of "
         "length <= 3/4/5 over the 27-byte class alphabet and <= 5..8 over two 7-symbol class-representative alphabets; families: quote/backslash "
         "runs 1..70 at offsets 0..65, all 256 byte values at offsets 0..64 in 4 carry-in states, periodic 4 KiB fills, J(3) documents. "
         "states counts placed inputs; distinct_nontrivial counts distinct (family, parameter) cells and maximal-length constant windows only "
         "(every placed input is a distinct byte string by construction)",
    level_text="Every engine that can build a JSON semi-index on this host (PFSM, scalar, SSE2, AVX2, the runtime dispatcher, and the library's "
               "JsonIndex/SimpleJsonIndex constructors) is run on every input of the bounded space and its interest bits, balanced-parentheses bits, "
               "word counts and final state must equal those of an independent 4-state (standard) / 3-state (simple) byte-at-a-time machine. "
               "The enumeration is exhaustive over the stated alphabets, window lengths, offsets relative to the 16/32/64-byte chunk boundaries, "
               "carry-in states and tail lengths (padded-tail path and full-chunk path).",
    level_note="Byte values outside the 27-byte alphabet are covered singly (each of the 256 values at every offset 0..64 in each state), not in "
               "combination. Only x86-64 paths present on the host run (evidence lists them). The reference DFA is the harness's own code, "
               "self-tested on hand-computed bit patterns. JsonIndex::build's BP words are compared only when the reference BP is balanced "
               "(the library derives the BP length as 2 x opens).",
    assumptions=["a chunked engine carries no state across chunks other than the scanner state (so carry-in state x offset covers chunk interactions)",
                 "inputs longer than 4 KiB + the 70 KB family documents are out of reach",
                 "NEON/SVE2 engines are not reachable on this host"],
)
