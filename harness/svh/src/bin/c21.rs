//! C21 — DSV rows and fields follow quote-aware splitting.
//!
//! S2 + S1-style op graph. For every text of the bounded space and every
//! configuration:
//!   1. iteration (`rows()` / `fields()`) == own quote-aware splitter (`dsvref::split`);
//!   2. random access `row(n)` for all n in 0..=rows+2 and usize::MAX, `fields()` of
//!      that row and `get(i)` for all i in 0..=fields+2 and usize::MAX == iteration;
//!   3. the `DsvCursor` operation graph (state = byte position; operations
//!      next_field, next_row, goto_row(n) for all n) is closed by BFS from
//!      position 0 and every edge is compared with a model derived from the
//!      reference marker positions (return value, new position, at_end,
//!      current_field);
//!   4. appending the record separator to a non-empty, quote-balanced text that
//!      does not end with one changes neither rows nor fields (implementation
//!      against itself).
use engine::*;
use serde_json::{json, Value};
use std::collections::VecDeque;
use succinctly::dsv::{Dsv, DsvConfig, DsvCursor};

#[path = "../dsvref.rs"]
mod dsvref;
use dsvref::{scan, split, Cfg, Rows, Scan};

const CFGS: [Cfg; 4] = [
    Cfg { delimiter: b',', quote: b'"', newline: b'\n' },
    Cfg { delimiter: b'\t', quote: b'\'', newline: b'\r' },
    Cfg { delimiter: b';', quote: b'|', newline: 0x1e },
    // the default special bytes rotated into other roles: a default byte hard-coded for any role shows here
    Cfg { delimiter: b'\n', quote: b',', newline: b'"' },
];

fn real_cfg(c: &Cfg) -> DsvConfig {
    DsvConfig { delimiter: c.delimiter, quote_char: c.quote, newline: c.newline }
}

fn rows_json(r: &Rows) -> Value {
    json!(r.iter().map(|row| row.iter().map(|f| show(f)).collect::<Vec<_>>()).collect::<Vec<_>>())
}

fn iterate(d: &Dsv) -> Rows {
    d.rows().map(|r| r.fields().map(|f| f.to_vec()).collect()).collect()
}

/// Does the text end with a record separator that is outside quotes?
fn ends_with_separator(t: &[u8], sc: &Scan) -> bool {
    !t.is_empty() && sc.newlines.last() == Some(&(t.len() - 1))
}

/// Signature of an iteration/oracle disagreement: API + kind + minimal structural feature.
fn classify_iter(t: &[u8], sc: &Scan, got: &Rows, exp: &Rows) -> String {
    if got.len() != exp.len() {
        return if got.len() > exp.len() { "rows:extra-row".into() } else { "rows:missing-row".into() };
    }
    for (r, (a, b)) in got.iter().zip(exp.iter()).enumerate() {
        if a == b {
            continue;
        }
        let last_row = r + 1 == exp.len();
        if a.len() + 1 == b.len() && b.last().map_or(false, |x| x.is_empty()) && a[..] == b[..a.len()] {
            return if last_row && !ends_with_separator(t, sc) {
                "fields:missing-trailing-empty-at-eof".into()
            } else {
                "fields:missing-trailing-empty-before-separator".into()
            };
        }
        return if a.len() < b.len() {
            "fields:missing-field".into()
        } else if a.len() > b.len() {
            "fields:extra-field".into()
        } else {
            "fields:content".into()
        };
    }
    "fields:unclassified".into()
}

#[derive(Clone, Copy, Debug, PartialEq)]
enum Op {
    NextField,
    NextRow,
    GotoRow(usize),
}

impl Op {
    fn name(self) -> &'static str {
        match self {
            Op::NextField => "next_field",
            Op::NextRow => "next_row",
            Op::GotoRow(_) => "goto_row",
        }
    }
    fn to_json(self) -> Value {
        match self {
            Op::NextField => json!(["next_field"]),
            Op::NextRow => json!(["next_row"]),
            Op::GotoRow(n) => json!(["goto_row", n]),
        }
    }
    fn from_json(v: &Value) -> Op {
        let a = v.as_array().unwrap();
        match a[0].as_str().unwrap() {
            "next_field" => Op::NextField,
            "next_row" => Op::NextRow,
            "goto_row" => Op::GotoRow(a[1].as_u64().unwrap() as usize),
            o => panic!("unknown op {o}"),
        }
    }
}

/// Model of one cursor operation from position `p`: (return value, new position).
/// Derived from the documented behaviour: next_field/next_row move just past the
/// next marker/separator at or after the position (to the end of data when there
/// is none) and report whether data remains; goto_row(n) moves to the byte after
/// separator n-1 (0 for n == 0), stays put when that separator does not exist.
fn model_step(len: usize, sc: &Scan, p: usize, op: Op) -> (bool, usize) {
    match op {
        Op::NextField | Op::NextRow => {
            if p >= len {
                return (false, p);
            }
            let list = if op == Op::NextField { &sc.markers } else { &sc.newlines };
            match list.iter().find(|&&m| m >= p) {
                Some(&m) => (m + 1 < len, m + 1),
                None => (false, len),
            }
        }
        Op::GotoRow(0) => (len > 0, 0),
        Op::GotoRow(n) => match sc.newlines.get(n - 1) {
            Some(&q) => (q + 1 < len, q + 1),
            None => (false, p),
        },
    }
}

fn model_field<'a>(t: &'a [u8], sc: &Scan, p: usize) -> &'a [u8] {
    if p >= t.len() {
        return &[];
    }
    let end = sc.markers.iter().find(|&&m| m >= p).copied().unwrap_or(t.len());
    &t[p..end]
}

fn real_step<'a>(c: &DsvCursor<'a>, op: Op) -> (bool, DsvCursor<'a>) {
    let mut c2 = *c;
    let r = match op {
        Op::NextField => c2.next_field(),
        Op::NextRow => c2.next_row(),
        Op::GotoRow(n) => c2.goto_row(n),
    };
    (r, c2)
}

fn observe(t: &[u8], sc: &Scan, c: &DsvCursor<'_>, ret: Option<(bool, bool)>, p: usize) -> Option<&'static str> {
    if let Some((got, exp)) = ret {
        if got != exp {
            return Some("return");
        }
    }
    if c.position() != p {
        return Some("position");
    }
    if c.at_end() != (p >= t.len()) {
        return Some("at_end");
    }
    if c.current_field() != model_field(t, sc, p) {
        return Some("current_field");
    }
    None
}

/// S1: BFS over cursor positions to a fixpoint.
fn cursor_graph(t: &[u8], c: &Cfg, sc: &Scan, d: &Dsv, case: &dyn Fn() -> Value, rep: &mut Report) {
    let len = t.len();
    let mut ops = vec![Op::NextField, Op::NextRow];
    for n in 0..sc.newlines.len() + 3 {
        ops.push(Op::GotoRow(n));
    }
    ops.push(Op::GotoRow(usize::MAX));
    let mut seen = vec![false; len + 2];
    let mut parent: Vec<Option<(usize, Op)>> = vec![None; len + 2];
    let mut q: VecDeque<(usize, DsvCursor<'_>)> = VecDeque::new();
    let c0 = d.cursor();
    rep.trans(1);
    if let Some(w) = observe(t, sc, &c0, None, 0) {
        rep.fail(&format!("cursor:new:{w}"), len * 1000, || {
            let mut v = case();
            v["kind"] = json!("cursor");
            v["ops"] = json!([]);
            v
        });
        return;
    }
    seen[0] = true;
    q.push_back((0, c0));
    while let Some((p, cur)) = q.pop_front() {
        rep.state();
        for &op in &ops {
            rep.trans(1);
            let (eret, ep) = model_step(len, sc, p, op);
            let (gret, c2) = real_step(&cur, op);
            if let Some(w) = observe(t, sc, &c2, Some((gret, eret)), ep) {
                let mut path = vec![op.to_json()];
                let mut at = p;
                while let Some((pp, o)) = parent[at] {
                    path.push(o.to_json());
                    at = pp;
                }
                path.reverse();
                let feat = if ep >= len { "to-end" } else if p >= len { "from-end" } else { "mid" };
                rep.fail(&format!("cursor:{}:{w}:{feat}", op.name()), len * 1000 + path.len(), || {
                    let mut v = case();
                    v["kind"] = json!("cursor");
                    v["ops"] = json!(path);
                    v["got"] = json!({"ret":gret,"position":c2.position(),"at_end":c2.at_end(),"field":show(c2.current_field())});
                    v["exp"] = json!({"ret":eret,"position":ep,"field":show(model_field(t, sc, ep))});
                    v
                });
                continue;
            }
            if ep < seen.len() && !seen[ep] {
                seen[ep] = true;
                parent[ep] = Some((p, op));
                q.push_back((ep, c2));
            }
        }
    }
    let _ = c;
}

fn replay_cursor(t: &[u8], c: &Cfg, ops: &[Op], rep: &mut Report) {
    let sc = scan(t, c);
    let d = Dsv::parse_with_config(t, &real_cfg(c));
    let mut cur = d.cursor();
    let mut p = 0usize;
    if let Some(w) = observe(t, &sc, &cur, None, 0) {
        rep.fail(&format!("cursor:new:{w}"), 0, || json!({"kind":"cursor","text":hex(t),"cfg":c.to_json(),"ops":[]}));
        return;
    }
    for (i, &op) in ops.iter().enumerate() {
        rep.trans(1);
        let (eret, ep) = model_step(t.len(), &sc, p, op);
        let (gret, c2) = real_step(&cur, op);
        if let Some(w) = observe(t, &sc, &c2, Some((gret, eret)), ep) {
            let feat = if ep >= t.len() { "to-end" } else if p >= t.len() { "from-end" } else { "mid" };
            rep.fail(&format!("cursor:{}:{w}:{feat}", op.name()), i, || json!({"kind":"cursor","text":hex(t),"cfg":c.to_json(),"failed_at_step":i}));
            return;
        }
        cur = c2;
        p = ep;
    }
}

/// All checks on one text. `parts`: which sub-checks to run (replay narrows it).
fn check_text(fam: &str, t: &[u8], c: &Cfg, rep: &mut Report) {
    let len = t.len();
    let case = || json!({"kind":"text","family":fam,"cfg":c.to_json(),"text":hex(t),"shown":show(t)});
    rep.input();
    let sc = scan(t, c);
    let exp = split(t, c);
    let rc = real_cfg(c);
    let d = match catch(|| Dsv::parse_with_config(t, &rc)) {
        Ok(d) => d,
        Err(m) => {
            rep.fail("PANIC:parse_with_config", len, || {
                let mut v = case();
                v["panic"] = json!(m);
                v
            });
            return;
        }
    };
    // 1. iteration == oracle
    let it = match catch(|| iterate(&d)) {
        Ok(it) => it,
        Err(m) => {
            rep.fail("PANIC:iteration", len, || {
                let mut v = case();
                v["panic"] = json!(m);
                v
            });
            return;
        }
    };
    rep.trans(1 + it.len() as u64);
    if it != exp {
        let sig = classify_iter(t, &sc, &it, &exp);
        rep.fail(&sig, len, || {
            let mut v = case();
            v["got"] = rows_json(&it);
            v["exp"] = rows_json(&exp);
            v
        });
    }
    if exp.iter().map(|r| r.len()).sum::<usize>() >= 2 {
        let shape: Vec<Vec<usize>> = exp.iter().map(|r| r.iter().map(|f| f.len()).collect()).collect();
        rep.distinct(&(shape, sc.end_in_quote));
    }
    // 2. random access == iteration
    guard(rep, "PANIC:random-access", len, case, |rep| {
        for n in (0..it.len() + 3).chain([usize::MAX]) {
            rep.trans(1);
            let row = d.row(n);
            match (row, it.get(n)) {
                (None, None) => {}
                (Some(_), None) => rep.fail("row(n):some-beyond-last-row", len, || {
                    let mut v = case();
                    v["n"] = json!(n);
                    v["iterated_rows"] = json!(it.len());
                    v
                }),
                (None, Some(_)) => rep.fail("row(n):none-for-iterated-row", len, || {
                    let mut v = case();
                    v["n"] = json!(n);
                    v["iterated_rows"] = json!(it.len());
                    v
                }),
                (Some(r), Some(fields)) => {
                    rep.trans(1);
                    let fs: Vec<Vec<u8>> = r.fields().map(|f| f.to_vec()).collect();
                    if &fs != fields {
                        rep.fail("row(n).fields:differs-from-iteration", len, || {
                            let mut v = case();
                            v["n"] = json!(n);
                            v["got"] = json!(fs.iter().map(|f| show(f)).collect::<Vec<_>>());
                            v["iteration"] = rows_json(&it);
                            v
                        });
                    }
                    for i in (0..fields.len() + 3).chain([usize::MAX]) {
                        rep.trans(1);
                        let g = r.get(i);
                        let e = fields.get(i).map(|f| &f[..]);
                        if g != e {
                            let sig = match (g, e) {
                                (None, Some(_)) => "get(i):none-for-iterated-field",
                                (Some(_), None) => "get(i):some-beyond-last-field",
                                _ => "get(i):content",
                            };
                            rep.fail(sig, len, || {
                                let mut v = case();
                                v["n"] = json!(n);
                                v["i"] = json!(i);
                                v["got"] = json!(g.map(show));
                                v["iteration"] = rows_json(&it);
                                v
                            });
                        }
                    }
                }
            }
        }
    });
    // 3. cursor op graph
    rep.space(&format!("{fam}/cursor"));
    guard(rep, "PANIC:cursor", len, case, |rep| cursor_graph(t, c, &sc, &d, &case, rep));
    rep.space(fam);
    // 4. append-separator invariance (implementation against itself)
    if !t.is_empty() && !sc.end_in_quote && !ends_with_separator(t, &sc) {
        guard(rep, "PANIC:append-separator", len, case, |rep| {
            let mut t2 = t.to_vec();
            t2.push(c.newline);
            let d2 = Dsv::parse_with_config(&t2, &rc);
            let it2 = iterate(&d2);
            rep.trans(1);
            if it2 != it {
                let sig = if it2.len() == it.len() && it2[..it.len() - 1] == it[..it.len() - 1] && {
                    let (a, b) = (&it[it.len() - 1], &it2[it.len() - 1]);
                    a.len() + 1 == b.len() && b[..a.len()] == a[..] && b[a.len()].is_empty()
                } {
                    "append-separator:last-row-gains-trailing-empty-field"
                } else if it2.len() != it.len() {
                    "append-separator:row-count-changes"
                } else {
                    "append-separator:fields-change"
                };
                rep.fail(sig, len, || {
                    let mut v = case();
                    v["rows"] = rows_json(&it);
                    v["rows_with_separator_appended"] = rows_json(&it2);
                    v
                });
            }
        });
    }
}

fn prefixes(c: &Cfg) -> Vec<(&'static str, Vec<u8>)> {
    let a = c.other(b'a');
    let mut v = vec![("plain", vec![])];
    let mut p = vec![a; 61];
    p.push(c.newline);
    v.push(("after-61-byte-row", p));
    let mut p = vec![a; 62];
    p.push(c.delimiter);
    v.push(("after-62-byte-field", p));
    let mut p = vec![c.quote];
    p.extend(vec![a; 61]);
    v.push(("inside-quote-opened-62-bytes-before", p));
    v
}

fn explore(ctx: &Ctx, rep: &mut Report) {
    dsvref::selftest();
    let len4 = ctx.pick(8, 10);
    let len5 = ctx.pick(5, 7);
    for c in &CFGS {
        let a = c.other(b'a');
        let b = c.other(b'b');
        let sym4 = [[a], [c.delimiter], [c.quote], [c.newline]];
        let sym5 = [[a], [b], [c.delimiter], [c.quote], [c.newline]];
        let cname = format!("{:02x}-{:02x}-{:02x}", c.delimiter, c.quote, c.newline);
        for (pname, pre) in prefixes(c) {
            for (aname, maxlen, alpha) in [("adqn", len4, sym4.iter().map(|x| &x[..]).collect::<Vec<&[u8]>>()), ("abdqn", len5, sym5.iter().map(|x| &x[..]).collect::<Vec<&[u8]>>())] {
                if aname == "abdqn" && pname != "plain" {
                    continue;
                }
                let fam = format!("{aname}/{cname}/{pname}");
                let r = par_strings(ctx, &fam, &alpha, maxlen, |s, _i, rep| {
                    let mut t = pre.clone();
                    t.extend_from_slice(s);
                    check_text(&fam, &t, c, rep);
                    if s.len() == 6 && s[0] == c.quote && s[1] == c.delimiter && s[2] == c.quote && s[3] == c.delimiter && s[4] == c.newline {
                        rep.sample(|| json!({"family":fam,"text":show(&t),"rows":rows_json(&split(&t, c))}));
                    }
                });
                rep.merge(r);
                let note = format!("all strings of length 0..={maxlen} over {} symbols after prefix '{pname}'; cursor graph closed by BFS over positions", alpha.len());
                rep.mark_exhaustive(&fam, &note);
                rep.mark_exhaustive(&format!("{fam}/cursor"), "BFS to fixpoint: every operation applied at every reachable position");
            }
        }
    }
    // Scale family: one long field (its end several 64-byte index words after its start) in every position of a
    // small table. Field access finds "the next marker after here"; how far ahead that marker lies (0, 1, 2, 3, 4,
    // 5 ... words) is a dimension the short windows never vary.
    let lens: Vec<usize> = if ctx.quick() {
        vec![1, 62, 63, 64, 65, 127, 128, 129, 191, 192, 193, 200, 255, 256, 257, 300, 319, 320, 321, 400, 513, 700, 1025]
    } else {
        (1..=340).chain([400, 511, 512, 513, 640, 700, 1000, 1024, 1025, 2048, 4097]).collect()
    };
    for c in &CFGS {
        let cname = format!("{:02x}-{:02x}-{:02x}", c.delimiter, c.quote, c.newline);
        let fam = format!("long-fields/{cname}");
        let (a, b, d, q, n) = (c.other(b'a'), c.other(b'b'), c.delimiter, c.quote, c.newline);
        let r = par_range_in(ctx, &fam, lens.len() as u64, 1, |i, rep| {
            let l = lens[i as usize];
            let f: Vec<u8> = vec![a; l];
            let cat = |parts: &[&[u8]]| -> Vec<u8> { parts.iter().flat_map(|p| p.iter().copied()).collect() };
            let texts = [
                cat(&[&f]),
                cat(&[&f, &[n]]),
                cat(&[&f, &[d, b]]),
                cat(&[&[b, d], &f]),
                cat(&[&[b, d], &f, &[d, b, n, b, d, b]]),
                cat(&[&[b, d], &f, &[n], &f, &[d, b, n]]),
                cat(&[&[q], &f, &[q, d, b, n]]),
                cat(&[&[b, d, q], &f, &[d], &f, &[q, d, b, n, b]]),
                cat(&[&[b, n, b, n], &f, &[d], &f, &[d, d, n, b]]),
                cat(&[&f, &[d], &f, &[d], &f, &[n], &f]),
            ];
            for t in &texts {
                check_text(&fam, t, c, rep);
            }
        });
        rep.merge(r);
        rep.mark_exhaustive(&fam, &format!("a field of every length in {} lengths (quick: boundaries of 64..1025; thorough: 1..=340 and larger) in 10 table shapes (alone, first, middle, last, quoted, repeated)", lens.len()));
        rep.mark_exhaustive(&format!("{fam}/cursor"), "BFS to fixpoint: every operation applied at every reachable position");
    }
    rep.extra.insert("configurations".into(), json!(CFGS.iter().map(|c| c.to_json()).collect::<Vec<_>>()));
    rep.extra.insert("alphabets".into(), json!({"adqn": format!("other,delimiter,quote,separator up to length {len4}"), "abdqn": format!("two others + specials up to length {len5}")}));
    rep.extra.insert("cursor_ops".into(), json!("next_field, next_row, goto_row(n) for n in 0..=separators+2 and usize::MAX"));
}

fn replay(case: &Value, rep: &mut Report) {
    let c = Cfg::from_json(&case["cfg"]);
    let t = unhex(case["text"].as_str().unwrap());
    match case["kind"].as_str().unwrap_or("text") {
        "cursor" => {
            let ops: Vec<Op> = case["ops"].as_array().map(|a| a.iter().map(Op::from_json).collect()).unwrap_or_default();
            replay_cursor(&t, &c, &ops, rep);
        }
        _ => check_text(case["family"].as_str().unwrap_or("replay"), &t, &c, rep),
    }
}

fn main() {
    drive("C21", explore, replay);
}
