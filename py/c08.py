"""C08 (CLI slice) — `succinctly json validate` on a fixed slice of inputs, as real processes.

The library explorer (harness/svh/src/bin/c08.rs) decides the property on the
validator function; this module checks that the CLI wrapper reports the same
verdict through its exit status (0 valid / 1 invalid) and that the printed
`<stdin>:LINE:COLUMN` is the naive (LF | CR | CRLF) position of some offset of the
input. The batch hook has no `json validate` entry, so every case is a real
process (budget: a few hundred spawns).

Oracle (own, Python): strict UTF-8 decode + `json.loads` with NaN/Infinity rejected,
lone surrogates in any decoded string rejected, container depth <= 128 by an
own scan.
"""
import json, re
import batch, common


def _reject_constant(name):
    raise ValueError("constant " + name)


def _has_surrogate(v):
    if isinstance(v, str):
        return any(0xD800 <= ord(c) <= 0xDFFF for c in v)
    if isinstance(v, list):
        return any(_has_surrogate(x) for x in v)
    if isinstance(v, dict):
        return any(_has_surrogate(k) or _has_surrogate(x) for k, x in v.items())
    return False


def _depth(text):
    """Maximum container depth of a text already known to be grammatical."""
    d = m = 0
    instr = esc = False
    for c in text:
        if instr:
            if esc:
                esc = False
            elif c == "\\":
                esc = True
            elif c == '"':
                instr = False
        elif c == '"':
            instr = True
        elif c in "[{":
            d += 1
            m = max(m, d)
        elif c in "]}":
            d -= 1
    return m


def expected_valid(data):
    try:
        text = data.decode("utf-8", "strict")
    except UnicodeDecodeError:
        return False
    # cheap pre-check so Python's own recursion limit is never the judge
    if text.count("[") + text.count("{") > 600:
        return None
    try:
        v = json.loads(text, parse_constant=_reject_constant, object_pairs_hook=lambda ps: [list(p) for p in ps])
    except (ValueError, RecursionError):
        return False
    if _has_surrogate(v):
        return False
    return _depth(text) <= 128


def positions(data):
    """All naive (line, column) pairs of offsets 0..=len."""
    out = set()
    line, ls, i = 1, 0, 0
    n = len(data)
    out.add((1, 1))
    while i < n:
        out.add((line, i - ls + 1))
        b = data[i]
        if b == 0x0A:
            i += 1; line += 1; ls = i
        elif b == 0x0D:
            if i + 1 < n and data[i + 1] == 0x0A:
                out.add((line, i + 1 - ls + 1))
                i += 2
            else:
                i += 1
            line += 1; ls = i
        else:
            i += 1
    out.add((line, n - ls + 1))
    return out


BASE = [
    b'null', b'[]', b'{}', b'[1,2]', b'{"a":1}', b'{"a":[1,{"b":null}]}', b'"a\\u00e9\\ud83d\\ude00"', '"é😀"'.encode(),
    b'-0.10e+2', b'[true,false,null]', b' \r\n[\r\n1,\n2\r]\n', b'{"a":\r\n"b",\r\n"c":[]}', b'[1e5,1E-5,0.5]', b'{"":""}',
    b'"\\"\\\\\\/\\b\\f\\n\\r\\t"', b'[[[[]]]]', b'{"a":{"a":{"a":1}}}', b'123456789012345678901234567890',
]
EXTRA = [
    b'', b' ', b'\n', b'\xef\xbb\xbf[]', b'[1,]', b'{"a":1,}', b'01', b'+1', b'1.', b'.5', b'1e', b'1e+', b'-', b'nul', b'truex', b'NaN', b'Infinity', b'-Infinity',
    b"'a'", b'"a', b'"\\u12"', b'"\\uD800"', b'"\\uDC00"', b'"\\ud800\\ud800"', b'"\\ud83d\\u0041"', b'"\\ud83d\\ude00"', b'"\x00"', b'"\x1f"', b'"\x7f"', b'"\xc0\x80"',
    b'"\xed\xa0\x80"', b'"\xf4\x90\x80\x80"', b'"\xe2\x82"', b'\xff', b'[1] x', b'[1]\r\n\r\nx', b'{"a" 1}', b'{1:1}', b'[1 2]', b'{"a":1 "b":2}', b'[\x0c]', b'[\xc2\xa0]',
    b'[' * 128 + b']' * 128, b'[' * 129 + b']' * 129, b'{"a":' * 128 + b'1' + b'}' * 128, b'{"a":' * 129 + b'1' + b'}' * 129, b'[' * 128, b'[\n' * 129,
    b'[' + b','.join([b'[' * 127 + b']' * 127] * 3) + b']', b'{"a":1,"a":2}', b'[1]\n', b'[1]\r', b'\t[1]\t',
]


def inputs(tier):
    out = []
    seen = set()

    def add(x):
        if x not in seen:
            seen.add(x); out.append(x)
    for b in BASE + EXTRA:
        add(b)
    muts = [lambda d, i: d[:i] + d[i + 1:], lambda d, i: d[:i] + b'"' + d[i:], lambda d, i: d[:i] + b',' + d[i:],
            lambda d, i: d[:i] + b'x' + d[i + 1:], lambda d, i: d[:i] + b'\r\n' + d[i:], lambda d, i: d[:i]]
    if tier == "quick":
        return out  # process creation is the scarce resource (7-100 spawns/s): the mutation family is thorough-only
    for d in BASE:
        if not d:
            continue
        for i in sorted({0, len(d) // 2, len(d) - 1}):
            for m in muts:
                add(m(d, i))
    return out


POS = re.compile(rb"--> <stdin>:(\d+):(\d+)")


def judge(data, quiet, rep, res=None):
    argv = ["json", "validate", "-M"] + (["-q"] if quiet else [])
    r = res or batch.spawn(argv, data)
    rep.trans(1)
    exp = expected_valid(data)
    if exp is None:
        return
    case = {"kind": "cli", "input": data.hex(), "shown": data.decode("utf8", "replace")[:200], "quiet": quiet,
            "got": {"status": r[0], "stderr": r[2].decode("utf8", "replace")[:300]}}
    size = len(data)
    if batch.crashed(r[0]) or r[0] not in ("0", "1"):
        rep.fail("cli:json-validate:crash-or-unexpected-status", size, case)
        return
    if exp and r[0] != "0":
        rep.fail("cli:json-validate:exit-status:valid-document-rejected", size, case)
        return
    if not exp and r[0] != "1":
        rep.fail("cli:json-validate:exit-status:invalid-document-accepted", size, case)
        return
    if r[1] != b"":
        rep.fail("cli:json-validate:writes-to-stdout", size, case)
    if quiet or exp:
        if r[2] != b"":
            rep.fail("cli:json-validate:stderr-not-empty-when-" + ("quiet" if quiet else "valid"), size, case)
        return
    m = POS.search(r[2])
    rep.evals(1)
    if not m:
        rep.fail("cli:json-validate:no-position-printed", size, case)
    elif (int(m.group(1)), int(m.group(2))) not in positions(data):
        rep.fail("cli:json-validate:position-is-not-a-position-of-the-input", size, case)


def run(ctx):
    rep = batch.Report()
    if ctx["replay"]:
        case = json.load(open(ctx["replay"]))["case"]
        rep.space("cli/json-validate")
        data = bytes.fromhex(case["input"])
        a = batch.Report(); b = batch.Report()
        a.space("x"); b.space("x")
        judge(data, case.get("quiet", False), a)
        judge(data, case.get("quiet", False), b)
        if sorted(a.failures) != sorted(b.failures):
            raise common.Machinery("replay not deterministic")
        rep.input(); rep.trans(1)
        for f in a.failures.values():
            rep.fail(f["signature"], 0, f["example"])
        return rep.to_json()
    tier = ctx["tier"]
    ins = inputs(tier)
    rep.space("cli/json-validate", True, "fixed slice: 18 base documents and 53 hand-picked edge inputs"
              + ("" if tier == "quick" else ", plus 6 mutations at 3 offsets of each base document") + "; every case a real process; every 4th also with -q")
    # oracle self-test on the hand-written expectations
    for d, want in [(b'[]', True), (b'[1,]', False), (b'"\\uD800"', False), (b'"\\ud83d\\ude00"', True), (b'NaN', False), (b'[' * 129 + b']' * 129, False),
                    (b'[' * 128 + b']' * 128, True), (b'\xef\xbb\xbf[]', False), (b'"\xed\xa0\x80"', False), (b'01', False), (b'{"a":1,"a":2}', True)]:
        if expected_valid(d) != want:
            raise common.Machinery(f"CLI-slice oracle self-test failed on {d[:40]!r}")
    for k, d in enumerate(ins):
        rep.input()
        rep.seen(d)
        judge(d, False, rep)
        if k % 4 == 0:
            judge(d, True, rep)
    rep.traces_validated = rep.transitions
    rep.sample({"stdin": "{\"a\":\\r\\n [1,]}", "argv": ["json", "validate", "-M"], "expect": "exit 1, a position of the input on stderr"})
    rep.extra["cli_spawns"] = rep.transitions
    return rep.to_json()
