SPEC = dict(
    kind="mixed",
    bins=rust("c28"),
    module="c28cli",
    design_ref="§3-C28",
    technique="bounded-exhaustive enumeration (S2) of duplicate-free documents x every byte offset, composing locate -> jq::parse -> jq::eval and "
              "at_offset/at_position through eval_generic::eval_with_cursor (library), plus the same composition through the real CLI "
              "(jq-locate --offset / --line --column -> jq EXPR, at_offset, at_position) on a batch slice, against the generator's tree",
    rule="a case = (document, byte offset); the generator classifies each offset as inside a scalar token / inside a key token / on a container's "
         "opening bracket / elsewhere; distinct_nontrivial counts distinct document trees (every offset of each is evaluated)",
    level_text="For every duplicate-free document of the bounded space and every qualifying offset, locate_offset_detailed must answer with the token's / "
               "container's span, locate_offset must give the same expression, the expression must parse and evaluate (library jq::eval) to exactly "
               "one value equal to the located node's value (for a key: the value it names); at_offset(o) and at_position(l; c) through the generic "
               "evaluator must yield the token's own value. All other offsets are only required not to panic.",
    level_note="Library side (lib/default): the full space. CLI side (cli): J(2) (quick) / J(3) (thorough) over the reduced alphabets x 6 whitespace patterns "
               "plus scalar/one-container documents over the full leaf alphabet and keys needing bracket notation / non-ASCII keys; 5 CLI runs per "
               "(document, offset) through the __verif-batch hook, a slice re-run as real processes, every violation candidate confirmed by a real "
               "spawn. Library documents: "
               "J(3) full alphabet (keys needing bracket notation, empty, escaped, non-ASCII keys) x 6 uniform whitespace patterns, J(3) reduced x every "
               "single-gap placement, J(4) reduced x 6 patterns (quick: 1), J(5) tiny (thorough), plus deep/wide families. Numbers are compared numerically (exactly known doubles / i64).",
    assumptions=["documents with duplicate keys are outside the statement and skipped (counted in the evidence)",
                 "the CLI slice is smaller than the library space (process-free batching still costs ~30 us per run)"],
)
