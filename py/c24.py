"""C24 — `succinctly jq` matches jq 1.7.1 outside the documented divergences.

Oracle: py/jq171.py, a reference model of the jq 1.7.1 core fragment.  jq 1.7.1 itself is not
installed, so before anything is judged the model is BOUND:

  1. every recorded jq-1.7.1 trace under /repo/tests/data (jq-golden/cases/*: args, filter, input,
     stdout, status, stderr; jq-error-messages.tsv: filter, input, message) whose program the model
     accepts must be reproduced byte for byte - a miss is a machinery error (exit 2);
  2. /usr/bin/jq 1.6 is a second witness for EVERY enumerated (program, input) pair: the pair is
     judged only if jq 1.6 equals the model run in `compat16` mode (the documented 1.6 -> 1.7.1 changes
     of jq171.CHANGES switched back); otherwise it is "oracle-undetermined": counted, shown, not judged.

jq 1.6 is consulted in bulk: ~400 programs are wrapped as  "<marker k>", (try (P_k) catch {"<e>": .}), ...
into ONE jq program that is run once over all inputs (a few dozen spawns for the whole space instead of
one 22 ms spawn per pair); the wrapping is itself checked against plain `jq -c P` runs on a slice.
Answers are cached in /verif/.cache/jq16-cache.json keyed by (jq --version, program, input).

Space: P(1) = every base term (387) x every input (17); the operator matrix = every arithmetic / comparison operator on
every ordered pair of 15 literal representatives of all types; P(2) = `a | b` for a, b in the base set (thorough: all
387 x 387 on 12 inputs; quick: 30 core second stages on 4 inputs) and every base term in 21 unary contexts ([a], (a)?,
try (a) catch ., map(a), first(a), limit, path(a), del(a), (a) = 1, (a) |= 1, //, if, reduce, isempty, as, -, not ...;
thorough on 17 inputs, quick on 3).  Programs that hit a divergence listed in docs/compliance/jq/limitations.md are
excluded by construct (table DIVERGENCES) and counted.  succinctly runs through batch.runbatch as
`succinctly jq -c PROGRAM` with the input on stdin; observation = (stdout values, exit status, stderr message).
Quick stays fast because jq 1.6 costs a few dozen bulk runs (cold cache: ~240 spawns, warm: none) instead of one spawn
per pair; the Python model (~0.4 ms per pair) and the batch jobs are sharded over 16 forked workers.
Disagreements are attributed to the minimal sub-program: `a | b` whose prefix `a` already disagrees on
that input is attributed to `a`; otherwise the signature names the last stage and the kind of value it
received, so one root cause gives one signature.
"""
import hashlib, json, os, subprocess, sys, time
from concurrent.futures import ThreadPoolExecutor
import batch, common
import jq171
from jq171 import Unsupported, NOERR

JQ16 = "/usr/bin/jq"
CACHE_FILE = os.path.join(common.CACHE, "jq16-cache.json")

# ------------------------------------------------------------------------------------------ space --

INPUTS = ["null", "true", "false", "0", "-1", "1.5", '""', '"a"', '"a,bé"', "[]", "[1,2,3]",
          '[[1],{"a":2},"x",null]', "{}", '{"a":1,"b":[1,2]}', '{"a":{"b":null}}', '["b","a","a"]', '[{"a":2},{"a":1}]']

# the quick tier runs P(2) on this subset (P(1) always sees every input)
QUICK_INPUTS = ["null", '"a,bé"', "[1,2,3]", '{"a":1,"b":[1,2]}']
THOROUGH_PIPE_INPUTS = ["null", "true", "0", "1.5", '""', '"a,bé"', "[]", "[1,2,3]", '[[1],{"a":2},"x",null]', "{}",
                        '{"a":1,"b":[1,2]}', '{"a":{"b":null}}']
QUICK_CTX_INPUTS = ["null", "[1,2,3]", '{"a":1,"b":[1,2]}']

NULLARY = ("type length utf8bytelength keys keys_unsorted empty not add any all flatten sort reverse unique min max "
           "floor ceil round sqrt fabs trunc log exp exp2 log2 log10 sin cos tan asin acos atan sinh cosh tanh "
           "explode implode to_entries from_entries tojson fromjson tonumber tostring ascii_downcase ascii_upcase "
           "first last transpose tostream paths recurse isnan isinfinite isnormal infinite nan null true false "
           "error combinations values nulls booleans numbers strings arrays objects iterables scalars normals finites "
           "@base64 @base64d @uri @csv @tsv @html @sh @json @text . .. .[] .[]? .a .a? .[0] .[-1] .[1:] .[:1] "
           ".[1:2] .[:-1] .[-2:] .a.b .a[0] .a[]? .[\"a\"] -(.)").split(" ")

UNARY = [
    'has("a")', "has(0)", "select(.)", "map(.)", "map_values(.)", "path(.a)", "path(..)", "del(.a)", "del(.[0])",
    'getpath(["a"])', 'setpath(["a"];1)', "setpath([0];1)", 'delpaths([["a"]])', "contains(.)", "inside(.)",
    'startswith("a")', 'endswith("a")', 'ltrimstr("a")', 'rtrimstr("a")', 'join(",")', 'split(",")', 'index("a")',
    'rindex("a")', 'indices("a")', "indices(1)", "limit(1;.[])", "first(.[])", "last(.[])", "nth(0)", "nth(1;.[])",
    "range(3)", "range(1;3)", "sort_by(.)", "group_by(.)", "unique_by(.)", "min_by(.)", "max_by(.)", "any(.)", "all(.)",
    "flatten(1)", "pow(.;2)", "atan2(.;1)", "walk(.)", "with_entries(.)", "recurse(.[]?)", "bsearch(1)", 'error("x")',
    "isempty(.[])", ". as $d | 1 | [truncate_stream($d | tostream)]", "fromstream(tostream)",
    ". + .", ". - .", ". * .", ". / .", ". % .", ". == .", ". < .", ". and .", ". or .", ". // 1", ". + 1", "1 + .",
    ". * 2", ". / 0", ". % 0", '. + "a"', ". + [1]", '. + {"z":1}', ". + null", "null + .", ". - 1", ". - [1]", ". / 2",
    '. / ","', ". % 2", "10 % .", "10 / .", ". < 1", '. < "a"', ". < []", ". == null", ". != 1", ". >= {}", ". <= true",
    ". as $x | $x", "reduce .[] as $x (0; . + $x)", "foreach .[] as $x (0; . + $x)", "foreach .[] as $x (0; . + $x; [.])",
    "if . then 1 else 2 end", "if . then 1 end", 'try error("x") catch .', "try error catch .", "try error({a:1}) catch .a",
    "label $out | 1, break $out", "label $out | .[] | if . == 2 then break $out else . end",
    "[.[] | . * 2]", "{a: .}", "{(.): 1}", '"a\\(.)"', "[.[]?]", "[..]", "to_entries | from_entries", "tojson | fromjson",
    "[paths]", "[paths(scalars)]", "(.a, .b)", "[.[] | select(. != null)]", ".a = 1", ".a |= 2", ".[0] = 1", ".[] |= 1",
    ".a += 1", ".a -= 1", ".a *= 2", ".a /= 2", ".a %= 2", ".a //= 3", "del(.[])", "ltrimstr(1)", '@json "x\\(.)"',
    '@base64 "x\\(.)"', '@html "<\\(.)>"', "limit(0;.[])", "first(empty)", 'getpath(["a","b"])', 'paths(type == "number")',
    "tojson|length", 'ltrimstr("")', "min_by(.a)", "group_by(.a)", "unique_by(.a)", "sort_by(.a)", "max_by(.a)",
    "to_entries|map(.key)", "with_entries(.value|=.)", "any(.[];.)", "all(.[];.)", "[limit(3;repeat(.))]",
    "[limit(3;recurse)]", "until(true;.)", "[while(false;.)]", "ascii_downcase|ascii_upcase", '@text "\\(.)"',
    "[.[]|tostring]", "[.[]|tojson]", "[.[]|type]", "map(select(.))", "[.[]|numbers]", "getpath([0])", 'getpath(["a",0])',
    "error({})", "(1,2)|.+1", "[(1,2)+(10,20)]", "[.[]|.+1]?", '.["a","b"]?', ".[0,1]?", "..|numbers", "[..|strings]",
    "keys|length", "length|tostring", 'ltrimstr("a")|rtrimstr("a")', "tostream|tojson",
    "getpath(1)", "setpath(1;1)", "delpaths(1)", "has(null)", "in({})", "in([])", 'inside("abc")', 'contains("a")',
    "contains([1])", "contains({a:1})", "index(1)", "index([1])", "rindex(1)", "join(1)", "join(null)", "split(1)",
    'flatten("a")', "range(-1)", "range(0;1;0)", "range(0;3;2)", 'range("a")', "nth(-1)", "limit(-1;.[])", "first(.[]?)",
    "tojson|fromjson|tojson", 'getpath(["a"])?', "error(.)", "try error(.) catch .", "[.[]|try error(.) catch .]",
    ".[1:2] = [9]", ".[1:] |= map(.)", "del(.[1:])", "path(.[1:2])", "[path(.[]?)]", "[paths(..)]", "to_entries[]",
    "IN(1,2)", "IN(.[]; 1, 2)", "INDEX(.a)", "any(.[]; . == 1)", "all(.[]; . == 1)", "add / 2",
    "[.[] | if type == \"number\" then . + 1 else . end]", "map(type)", "map(length)", "map(keys?)", "[.[]?|.[]?]",
    "reduce .[]? as [$a,$b] (0; . + 1)", ". as [$a,$b] | [$b,$a]", ". as {a:$x} | $x", ". as {$a} | $a",
    "[.[] as $x | $x]", '{"a":1} + .', ". * {\"a\":{\"c\":1}}", "[.[]?] | sort", "[., 1] | sort", "[., null, false, 0, \"\", [], {}] | sort",
    "[., null, false, 0, \"\", [], {}] | unique", "[., null, false, 0, \"\", [], {}] | group_by(.)",
    "[., null, false, 0, \"\", [], {}] | min, max", "{a:1,b:2} | to_entries", "[3,1,2] | sort, min, max",
    '"abc" | .[1:2]', '"abc" | .[1:], .[:-1], .[-1:]', "[1,2,2] - [2]", "[1,2] - [2]", "{} + 1", "{} - 1", "[] * 2",
    "null < false", "false < true", "true < 0", "0 < \"\"", "\"\" < []", "[] < {}", "[null < false, false < 0, {} < []]",
    "(.[]?, 1) | tostring", "def f: . + 1; f", "def f(x): x | x; f(. + 1)", "def f($a): $a + 1; f(.)",
    "[range(5)] | .[2:4]", "[range(5)] | del(.[1,3])", "[range(5)] | to_entries | map(.key)", "[range(3)] | map(. * .)",
    "[range(3)] | reduce .[] as $x (0; . + $x)", "[range(3)] | [foreach .[] as $x (0; . + $x)]",
    '"a-b-c" | split("-")', '"a-b-c" | split("-") | join("+")', '"abc" | explode | implode', '"ABC" | ascii_downcase',
    '{"a":[1,2],"b":3} | [paths]', '{"a":[1,2],"b":3} | tostream', '{"a":[1,2],"b":3} | [..]',
    '{"a":[1,2],"b":3} | to_entries', '{"a":[1,2],"b":3} | with_entries(.value |= tostring)', '{"a":[1,2],"b":3} | del(.a[0])',
    "[2, 3, 10] | map(sqrt)", "0 | -(.) | tojson", "infinite | floor, ceil, round, trunc", "[infinite, -infinite, nan] | map(isinfinite, isnan)",
    "infinite | tostring", "nan | tostring", "[nan] | tojson", "[1, nan] | sort", "nan < nan, nan == nan", "[[1,[2]],[[]]] | flatten",
    "[[1,2],[3]] | transpose", "[[1,2],[3,4]] | [combinations]", "[1,2,3] | bsearch(2), bsearch(0), bsearch(4)", "[3,1,2] | reverse",
    '"a,b" | split(",")', '"a,b" / ","', '"abc" | indices("b"), index("b"), rindex("b")', "[1,2,1] | indices(1), index(1), rindex(1)",
    '"x" * 3', '3 * "x"', '"x" * -1', "last(empty)", "nth(2; 1,2)", "nth(-1; 1,2)", "[limit(0; 1,2)]", "[first(range(5)), last(range(5))]",
    '{"a":[1,2],"b":3} | .a[1] = 9', '{"a":[1,2],"b":3} | .a |= map(. + 1)', '{"a":[1,2],"b":3} | keys, length',
    # jq orders objects by sorted key sets, then by values in *sorted-key* order - whatever order the keys were written in
    '[{"b":1,"a":2},{"b":2,"a":1}] | sort', '{"b":1,"a":2} < {"b":2,"a":1}', '{"b":2,"a":1} < {"b":1,"a":2}', '{"b":1,"a":2} == {"a":2,"b":1}',
    '[{"name":"alice","age":40},{"name":"bob","age":30}] | sort, min, max', '[{"b":1,"a":2},{"b":2,"a":1},{"a":2,"b":1}] | unique',
    '[{"b":1,"a":2},{"b":2,"a":1}] | group_by(.) | map(length)', '[{"b":[1],"a":[2]},{"b":[2],"a":[1]}] | sort_by(.), min_by(.), max_by(.)',
    '[{"c":0,"b":1,"a":2},{"c":0,"b":2,"a":1},{"a":0,"c":9}] | sort | map(keys_unsorted)', '[{"b":1,"a":2},{"b":2,"a":1}] | bsearch({"b":2,"a":1})',
    # jq's sort is stable and unique keeps the first-seen representative: equal values that print differently (same
    # members, different key order) must keep their relative order - on arrays long enough that a library sort routine
    # no longer falls back to insertion sort (> 20 elements), not already sorted
    '[range(40) | if . % 3 == 0 then {"a":1,"b":0} elif . % 3 == 1 then {"b":0,"a":0} else {"a":0,"b":0} end] | sort | map(keys_unsorted | .[0])',
    '[range(64) | if . % 4 == 0 then {"a":1,"b":0} elif . % 4 == 1 then {"b":0,"a":1} elif . % 4 == 2 then {"b":0,"a":0} else {"a":0,"b":0} end] | unique | map(keys_unsorted | .[0])',
    '[range(33) | {"k": (. % 2), "i": .}] | sort_by(.k) | map(.i)', '[range(50) | {"k": (5 - . % 5), "i": .}] | group_by(.k) | map(map(.i))',
    '[range(45) | {"k": (. % 3), "i": .}] | unique_by(.k) | map(.i)', '[range(30) | [(. % 2), .]] | min_by(.[0]), max_by(.[0])',
]
UNARY = [u for u in UNARY if u]

# the 16 unary contexts of P(2)
CONTEXTS = ["[%s]", "(%s)?", "try (%s) catch .", "[.[]? | %s]", "first(%s)", "[limit(2; %s)]", "map(%s)", "{a: (%s)}",
            "(%s) // 1", "if (%s) then 1 else 2 end", "reduce (%s) as $x (0; . + 1)", "path(%s)", "(%s) = 1", "(%s) |= 1",
            "del(%s)", "[%s] | length", "isempty(%s)", "(%s) as $x | [$x]", "[(%s), 1]", "-(%s)", "(%s) | not"]

# second stages of quick-tier pipes (every base term is a first stage)
CORE_B = ["type", "length", "keys", "not", "add", "sort", "reverse", "tojson", "tostring", "first", "last",
          ".[]", ".a", ".[0]", ".[1:]", "floor", "flatten", "transpose", ". + 1", '. + "a"', ". < 1",
          'has("a")', "map(.)", 'split(",")', 'index("a")', "del(.a)", ".a = 1", "error",
          "if . then 1 else 2 end", "-(.)"]

LITS = ["null", "false", "true", "0", "1", "-1", '""', '"a"', '"ab"', "[]", "[1]", "[1,2]", "{}", '{"a":1}', '{"a":{"b":1}}']
ARITH = ["+", "-", "*", "/", "%"]
CMP = ["==", "!=", "<", "<=", ">", ">="]


def base_terms():
    seen, out = set(), []
    for p in NULLARY + UNARY:
        if p not in seen:
            seen.add(p)
            out.append(p)
    return out


# -------------------------------------------------------------------- documented divergences (excluded) --
# Transcribed from /repo/docs/compliance/jq/limitations.md, keyed on construct.  `classify_divergence` is applied to
# the program (and, for the two input-dependent rows, to the input / the oracle's own answer) - never to succinctly's answer.

DIVERGENCES = {
    "format-nonstring": "@uri/@base64/@base64d (and every other format except @csv/@tsv/@sh/@json/@text) applied to a non-string: "
                        "jq stringifies first, succinctly refuses ('Where succinctly errors and jq does not', #929)",
    "flatten-nonnumeric-depth": "flatten(\"x\"): jq ignores a non-numeric depth, succinctly refuses (#929)",
    "slice-write-null": ".[a:b] = / |= on null: jq vivifies, succinctly refuses (#366, deliberate)",
    "object-key-multi": "{(k): v} where k yields zero or several outputs: jq takes the product, succinctly refuses (#354)",
    "trunc-multibyte": "error-message value dump truncated inside a multi-byte character: jq emits invalid UTF-8, succinctly snaps back",
    "path-var-or-fold": "path expressions navigating from a $variable, through reduce/foreach or ?// (three open shapes, #1440/#1466/#1467)",
    "path-near-attempt-wording": "jq's 'Invalid path expression near attempt to access/iterate ...' is reported by succinctly as "
                                 "'Invalid path expression with result ...' (#989 and 'general message-fidelity gap')",
    "conversion-diagnostics": "tonumber/fromjson diagnostics beyond a single token (approximated to the EOF form)",
    "float-literal-spelling": "error messages echo float literals as written in jq, re-rendered in succinctly",
    "undefined-function-runtime": "undefined function / arity is a compile error (exit 3) in jq, a runtime error in succinctly (#1473)",
    "sub-multi-output": "sub/gsub replacement emitting several outputs (#840) - regex is outside the fragment anyway",
}


# ------------------------------------------------------------------------------- jq 1.6, the second witness --

MARK = "\u0001M"
ERRKEY = "\u0001e"


def jq16_version():
    p = subprocess.run([JQ16, "--version"], capture_output=True, text=True)
    return p.stdout.strip()


def _wrap(progs):
    parts = []
    for i, p in enumerate(progs):
        parts.append('"\\u0001M%d", (try (%s) catch {"\\u0001e": .})' % (i, p))
    return ", ".join(parts)


def _run16(argv, stdin, timeout):
    try:
        p = subprocess.run([JQ16] + argv, input=stdin, capture_output=True, timeout=timeout,
                           env={"PATH": "/usr/bin:/bin", "LC_ALL": "C.UTF-8", "TZ": "UTC", "HOME": "/nonexistent"})
    except subprocess.TimeoutExpired:
        return None
    return p


class Witness:
    """Answers of jq 1.6 per (program, input text): ("ok", [output json lines], err) with err = None |
    ["s", message] | ["v", json text]; or ("nocompile",) / ("failed", why)."""

    def __init__(self):
        self.version = jq16_version()
        self.data = {}
        self.loaded = 0
        self.fresh_pairs = 0
        self.spawns = 0
        self.dirty = False
        try:
            with open(CACHE_FILE, encoding="utf8", errors="surrogateescape") as f:
                j = json.load(f)
            if j.get("version") == self.version:
                self.data = j["data"]
                self.loaded = sum(len(v) for v in self.data.values())
        except (OSError, ValueError, KeyError):
            self.data = {}

    def save(self, keep=None):
        if not self.dirty:
            return
        data = self.data if keep is None else {p: v for p, v in self.data.items() if p in keep}
        os.makedirs(common.CACHE, exist_ok=True)
        tmp = CACHE_FILE + ".tmp%d" % os.getpid()
        with open(tmp, "w", encoding="utf8", errors="surrogateescape") as f:
            json.dump({"version": self.version, "data": data}, f, ensure_ascii=False, separators=(",", ":"))
        os.replace(tmp, CACHE_FILE)

    def get(self, prog, inp):
        return self.data.get(prog, {}).get(inp)

    # -- bulk evaluation ---------------------------------------------------------------------------------
    def _chunk(self, progs, inputs, depth=0):
        """Evaluate `progs` on `inputs` in ONE jq process. Returns {prog: {inp: outcome}}; splits on failure."""
        if not progs:
            return {}
        big = _wrap(progs)
        stdin = ("\n".join(inputs) + "\n").encode("utf8")
        self.spawns += 1
        p = _run16(["-c", big], stdin, timeout=30 + 0.02 * len(progs) * len(inputs))
        bad = p is None or p.returncode not in (0,) or p.stderr
        res = None
        if not bad:
            res = self._parse(progs, inputs, p.stdout)
            if res is None:
                bad = True
        if bad:
            if len(progs) == 1:
                why = "timeout" if p is None else ("nocompile" if p.returncode == 3 else "status %s %s" % (p.returncode, p.stderr[:120].decode("utf8", "replace")))
                if why == "nocompile":
                    return {progs[0]: {i: ("nocompile",) for i in inputs}}
                if len(inputs) > 1:
                    # jq 1.6 died (assertion) or hung on some input: isolate input by input
                    r = {}
                    for i in inputs:
                        r.update(self._chunk(progs, [i], depth + 1)[progs[0]])
                    return {progs[0]: r}
                return {progs[0]: {inputs[0]: ("failed", why)}}
            mid = len(progs) // 2
            r = self._chunk(progs[:mid], inputs, depth + 1)
            r.update(self._chunk(progs[mid:], inputs, depth + 1))
            return r
        return res

    def _parse(self, progs, inputs, stdout):
        text = stdout.decode("utf8", "surrogateescape")    # jq 1.6 can emit invalid UTF-8 (e.g. @base64d of arbitrary text)
        lines = text.split("\n")
        if lines and lines[-1] == "":
            lines.pop()
        res = {p: {} for p in progs}
        pos = 0
        for inp in inputs:
            for k, prog in enumerate(progs):
                marker = '"\\u0001M%d"' % k
                if pos >= len(lines) or lines[pos] != marker:
                    return None
                pos += 1
                outs, e = [], None
                while pos < len(lines) and not lines[pos].startswith('"\\u0001M'):
                    ln = lines[pos]
                    pos += 1
                    if ln.startswith('{"\\u0001e":'):
                        val = ln[len('{"\\u0001e":'):-1]
                        if val.startswith('"'):
                            e = ["s", json.loads(val)]
                        else:
                            e = ["v", val]
                        break
                    outs.append(ln)
                res[prog][inp] = ("ok", outs, e)
        if pos != len(lines):
            return None
        return res

    def ensure(self, progs, inputs, nthreads=8, chunk=300, crashes=None):
        """Make sure every (prog, input) has an answer; runs jq 1.6 only for the missing programs.
        `crashes(prog, input)` -> True where jq 1.6 is known to abort (assertion): those pairs are not run."""
        inputs = list(inputs)
        missing = [p for p in progs if p not in self.data or any(i not in self.data[p] for i in inputs)]
        missing = list(dict.fromkeys(missing))
        if not missing:
            return 0
        groups = {}
        for p in missing:
            safe = tuple(i for i in inputs if not (crashes and crashes(p, i)))
            if len(safe) != len(inputs):
                d = self.data.setdefault(p, {})
                for i in inputs:
                    if i not in safe:
                        d[i] = ("failed", "jq 1.6 aborts here (assertion), not run")
            if safe:
                groups.setdefault(safe, []).append(p)
        work = []
        for safe, ps in groups.items():
            for i in range(0, len(ps), chunk):
                work.append((ps[i:i + chunk], list(safe)))
        with ThreadPoolExecutor(nthreads) as ex:
            results = list(ex.map(lambda w: self._chunk(w[0], w[1]), work))
        for r in results:
            for p, d in r.items():
                self.data.setdefault(p, {}).update(d)
                self.fresh_pairs += len(d)
        self.dirty = True
        return len(missing)

    def standalone(self, prog, inp):
        """One plain `jq -c PROG` run (used to validate the wrapping).  Returns an outcome in the same shape."""
        p = _run16(["-c", prog], (inp + "\n").encode("utf8"), timeout=20)
        self.spawns += 1
        if p is None:
            return ("failed", "timeout")
        if p.returncode == 3:
            return ("nocompile",)
        out = p.stdout.decode("utf8", "surrogateescape")
        errt = p.stderr.decode("utf8", "surrogateescape")
        outs = [l for l in out.split("\n") if l != ""]
        e = None
        if errt:
            pre = "jq: error (at <stdin>:1)"
            if not errt.startswith(pre):
                return ("failed", "stderr " + errt[:80])
            rest = errt[len(pre):]
            if rest.startswith(": "):
                e = ["s", rest[2:].rstrip("\n")]
            elif rest.startswith(" (not a string): "):
                e = ["v", rest[len(" (not a string): "):].rstrip("\n")]
            else:
                return ("failed", "stderr " + errt[:80])
        return ("ok", outs, e)


def model_outcome(prog, inp_text, compat16):
    """The model's answer in the witness's shape, or ("unsupported", why)."""
    try:
        v = jq171.parse_json(inp_text)
        outs, e = jq171.evaluate(prog, v, compat16)
        lines = [jq171.dump(o) for o in outs]
        if e is NOERR:
            err = None
        elif isinstance(e, jq171.LabelObj):
            return ("unsupported", "uncaught break")
        elif jq171.kind(e) == "string":
            err = ["s", e]
        else:
            jq171.check_output(e)
            err = ["v", jq171.dump(e)]
        return ("ok", lines, err, ("scalar-identity",) if jq171.interp(compat16).scalar_identity else ())
    except Unsupported as u:
        if compat16 and str(u).startswith("NOCOMPILE16:"):
            return ("nocompile",)       # documented change: the construct does not compile in 1.6
        return ("unsupported", str(u))
    except RecursionError:
        return ("unsupported", "recursion")


# ------------------------------------------------------------------------------- binding to jq 1.7.1 --

GOLDEN = os.path.join(common.REPO, "tests", "data", "jq-golden", "cases")
ERRTSV = os.path.join(common.REPO, "tests", "data", "jq-error-messages.tsv")


def bind_model(rep):
    """Replay every recorded jq-1.7.1 trace that lies inside the fragment; any miss is a machinery error."""
    ok = outside = 0
    misses = []
    reasons = {}
    names = sorted(os.listdir(GOLDEN))
    for name in names:
        d = os.path.join(GOLDEN, name)
        rd = lambda f: open(os.path.join(d, f), encoding="utf8").read()
        flt = rd("filter").rstrip("\n")
        args = []
        for a in rd("args").split("\n"):
            if a:
                args += a.split(" ") if a.startswith("--arg") else [a]
        inp, exp = rd("input.json"), rd("expected.out")
        est = int(rd("expected.status")) if os.path.exists(os.path.join(d, "expected.status")) else 0
        eerr = rd("expected.err") if os.path.exists(os.path.join(d, "expected.err")) else ""
        try:
            got = jq171.run_cli(flt, args, inp, flag_div=False)
        except Unsupported as u:
            outside += 1
            r = str(u).split("(")[0][:50]
            reasons[r] = reasons.get(r, 0) + 1
            continue
        if got == (exp, est, eerr):
            ok += 1
        else:
            misses.append(("golden:" + name, flt, got, (exp, est, eerr)))
    gold_ok, gold_out = ok, outside
    ok = outside = 0
    rows = 0
    with open(ERRTSV, encoding="utf8") as f:
        for line in f:
            if line.startswith("#") or not line.strip():
                continue
            rows += 1
            pid, flt, inp, msg = line.rstrip("\n").split("\t")
            try:
                got = jq171.run_cli(flt, ["-c"], inp + "\n", flag_div=False)
            except Unsupported as u:
                outside += 1
                r = str(u).split("(")[0][:50]
                reasons[r] = reasons.get(r, 0) + 1
                continue
            if got[1] == 5 and got[2] == "jq: error (at <stdin>:1): " + msg + "\n":
                ok += 1
            else:
                misses.append(("errtable:" + pid, flt, got, msg))
    if misses:
        raise common.Machinery("jq 1.7.1 model does not reproduce %d recorded trace(s) inside its fragment, e.g. %r" % (len(misses), misses[:3]))
    if gold_ok < 300 or ok < 150:
        raise common.Machinery("model binding too thin: %d golden / %d error rows inside the fragment" % (gold_ok, ok))
    rep.traces_validated = gold_ok + ok
    rep.extra["golden_traces_in_fragment"] = {"golden_cases": gold_ok, "error_table_rows": ok, "total": gold_ok + ok}
    rep.extra["golden_traces_outside_fragment"] = {"golden_cases": gold_out, "error_table_rows": outside, "total": gold_out + outside,
                                                   "of": {"golden_cases": len(names), "error_table_rows": rows},
                                                   "reasons": dict(sorted(reasons.items(), key=lambda kv: -kv[1])[:25])}
    return gold_ok + ok


# ------------------------------------------------------------------------------- program space --

def cli_prog(p):
    # a program text starting with '-' would be read as an option by jq and by succinctly alike
    return " " + p if p.startswith("-") else p


def programs(tier):
    """-> list of (space name, program, inputs, parts) ; parts = (a, b) for a pipe, (a, ctx) for a context, None for P(1)."""
    B = base_terms()
    out = []
    for p in B:
        out.append(("P1", p, INPUTS, None))
    for a in LITS:
        for b in LITS:
            for op in ARITH + CMP:
                out.append(("matrix", "%s %s %s" % (a, op, b), ["null"], ("matrix", a, op, b)))
    second = CORE_B if tier == "quick" else B
    qinputs = QUICK_INPUTS if tier == "quick" else THOROUGH_PIPE_INPUTS
    for a in B:
        for b in second:
            out.append(("P2-pipe", "%s | %s" % (a, b), qinputs, (a, b)))
    cinputs = QUICK_CTX_INPUTS if tier == "quick" else INPUTS
    for a in B:
        for c in CONTEXTS:
            out.append(("P2-context", c.replace("%s", a), cinputs, (a, c)))
    seen = set()
    res = []
    for t in out:
        if t[1] in seen:
            continue
        seen.add(t[1])
        res.append(t)
    return res


# ------------------------------------------------------------------------------- static divergence keys --

def _path_positions(ast, out):
    """Collect nodes evaluated in path-tracking position under `ast` (the argument of path()/del()/an assignment target)."""
    t = ast[0]
    out.append(ast)
    if t in ("pipe", "comma", "alt"):
        _path_positions(ast[1], out)
        _path_positions(ast[2], out)
    elif t in ("index", "iter", "slice", "paren", "neg"):
        _path_positions(ast[1], out)
    elif t == "try":
        _path_positions(ast[1], out)
    elif t == "trycatch":
        _path_positions(ast[1], out)
        _path_positions(ast[2], out)
    elif t == "if":
        _path_positions(ast[2], out)
        if ast[3] is not None:
            _path_positions(ast[3], out)
    elif t in ("as", "label"):
        _path_positions(ast[-1], out)
    elif t == "def":
        _path_positions(ast[4], out)
    elif t == "call":
        for a in ast[2]:
            _path_positions(a, out)
    elif t in ("reduce", "foreach"):
        pass


def _walk(ast, f):
    if isinstance(ast, tuple):
        f(ast)
        for x in ast:
            _walk(x, f)
    elif isinstance(ast, list):
        for x in ast:
            _walk(x, f)


def static_divergence(prog):
    """Documented divergence keyed on the program text alone, or None."""
    st, ast = jq171.parse_cached(prog)
    if st != "ok":
        return None
    hit = []

    def visit(n):
        tgt = None
        if n and n[0] == "call" and n[1] in ("path", "del", "paths", "leaf_paths", "to_entries_never") and len(n[2]) == 1 and n[1] in ("path", "del"):
            tgt = n[2][0]
        elif n and n[0] == "assign":
            tgt = n[2]
        if tgt is not None:
            nodes = []
            _path_positions(tgt, nodes)
            for m in nodes:
                if m[0] == "var" or m[0] in ("reduce", "foreach"):
                    hit.append("path-var-or-fold")
    _walk(ast, visit)
    return hit[0] if hit else None


# ------------------------------------------------------------------------------- observation & comparison --

import re as _re
_LOC = _re.compile(r"^jq: error \(at [^)]*\)")


def expected_cli(m):
    """model outcome ("ok", lines, err, flags) -> (values list, status, message suffix after the location prefix)"""
    lines, e = m[1], m[2]
    if e is None:
        return lines, "0", ""
    if e[0] == "s":
        return lines, "5", ": " + e[1]
    return lines, "5", " (not a string): " + e[1]


def observe(res):
    """succinctly result -> (json lines | None if unparseable, status, message suffix, raw stderr)"""
    code, out, errb = res
    try:
        text = out.decode("utf8")
        errt = errb.decode("utf8")
    except UnicodeDecodeError:
        return None, code, None, repr(errb[:200])
    lines = [l for l in text.split("\n") if l != ""]
    msg = ""
    if errt:
        first = errt.split("\n")[0]
        mm = _LOC.match(first)
        msg = first[mm.end():] if mm else "<<" + first
        if errt.count("\n") > 1:
            msg += "<<+%d lines" % (errt.count("\n") - 1)
    return lines, code, msg, errt


TRANSCENDENTAL = ("log", "exp", "sin", "cos", "tan", "asin", "acos", "atan", "sinh", "cosh", "tanh", "pow", "atan2", "exp2", "log2", "log10")
_WORD = _re.compile(r"[a-z0-9_]+")


def uses_libm(prog):
    """Does the program call a transcendental libm function?  Their last digits depend on the platform's libm, which the
    recorded jq-1.7.1 traces do not pin (the goldens round to 6 digits): such outputs are compared to 4 ulp."""
    return any(w in TRANSCENDENTAL for w in _WORD.findall(prog))


def _close(x, y, tol):
    if isinstance(x, bool) or isinstance(y, bool) or x is None or y is None:
        return x is y or x == y and type(x) == type(y)
    if isinstance(x, (int, float)) and isinstance(y, (int, float)):
        if x == y:
            return True
        return tol and abs(x - y) <= 8.9e-16 * max(abs(x), abs(y))
    if isinstance(x, list) and isinstance(y, list):
        return len(x) == len(y) and all(_close(a, b, tol) for a, b in zip(x, y))
    if isinstance(x, dict) and isinstance(y, dict):
        return x.keys() == y.keys() and all(_close(x[k], y[k], tol) for k in x)
    return x == y and type(x) == type(y)


def same_values(a_lines, b_lines, tol=False):
    """Same sequence of JSON values (objects unordered, numbers by value; `tol`: numbers to 4 ulp)."""
    if a_lines == b_lines:
        return True
    if b_lines is None or len(a_lines) != len(b_lines):
        return False
    try:
        for x, y in zip(a_lines, b_lines):
            if x != y and not _close(json.loads(x), json.loads(y), tol):
                return False
    except ValueError:
        return False
    return True


def kind_class(text):
    try:
        v = json.loads(text)
    except ValueError:
        return "?"
    if v is None:
        return "null"
    if isinstance(v, bool):
        return "boolean"
    if isinstance(v, (int, float)):
        return "number"
    if isinstance(v, str):
        return "empty-string" if v == "" else "string"
    if isinstance(v, list):
        return "empty-array" if not v else "array"
    return "empty-object" if not v else "object"


def diff_kind(exp, obs, tol=False):
    el, es, em = exp
    ol, oc, om, _ = obs
    if batch.crashed(oc) or oc not in ("0", "5"):
        return "status-%s" % oc
    if es == "5" and oc == "0":
        return "no-error(jq:error)"
    if es == "0" and oc == "5":
        return "error(jq:value)"
    if not same_values(el, ol, tol):
        if es == "5":
            return "outputs-before-error"
        return "value"
    if em != om:
        return "message"
    return "other"


def term_key(p):
    """Short structural name of a base term for signatures: builtin name / operator shape, never the whole text."""
    st, ast = jq171.parse_cached(p)
    if st != "ok":
        return "unparsed"
    names = []

    def visit(n):
        if not n:
            return
        if n[0] == "call":
            names.append("%s/%d" % (n[1], len(n[2])))
        elif n[0] == "format" or (n[0] == "str" and n[1]):
            names.append(n[1] + ("-string" if n[0] == "str" else ""))
        elif n[0] == "binop":
            names.append("op" + n[1])
        elif n[0] in ("assign",):
            names.append("assign" + n[1])
        elif n[0] in ("slice", "iter", "index", "reduce", "foreach", "trycatch", "try", "label", "if", "alt", "and", "or", "neg", "object",
                      "array", "as", "def"):
            names.append(n[0])
    _walk(ast, visit)
    seen = []
    for n in names:
        if n not in seen:
            seen.append(n)
    return "+".join(seen[:3]) or "identity"


# ------------------------------------------------------------------------------- judging one pair --



def sentence(msg):
    """An error message with every embedded JSON value blanked (<v>) and every type name blanked (<t>): it names the
    sentence (hence the raise site), never the input."""
    msg = (msg or "").strip()
    if msg.startswith(": "):
        msg = msg[2:]
    out = []
    i, n = 0, len(msg)
    while i < n:
        ch = msg[i]
        if ch == '"':
            j = i + 1
            while j < n and msg[j] != '"':
                if msg.startswith("...)", j) or (msg.startswith("...", j) and j + 3 == n):
                    j += 2
                    break
                j += 2 if msg[j] == "\\" else 1
            i = min(n, j + 1)
            out.append("<v>")
        elif ch in "[{":
            depth, j = 0, i
            while j < n:
                if msg[j] == '"':
                    j += 1
                    while j < n and msg[j] != '"' and not msg.startswith("...)", j) and not (msg.startswith("...", j) and j + 3 == n):
                        j += 2 if msg[j] == "\\" else 1
                    if j < n and msg[j] != '"':
                        j += 3
                        break
                elif msg[j] in "[{":
                    depth += 1
                elif msg[j] in "]}":
                    depth -= 1
                    if depth == 0:
                        j += 1
                        break
                elif msg.startswith("...", j):
                    j += 3
                    break
                j += 1
            i = j
            out.append("<v>")
        elif ch.isdigit() or (ch == "-" and i + 1 < n and msg[i + 1].isdigit()):
            j = i + 1
            while j < n and (msg[j].isdigit() or msg[j] in ".eE+-"):
                j += 1
            i = j
            out.append("<v>")
        else:
            m = _re.match(r"(null|boolean|number|string|array|object|true|false)\b", msg[i:])
            if m and (i == 0 or not msg[i - 1].isalnum()):
                out.append("<v>" if m.group(1) in ("true", "false") else "<t>")
                i += len(m.group(1))
            else:
                out.append(ch)
                i += 1
    s = "".join(out).replace("<v>...", "<v>").replace("<t> (<t>)", "<t> (<v>)")
    return _re.sub(r"\s+", " ", s)[:90]


def model_both(prog, inp):
    """(1.7.1-mode outcome, compat16-mode outcome).  The second evaluation is skipped when the first never touched
    anything on the documented change list (the interpreter records that)."""
    m = model_outcome(prog, inp, False)
    if m[0] == "ok" and not jq171.interp(False).sens:
        return m, m
    if m[0] == "unsupported":
        return m, None
    return m, model_outcome(prog, inp, True)


_SD_CACHE = {}


def static_divergence_cached(prog):
    r = _SD_CACHE.get(prog, 0)
    if r == 0:
        r = _SD_CACHE[prog] = static_divergence(prog)
    return r


class Judge:
    """Holds the witness; judges (program, input, succinctly result) triples."""

    def __init__(self, witness):
        self.W = witness

    def judge(self, prog, inp, res, both=None):
        """-> (status, info).  status: outside | excluded | agree | agree-undet | fail | fail-undet"""
        m, m16 = both if both is not None else model_both(prog, inp)
        if m[0] == "unsupported":
            why = m[1]
            if why.startswith("DIVERGENCE:"):
                return "excluded", why[len("DIVERGENCE:"):]
            return "outside", why.split("(")[0].strip()[:48]
        sd = static_divergence_cached(prog)
        if sd:
            return "excluded", sd
        if m[2] and m[2][0] == "s" and m[2][1].startswith("Invalid path expression near attempt to"):
            return "excluded", "path-near-attempt-wording"
        exp = expected_cli(m)
        obs = observe(res)
        same = same_values(exp[0], obs[0], uses_libm(prog)) and exp[1] == obs[1] and exp[2] == obs[2]
        w = self.W.get(prog, inp)
        if m16[0] == "nocompile":
            det = w is not None and w[0] == "nocompile"
        else:
            det = (m16[0] == "ok" and w is not None and w[0] == "ok" and m16[1] == list(w[1]) and m16[2] == w[2])
        if same:
            return ("agree" if det else "agree-undet"), (m, None)
        return ("fail" if det else "fail-undet"), (m, exp, obs, w, m16)


GENERIC_SENTENCES = ("Cannot index", "Cannot iterate", "Cannot use", "Cannot check", "Invalid path", "expected <t>", "<t> (<v>) has no",
                     "<t> (<v>) cannot be", "<t> (<v>) and <t> (<v>) cannot be added", "<t> (<v>) and <t> (<v>) cannot be subtracted",
                     "<t> (<v>) and <t> (<v>) cannot be multiplied", "<t> (<v>) and <t> (<v>) cannot be divided",
                     "<t> (<v>) <t> required", "<t> not a", "<t> (<v>) is not")
LIBM1 = {"floor", "ceil", "round", "sqrt", "fabs", "trunc", "log", "log2", "log10", "exp", "exp2", "sin", "cos", "tan", "asin", "acos",
         "atan", "sinh", "cosh", "tanh"}


def family(tk):
    """Collapse builtins that share one implementation site (the unary / binary libm wrappers) into one name."""
    parts = []
    for p in tk.split("+"):
        nm = p.split("/")[0]
        if nm in LIBM1 and p.endswith("/0"):
            p = "libm-unary"
        elif nm in ("pow", "atan2") and p.endswith("/2"):
            p = "libm-binary"
        if p not in parts:
            parts.append(p)
    return "+".join(parts)


def _has_node(prog, pred):
    st, ast = jq171.parse_cached(prog)
    hit = []
    if st == "ok":
        _walk(ast, lambda n: hit.append(1) if n and pred(n) else None)
    return bool(hit)


def base_signature(prog_for_key, on_text, exp, obs, prog_full, flags=(), ctx=None):
    """Signature of a disagreement attributed to `prog_for_key` applied to the value `on_text`: the raise site / construct
    and the kind of disagreement - one root cause, one signature; never the input itself."""
    tol = uses_libm(prog_full)
    dk = diff_kind(exp, obs, tol)
    raw = obs[3] or ""
    if dk.startswith("status-"):
        if "compile error" in raw or "parse error" in raw:
            if _has_node(prog_full, lambda n: n[0] == "str" and n[1]):
                return "parse:format-string-interpolation"
            return "parse:" + term_key(prog_for_key)
        return "%s:%s" % (dk, term_key(prog_for_key))
    if _has_node(prog_for_key, lambda n: n[0] == "neg" and isinstance(n[1], tuple) and n[1][0] == "binop" and n[1][1] in "*/%"):
        return "unary-minus:binds-tighter-than-multiplication"
    if "scalar-identity" in flags and (obs[2] or "").startswith(": Invalid path expression"):
        return "path:jq-accepts-null-or-boolean-result-identical-to-input"
    tk = family(term_key(prog_for_key))
    where = (ctx + ":" if ctx else "")
    if (obs[2] or "").startswith(": Invalid path expression with result") and not exp[2].startswith(": Invalid path expression"):
        # jq resolves the filter as a path (or fails later, inside the write); succinctly's path resolver has no arm for it
        return "path-resolver-refuses:%s" % tk
    if dk == "message":
        se, so = sentence(exp[2]), sentence(obs[2])
        if se == so:
            a, b = exp[2], obs[2]
            how = "truncation-width" if (a.rstrip(".").startswith(b.rstrip(".")) or b.rstrip(".").startswith(a.rstrip("."))) else "embedded-value"
            return "message:%s:%s" % (how, so)
        if so.startswith(GENERIC_SENTENCES):
            return "message:%s:[succinctly] %s" % (tk, so)      # a sentence many raise sites share: name the builtin too
        return "message:[succinctly] %s" % so
    if dk == "error(jq:value)":
        return "%s%s:errors-where-jq-answers:%s" % (where, tk, sentence(obs[2]))
    if dk == "no-error(jq:error)":
        return "%s%s:answers-where-jq-errors:%s" % (where, tk, sentence(exp[2]))
    if dk in ("value", "outputs-before-error"):
        if same_values(exp[0], obs[0], True):
            return "%s%s:float-result-off-in-last-digits" % (where, tk)
        return "%s%s:%s:on-%s" % (where, tk, dk, kind_class(on_text) if on_text is not None else "literal")
    return "%s%s:%s" % (where, tk, dk)


# ------------------------------------------------------------------------------- shard worker --

G = {}   # set in the parent before forking: witness, P(1) verdicts, keep-set


def _job(prog, inp):
    return (["jq", "-c", cli_prog(prog)], (inp + "\n").encode("utf8"))


def _children(inp_text):
    try:
        v = json.loads(inp_text)
    except ValueError:
        return []
    kids = v if isinstance(v, list) else (list(v.values()) if isinstance(v, dict) else [])
    out = []
    for k in kids:
        t = json.dumps(k, ensure_ascii=False, separators=(",", ":"))
        if t not in out:
            out.append(t)
    return out[:6]


ELEMENTWISE = ("map(%s)", "[.[]? | %s]")


_INDEP = {}


def input_independent(prog):
    """Does the oracle give this term the same answer on three very different inputs?  Then the kind of the input says
    nothing about the disagreement and is left out of the signature."""
    r = _INDEP.get(prog)
    if r is None:
        outs = [model_outcome(prog, i, False)[:3] for i in ("null", "[1,2,3]", '{"a":1,"b":[1,2]}', '"a,b"', "1")]
        r = _INDEP[prog] = outs[0][0] == "ok" and all(o == outs[0] for o in outs)
    return r


def _outputs_nonfinite(a, inp):
    try:
        outs, _ = jq171.evaluate(a, jq171.parse_json(inp), False)
    except Unsupported:
        return False
    def bad(o):
        if isinstance(o, float):
            return o != o or o in (float("inf"), float("-inf"))
        if isinstance(o, list):
            return any(bad(x) for x in o)
        if isinstance(o, dict):
            return any(bad(x) for x in o.values())
        return False
    return any(bad(o) for o in outs)


def composite_signature(space, prog, inp, parts, exp, obs, flags):
    """Signature of a disagreement that no sub-program shows on its own."""
    if space == "matrix" and parts and parts[0] == "matrix":
        _, a, op, b = parts
        sig = base_signature(prog, None, exp, obs, prog, flags)
        if sig.startswith(("message:[", "unary-minus", "parse:", "status-")):
            return sig
        ka, kb = kind_class(a).replace("empty-", ""), kind_class(b).replace("empty-", "")
        if op in CMP:
            return "compare:%s:%s" % (",".join(sorted((ka, kb))), diff_kind(exp, obs))
        return "arithmetic:%s:%s,%s:%s" % (op, ka, kb, sig.split(":", 1)[1] if ":" in sig else sig)
    if space == "P2-pipe":
        known_b = G.get("p1_fail", {}).get((parts[1], "null"))
        if known_b and input_independent(parts[1]):
            return known_b      # the second stage ignores its input and already disagrees on its own
        if _outputs_nonfinite(parts[0], inp):
            # the second stage receives infinite / nan, which cannot be fed in as an input document
            sig0 = base_signature(parts[1], None, exp, obs, prog, flags)
            if sig0.startswith(("parse:", "unary-minus", "message:[", "path")):
                return sig0          # the raise site / construct already names the root cause
            return "nonfinite-number:%s:%s" % (family(term_key(parts[1])), diff_kind(exp, obs, uses_libm(prog)))
        sig = base_signature(parts[1], None, exp, obs, prog, flags, ctx="after " + term_key(parts[0]))
    elif space == "P2-context":
        sig = base_signature(parts[0], None if input_independent(parts[0]) else inp, exp, obs, prog, flags,
                             ctx="in " + parts[1].replace("%s", "_").replace(" ", ""))
    else:
        sig = base_signature(prog, None if input_independent(prog) else inp, exp, obs, prog, flags)
    return sig


def _example(prog, inp, info, basis_prog, basis_inp, sig):
    m, exp, obs, w, m16 = info
    return {"kind": "cli", "program": prog, "input": inp, "argv": ["jq", "-c", cli_prog(prog)], "stdin_hex": (inp + "\n").encode("utf8").hex(),
            "jq171_model": {"stdout": exp[0], "status": exp[1], "message": exp[2]},
            "succinctly": {"stdout": obs[0], "status": obs[1], "message": obs[2]},
            "jq16": (list(w) if w else None), "jq16_model": list(m16),
            "basis_program": basis_prog, "basis_input": basis_inp, "signature_hint": sig}


def _example_full(space, parts, *a):
    ex = _example(*a)
    ex["space"] = space
    ex["parts"] = list(parts) if parts else None
    return ex


def process_shard(arg):
    sid, items = arg[0], arg[1]
    if len(arg) > 2:
        # forked worker: a small private witness pre-filled with this shard's cached answers (the parent's big cache
        # is never touched here, so no copy-on-write traffic)
        W = Witness.__new__(Witness)
        W.version, W.data, W.loaded, W.fresh_pairs, W.spawns, W.dirty = G["jq16_version"], arg[2], 0, 0, 0, False
    else:
        W = G["witness"]
    J = Judge(W)
    p1_fail = G.get("p1_fail", {})
    keep = G.get("keep")
    out = {"counts": {}, "fails": {}, "undet": {}, "excluded": {}, "outside": {}, "stale": {}, "distinct": set(), "newwit": {},
           "jobs": 0, "spawns": 0, "samples": [], "wit_fresh": 0, "propagated": 0}

    def bump(d, k, n=1):
        d[k] = d.get(k, 0) + n

    jobs, meta = [], []
    for (space, prog, inputs, parts) in items:
        for inp in inputs:
            jobs.append(_job(prog, inp))
            meta.append((space, prog, inp, parts))
    tm = out["tm"] = {"batch": 0.0, "model": 0.0, "witness": 0.0, "judge": 0.0, "attribute": 0.0}
    _t = time.time()
    res = batch.runbatch(jobs, nproc=G.get("batch_procs", 1), tag="c24s%d" % sid)
    tm["batch"] += time.time() - _t
    out["jobs"] += len(jobs)
    progs = list(dict.fromkeys(p for (_, p, _, _) in items))
    before = W.spawns
    fresh_before = W.fresh_pairs
    boths = {}
    _t = time.time()
    for (space, prog, inp, parts) in meta:
        boths[(prog, inp)] = model_both(prog, inp)
    tm["model"] += time.time() - _t

    def crashes(p, i):
        b = boths.get((p, i))
        o = b[1] if b is not None else model_outcome(p, i, True)
        return o is not None and o[0] == "unsupported" and "asserts in 1.6" in o[1]
    nc = G.get("nocompile_terms") or ()
    for (space, prog, inputs, parts) in items:
        if parts is not None and space != "matrix" and (parts[0] in nc or (space == "P2-pipe" and parts[1] in nc)):
            d = W.data.setdefault(prog, {})
            for i in inputs:
                d.setdefault(i, ("nocompile",))
    # programs of one shard share their input list within a sub-space: one bulk jq 1.6 run per distinct input list
    by_inputs = {}
    for (space, prog, inputs, parts) in items:
        by_inputs.setdefault(tuple(inputs), []).append(prog)
    _t = time.time()
    for inputs, ps in by_inputs.items():
        W.ensure(list(dict.fromkeys(ps)), list(inputs), nthreads=G.get("wit_threads", 1), chunk=400, crashes=crashes)
    tm["witness"] += time.time() - _t
    _t = time.time()
    if keep is not None and W.fresh_pairs != fresh_before:
        for p in progs:
            if p in keep and p in W.data:
                out["newwit"][p] = W.data[p]
    if G.get("return_jobs"):
        out["_jobs"], out["_res"] = jobs, res
    pending = []      # failing P2 pairs that need sub-pair attribution
    for (space, prog, inp, parts), r in zip(meta, res):
        status, info = J.judge(prog, inp, r, boths[(prog, inp)])
        c = out["counts"].setdefault(space, {})
        bump(c, status)
        if status == "outside":
            bump(out["outside"], info)
            continue
        if status == "excluded":
            bump(out["excluded"], info)
            continue
        m = info[0]
        out["distinct"].add(hash((tuple(m[1]), tuple(m[2]) if m[2] else None)))
        if status in ("agree", "agree-undet"):
            if len(out["samples"]) < 2 and space != "matrix" and m[1]:
                out["samples"].append({"program": prog, "input": inp, "jq171_model_stdout": m[1][:3], "status": status})
            continue
        pending.append((space, prog, inp, parts, status, info))
    tm["judge"] += time.time() - _t
    _t = time.time()
    # ---- attribution to the minimal sub-program ----
    need = {}    # (subprog, subinput) -> None
    plans = []
    for (space, prog, inp, parts, status, info) in pending:
        subs = []
        if parts is not None and space != "matrix":
            a = parts[0]
            if (a, inp) in p1_fail and space in ("P2-pipe", "P2-context"):
                plans.append((space, prog, inp, parts, status, info, ("p1", p1_fail[(a, inp)])))
                continue
            if space == "P2-pipe":
                ma = model_outcome(a, inp, False)
                if ma[0] == "ok":
                    vals = list(dict.fromkeys(ma[1]))[:6]
                    subs = [(parts[1], v) for v in vals if len(v) < 400]
            elif space == "P2-context" and parts[1] in ELEMENTWISE:
                subs = [(a, v) for v in _children(inp)]
        for s in subs:
            need[s] = None
        plans.append((space, prog, inp, parts, status, info, ("subs", subs)))
    if need:
        keys = list(need.keys())
        r2 = batch.runbatch([_job(p, v) for (p, v) in keys], nproc=1, tag="c24r%d" % sid)
        out["jobs"] += len(keys)
        by_input = {}
        for (p, v) in keys:
            by_input.setdefault(v, []).append(p)
        sub_progs = list(dict.fromkeys(p for (p, _) in keys))
        sub_inputs = list(by_input.keys())
        W2 = Witness.__new__(Witness)
        W2.version, W2.data, W2.loaded, W2.fresh_pairs, W2.spawns, W2.dirty = W.version, {}, 0, 0, 0, False
        W2.ensure(sub_progs, sub_inputs, nthreads=1,
                  crashes=lambda p, i: (lambda o: o[0] == "unsupported" and "asserts in 1.6" in o[1])(model_outcome(p, i, True)))
        out["spawns"] += W2.spawns
        J2 = Judge(W2)
        for (p, v), rr in zip(keys, r2):
            need[(p, v)] = J2.judge(p, v, rr)
    for (space, prog, inp, parts, status, info, plan) in plans:
        m, exp, obs, w, m16 = info
        sig = None
        basis = (prog, inp)
        if plan[0] == "p1":
            sig = plan[1]
            basis = (parts[0], inp)
            out["propagated"] += 1
        else:
            for s in plan[1]:
                st2, info2 = need[s]
                if st2 in ("fail", "fail-undet"):
                    sig = base_signature(s[0], None if input_independent(s[0]) else s[1], info2[1], info2[2], s[0], info2[0][3])
                    basis = s
                    break
            if sig is None:
                sig = composite_signature(space, prog, inp, parts, exp, obs, m[3])
        size = len(prog) * 1000 + len(inp)
        if space == "P1":
            out.setdefault("pairsig", {})[(prog, inp)] = sig
        ex = _example_full(space, parts, prog, inp, info, basis[0], basis[1], sig)
        target = out["fails"] if status == "fail" else out["undet"]
        f = target.get(sig)
        if f is None:
            target[sig] = {"count": 1, "size": size, "examples": [ex]}
        else:
            f["count"] += 1
            if size < f["size"]:
                f["size"] = size
                f["examples"].insert(0, ex)
                del f["examples"][3:]
            elif len(f["examples"]) < 3:
                f["examples"].append(ex)
    tm["attribute"] += time.time() - _t
    out["spawns"] += W.spawns - before
    out["wit_fresh"] = W.fresh_pairs - fresh_before
    return out


# ------------------------------------------------------------------------------- driver --

def _merge(tot, o):
    for sp, c in o["counts"].items():
        t = tot["counts"].setdefault(sp, {})
        for k, v in c.items():
            t[k] = t.get(k, 0) + v
    for name in ("excluded", "outside"):
        for k, v in o[name].items():
            tot[name][k] = tot[name].get(k, 0) + v
    for name in ("fails", "undet"):
        for sig, f in o[name].items():
            t = tot[name].get(sig)
            if t is None:
                tot[name][sig] = {"count": f["count"], "size": f["size"], "examples": list(f["examples"])}
            else:
                t["count"] += f["count"]
                if f["size"] < t["size"]:
                    t["size"] = f["size"]
                    t["examples"] = (list(f["examples"]) + t["examples"])[:3]
    tot["distinct"] |= o["distinct"]
    for k in ("jobs", "spawns", "wit_fresh", "propagated"):
        tot[k] += o[k]
    for s in o["samples"]:
        if len(tot["samples"]) < 6:
            tot["samples"].append(s)
    tot["newwit"].update(o["newwit"])
    for k, v in o.get("tm", {}).items():
        tot["tm"][k] = round(tot["tm"].get(k, 0.0) + v, 2)
    tot["pairsig"].update(o.get("pairsig", {}))


def _confirm(ex):
    """Re-run the failing pair as a real process; does the same disagreement with the oracle show?"""
    r = batch.spawn(ex["argv"], bytes.fromhex(ex["stdin_hex"]))
    obs = observe(r)
    got = {"stdout": obs[0], "status": obs[1], "message": obs[2]}
    return got == ex["succinctly"], got


def _wrap_selftest(W, pairs):
    bad = []
    for p, i in pairs:
        a = W.get(p, i)
        b = W.standalone(p, i)
        if a is None or a[0] == "failed" or b[0] == "failed":
            continue
        a2 = (a[0],) if a[0] != "ok" else ("ok", list(a[1]), a[2])
        b2 = (b[0],) if b[0] != "ok" else ("ok", list(b[1]), b[2])
        if a2 != b2:
            bad.append((p, i, a2, b2))
    if bad:
        raise common.Machinery("jq 1.6 bulk wrapping differs from plain runs on %d of %d pairs, e.g. %r" % (len(bad), len(pairs), bad[0]))
    return len(pairs)


def run(ctx):
    tier = ctx["tier"]
    rep = batch.Report()
    timing = {}
    t0 = time.time()
    batch.cli()
    timing["build_s"] = round(time.time() - t0, 2)
    if ctx["replay"]:
        return replay(ctx, rep)
    tb = time.time()
    bind_model(rep)
    timing["bind_s"] = round(time.time() - tb, 2)
    tb = time.time()
    W = Witness()
    timing["cache_load_s"] = round(time.time() - tb, 2)
    import gc
    gc.collect()
    gc.freeze()          # the cached jq 1.6 answers are millions of long-lived objects: keep the cyclic GC off them
    gc.set_threshold(5000, 50, 100)
    G.clear()
    G["witness"] = W
    quick_progs = set(p for (_, p, _, _) in programs("quick"))
    G["keep"] = quick_progs
    space = programs(tier)
    nproc = common.nproc()
    tot = {"counts": {}, "fails": {}, "undet": {}, "excluded": {}, "outside": {}, "distinct": set(), "newwit": {}, "jobs": 0,
           "spawns": 0, "samples": [], "wit_fresh": 0, "propagated": 0, "pairsig": {}, "tm": {}}
    # phase 1: P(1) and the operator matrix, in this process (its jobs feed the batch/spawn equivalence self-test)
    t1 = time.time()
    p1_items = [t for t in space if t[0] in ("P1", "matrix")]
    G["batch_procs"], G["wit_threads"], G["return_jobs"] = nproc, 8, True
    o = process_shard((0, p1_items))
    confirmed = batch.selftest(o["_jobs"], o["_res"], n=100)
    _merge(tot, o)
    slice_ = [(t[1], t[2][k % len(t[2])]) for k, t in enumerate(p1_items) if t[0] == "P1"][::7][:60]
    wrapped_checked = _wrap_selftest(W, slice_)
    timing["p1_s"] = round(time.time() - t1, 2)
    # phase 2: P(2) in forked workers (each drives its own batch worker and its own jq 1.6 chunks)
    t2 = time.time()
    G["batch_procs"], G["wit_threads"], G["return_jobs"] = 1, 1, False
    G["p1_fail"] = dict(tot["pairsig"])
    G["nocompile_terms"] = set(p for p in base_terms() if any(v[0] == "nocompile" for v in W.data.get(p, {}).values()))
    p2 = [t for t in space if t[0] not in ("P1", "matrix")]
    per = 600
    G["jq16_version"] = W.version
    shards = []
    for k, i in enumerate(range(0, len(p2), per)):
        its = p2[i:i + per]
        shards.append((k + 1, its, {t[1]: W.data[t[1]] for t in its if t[1] in W.data}))
    s = common.seed() % max(1, len(shards))
    shards = shards[s:] + shards[:s]
    capped = None
    if shards:
        import multiprocessing
        cap_s = 50 * 60 if tier == "quick" else 13 * 60
        done = 0
        with multiprocessing.get_context("fork").Pool(nproc) as pool:
            for o in pool.imap_unordered(process_shard, shards):
                _merge(tot, o)
                done += 1
                if time.time() - t0 > cap_s and done < len(shards):
                    capped = "wall cap: %d of %d P(2) shards explored" % (done, len(shards))
                    pool.terminate()
                    break
    timing["p2_s"] = round(time.time() - t2, 2)
    # persist the witness answers of the quick space
    t3 = time.time()
    for p, d in tot["newwit"].items():
        W.data.setdefault(p, {}).update(d)
    if tot["wit_fresh"] or W.dirty:
        W.dirty = True
        W.save(keep=quick_progs)
    # ---- report ----
    notes = {"P1": "every base term x every input", "matrix": "every arithmetic/comparison operator on every ordered pair of 15 literal representatives (-n style, input null)",
             "P2-pipe": "a | b, a in the base set, b in the %s" % ("core subset (quick)" if tier == "quick" else "base set"),
             "P2-context": "every base term in each of the %d unary contexts" % len(CONTEXTS)}
    judged = und = excl = outside = 0
    for sp, c in tot["counts"].items():
        rep.space(sp, True, notes.get(sp, ""))
        n = sum(c.values())
        rep.input(n)
        j = c.get("agree", 0) + c.get("fail", 0)
        rep.trans(j)
        rep.evals(n - j)
        judged += j
        und += c.get("agree-undet", 0) + c.get("fail-undet", 0)
        excl += c.get("excluded", 0)
        outside += c.get("outside", 0)
        rep.subspaces[sp].update({k: v for k, v in c.items()})
    if capped:
        rep.caps.append(capped)
        for sp in ("P2-pipe", "P2-context"):
            if sp in rep.subspaces:
                rep.subspaces[sp]["exhaustive"] = False
    rep.distinct = tot["distinct"]
    for smp in tot["samples"]:
        rep.sample(smp)
    timing["cache_save_s"] = round(time.time() - t3, 2)
    t4 = time.time()
    unconfirmed = []
    for sig, f in sorted(tot["fails"].items()):
        ok_ex = None
        for ex in f["examples"][:3]:
            same, got = _confirm(ex)
            if same:
                ok_ex = ex
                break
        if ok_ex is None:
            unconfirmed.append(sig)
            continue
        rep.failures[sig] = {"signature": sig, "count": f["count"], "size": f["size"], "example": ok_ex}
    timing["confirm_s"] = round(time.time() - t4, 2)
    timing["total_s"] = round(time.time() - t0, 2)
    if unconfirmed:
        raise common.Machinery("batch observations not reproduced by real processes for %d signature(s), e.g. %s" % (len(unconfirmed), unconfirmed[0]))
    rep.traces_validated = rep.extra["golden_traces_in_fragment"]["total"]
    B = base_terms()
    rep.extra.update({
        "fragment": {"base_terms": len(B), "unary_contexts": len(CONTEXTS), "pipe_second_stages": len(CORE_B) if tier == "quick" else len(B),
                     "inputs": len(INPUTS), "inputs_pipes": len(QUICK_INPUTS) if tier == "quick" else len(THOROUGH_PIPE_INPUTS),
                     "inputs_contexts": len(QUICK_CTX_INPUTS) if tier == "quick" else len(INPUTS),
                     "matrix_literals": len(LITS), "programs": len(space)},
        "pairs": {"total": judged + und + excl + outside, "judged": judged, "oracle_undetermined": und,
                  "excluded_documented_divergence": excl, "outside_fragment": outside,
                  "disagreements_attributed_to_a_failing_prefix": tot["propagated"]},
        "excluded_by_divergence": dict(sorted(tot["excluded"].items(), key=lambda kv: -kv[1])),
        "outside_fragment_reasons": dict(sorted(tot["outside"].items(), key=lambda kv: -kv[1])[:30]),
        "oracle_undetermined_disagreements": {sig: {"count": f["count"], "example": {k: f["examples"][0][k] for k in
                                                    ("program", "input", "jq171_model", "succinctly", "jq16")}}
                                              for sig, f in sorted(tot["undet"].items(), key=lambda kv: -kv[1]["count"])[:40]},
        "jq16": {"version": W.version, "cached_pairs_loaded": W.loaded, "fresh_pairs": tot["wit_fresh"], "spawns": tot["spawns"] + wrapped_checked,
                 "bulk_wrapping_checked_against_plain_runs": wrapped_checked},
        "documented_1.6_to_1.7.1_changes": jq171.CHANGES,
        "documented_divergences_table": DIVERGENCES,
        "batch_jobs": tot["jobs"], "batch_jobs_confirmed_by_real_spawns": confirmed,
        "timing": timing, "worker_seconds_by_phase": tot["tm"],
    })
    return rep.to_json()


def replay(ctx, rep):
    case = json.load(open(ctx["replay"]))["case"]
    prog, inp = case["program"], case["input"]
    bprog, binp = case.get("basis_program", prog), case.get("basis_input", inp)
    rep.space("replay")
    W = Witness.__new__(Witness)
    W.version, W.data, W.loaded, W.fresh_pairs, W.spawns, W.dirty = jq16_version(), {}, 0, 0, 0, False
    for (p, i) in {(prog, inp), (bprog, binp)}:
        W.data.setdefault(p, {})[i] = W.standalone(p, i)
    J = Judge(W)
    seen = []
    for _ in range(2):
        r = batch.spawn(*_job(prog, inp))
        rb = batch.spawn(*_job(bprog, binp))
        seen.append((r, rb))
    if seen[0] != seen[1]:
        raise common.Machinery("replay not deterministic")
    r, rb = seen[0]
    rep.input()
    rep.trans(2)
    st, info = J.judge(prog, inp, r)
    if st in ("fail", "fail-undet"):
        sig = None
        if (bprog, binp) != (prog, inp):
            stb, infob = J.judge(bprog, binp, rb)
            if stb in ("fail", "fail-undet"):
                sig = base_signature(bprog, None if input_independent(bprog) else binp, infob[1], infob[2], bprog, infob[0][3])
        if sig is None:
            sp = case.get("space", "P1")
            parts = tuple(case["parts"]) if case.get("parts") else None
            sig = composite_signature(sp, prog, inp, parts, info[1], info[2], info[0][3])
        rep.fail(sig, 0, _example(prog, inp, info, bprog, binp, sig))
    return rep.to_json()
