"""C29 (CLI side) — `yq-locate` prints an expression that the `jq` command evaluates to the located node.

The library side (every offset of every token of the generated space) runs in the Rust binary
`c29`. This module takes a hash-selected slice of the same (document, offset) pairs (the binary's
dump: document, offset, the library's expression, the JSON array of documents, the expected node
value and token value — expectations come from the generator's tree) and composes the real
commands through the `__verif-batch` hook:
  A  `succinctly yq-locate FILE --offset N`           -> an expression (must equal the library's)
  B  `succinctly jq -c EXPR` on the JSON array of documents -> must print the node's value
  C  `succinctly yq -o json -I 0 'at_offset(N)'` (single-document streams) -> the token's own value
"""
import json, os, hashlib
import batch, common

SLICE = {"quick": 600, "thorough": 1500}       # on top of the binary's 1-in-32 document pre-filter


def classify(expr, stage, cx="-"):
    if cx != "-":
        return "cli:loader-defect:" + cx      # construct the loader itself mis-reads (C14 findings)
    b = expr.encode()
    if any(b[i] == 0x5d and b[i + 1] == 0x2e and b[i + 2] >= 0x80 for i in range(len(b) - 2)):
        return "cli:jq-panics-on-located-expression:non-ascii-dot-name-after-bracket"
    return "cli:" + stage


def run(ctx):
    tier = ctx["tier"]
    rep = batch.Report()
    scratch = os.path.join(common.CACHE, "cases", f"c29-files-{os.getpid()}")
    os.makedirs(scratch, exist_ok=True)

    def file_for(doc):
        fn = os.path.join(scratch, hashlib.sha1(doc).hexdigest()[:16] + ".yaml")
        if not os.path.exists(fn):
            with open(fn, "wb") as f:
                f.write(doc)
        return fn

    def jobs_for(doc, off, expr):
        return [(["yq-locate", file_for(doc), "--offset", str(off)], b""),
                (["jq", "-c", expr], None),
                (["yq", "-o", "json", "-I", "0", f"at_offset({off})"], doc)]

    def judge(doc, off, lib_expr, docs_json, node_val, token_val, cx, rA, rB, rC):
        """returns list of (signature, example)"""
        out = []
        ex = {"kind": "cli", "doc_hex": doc.hex(), "doc": doc.decode("utf8", "replace"), "offset": off, "library_expression": lib_expr,
              "docs": json.loads(docs_json), "expected_node_value": json.loads(node_val), "expected_token_value": json.loads(token_val), "context": cx}
        cli_expr = rA[1].decode("utf8", "replace").rstrip("\n")
        if rA[0] != "0" or cli_expr != lib_expr:
            out.append(("cli:yq-locate:expression-differs-from-library", dict(ex, got={"status": rA[0], "stdout": cli_expr, "stderr": rA[2].decode("utf8", "replace")[:200]})))
            return out
        try:
            vals = [json.loads(l) for l in rB[1].decode().split("\n") if l] if rB[0] == "0" else None
        except Exception:  # noqa
            vals = None
        if vals != [json.loads(node_val)]:
            out.append((classify(cli_expr, "jq-on-located-expression:wrong-or-no-value", cx),
                        dict(ex, got={"status": rB[0], "stdout": rB[1].decode("utf8", "replace")[:200], "stderr": rB[2].decode("utf8", "replace")[:200]})))
        if rC is not None:
            try:
                tv = [json.loads(l) for l in rC[1].decode().split("\n") if l] if rC[0] == "0" else None
            except Exception:  # noqa
                tv = None
            if tv != [json.loads(token_val)]:
                out.append((classify("", "yq-at_offset:wrong-or-no-value", cx), dict(ex, got={"status": rC[0], "stdout": rC[1].decode("utf8", "replace")[:200], "stderr": rC[2].decode("utf8", "replace")[:200]})))
        return out

    try:
        if ctx["replay"]:
            case = json.load(open(ctx["replay"]))["case"]
            doc = bytes.fromhex(case["doc_hex"]); off = case["offset"]
            docs_json = json.dumps(case["docs"], ensure_ascii=False)
            rep.space("replay"); rep.input(); rep.trans(3)
            single = len(case["docs"]) == 1
            obs = []
            for _ in range(2):
                jA, _, jC = jobs_for(doc, off, case["library_expression"])
                rA = batch.spawn(*jA)
                rB = batch.spawn(["jq", "-c", rA[1].decode("utf8", "replace").rstrip("\n")], docs_json.encode())
                rC = batch.spawn(*jC) if single else None
                obs.append(judge(doc, off, case["library_expression"], docs_json, json.dumps(case["expected_node_value"]), json.dumps(case["expected_token_value"]), case.get("context", "-"), rA, rB, rC))
            if [s for s, _ in obs[0]] != [s for s, _ in obs[1]]:
                raise common.Machinery("replay not deterministic")
            for sig, ex in obs[0]:
                rep.fail(sig, 0, ex)
            return rep.to_json()
        path = common.build_bin("c29")
        dump = os.path.join(common.CACHE, "cases", f"c29-{tier}-{os.getpid()}.txt")
        try:
            common.run_bin(path, tier, extra_args=["--dump-cases", dump, "--dump-mod", str(SLICE[tier]), "--dump-only"], timeout=1800)
            with open(dump) as f:
                rows = [l.split("\t") for l in f.read().split("\n") if l]
        finally:
            try:
                os.remove(dump)
            except OSError:
                pass
        rows = sorted(set(tuple(r) for r in rows))
        items = [(bytes.fromhex(h), int(off), bytes.fromhex(eh).decode("utf8"), dj, nv, tv, cx) for h, off, eh, dj, nv, tv, cx in rows]
        jobsA = [jobs_for(d, o, e)[0] for d, o, e, *_ in items]
        resA = batch.runbatch(jobsA, tag="c29a")
        jobsB = [(["jq", "-c", (r[1].decode("utf8", "replace").rstrip("\n") or ".")], it[3].encode()) for it, r in zip(items, resA)]
        resB = batch.runbatch(jobsB, tag="c29b")
        singles = [i for i, it in enumerate(items) if len(json.loads(it[3])) == 1]
        jobsC = [jobs_for(items[i][0], items[i][1], items[i][2])[2] for i in singles]
        resC = batch.runbatch(jobsC, tag="c29c")
        rc = dict(zip(singles, resC))
        rep.traces_validated = batch.selftest(jobsA + jobsB + jobsC, resA + resB + resC, n=45)
        rep.extra["batch_jobs_confirmed_by_real_spawns"] = rep.traces_validated
        rep.space("cli/locate->jq", True, f"hash-selected slice (1 in {32 * SLICE[tier]}) of the (document, offset) pairs of the library exploration: yq-locate FILE --offset N, then jq EXPR on the JSON array of documents; at_offset(N) through yq for single-document streams")
        candidates, confirmed = {}, {}
        for i, it in enumerate(items):
            rep.input(); rep.trans(3 if i in rc else 2); rep.seen((it[0], it[1]))
            found = judge(*it, resA[i], resB[i], rc.get(i))
            for sig, _ in found:
                candidates[sig] = candidates.get(sig, 0) + 1
            if found and any(confirmed.get(sig, 0) < 3 for sig, _ in found):
                # confirm with real processes before reporting (at most 3 per signature: spawns are scarce)
                jA, _, jC = jobs_for(it[0], it[1], it[2])
                rA = batch.spawn(*jA)
                rB = batch.spawn(["jq", "-c", rA[1].decode("utf8", "replace").rstrip("\n") or "."], it[3].encode())
                rC = batch.spawn(*jC) if i in rc else None
                for sig, ex in judge(*it, rA, rB, rC):
                    confirmed[sig] = confirmed.get(sig, 0) + 1
                    rep.fail(sig, len(it[0]) * 1000 + it[1], ex)
        for sig, f in rep.failures.items():
            f["count"] = max(f["count"], candidates.get(sig, 0))
        unconfirmed = sorted(set(candidates) - set(confirmed))
        if unconfirmed:
            raise common.Machinery(f"batch candidates not reproduced by real processes: {unconfirmed}")
        rep.extra["cli_candidates_by_signature"] = candidates
        if items:
            it = items[len(items) // 2]
            rep.sample({"doc": it[0].decode("utf8", "replace"), "offset": it[1], "yq-locate prints": it[2], "jq on the documents array must give": json.loads(it[4])})
        return rep.to_json()
    finally:
        import shutil
        shutil.rmtree(scratch, ignore_errors=True)
