SPEC = dict(
    kind="rust",
    bins=rust("c06"),
    design_ref="§3-C06",
    technique="bounded-exhaustive enumeration (S2) of all JSON documents J(n) with recorded spans x all whitespace placements, plus scale families (S3); "
              "full tree walk through the public API against the generator's token tree",
    rule="a case = one document text: every tree with <= n value nodes over the leaf/key alphabets (n and alphabet per sub-space, see subspaces) "
         "rendered with a whitespace pattern in all gaps or in exactly one gap; distinct_nontrivial counts distinct trees per sub-space "
         "(whitespace variants are counted in states); every document has at least one token and all its nodes are compared",
    level_text="For every document of the bounded space, every node reached by first_child/next_sibling/children()/fields/elements/get/get_fast/"
               "cursor_iter is compared with the generator's record: token start, byte range, raw bytes, kind, decoded string (all escape forms incl. "
               "surrogate pairs), number spelling, as_f64 (exactly known double) and as_i64, parent, sibling order, object fields in source order with "
               "duplicates, find/find_cursor = last occurrence by decoded name (and None for absent names), and the value materialised from the root. "
               "Scale families take nesting to 33 000, arrays to 100 000 elements, a 1 MiB string and a > 1 MiB document.",
    level_note="Thorough: J(3) full alphabet x 6 uniform patterns and every single-gap placement; J(4) full alphabet x 1 pattern; J(4) reduced alphabet "
               "x all placements; J(5) reduced x 2 patterns; J(6) tiny alphabet. Oracle = generator spans/values only (self-tested against serde_json on "
               "every 11th tree). as_i64 is only required to be exact when it answers for non-integer literals (it may refuse).",
    assumptions=["documents with more than 6 value nodes are covered only by the parametric families",
                 "is_container() is documented as 'has BP children' (false for empty containers) and is not part of the statement"],
)
