import itertools, json, re, sys
RESERVED={'null','Null','NULL','~','true','True','TRUE','false','False','FALSE',''}
PLAIN=re.compile(r'^[A-Za-z_\u00a1-\u2027\u2030-\ud7ff\U00010000-\U0010ffff][A-Za-z0-9_\u00a1-\u2027\u2030-\ud7ff\U00010000-\U0010ffff]*( [A-Za-z0-9_\u00a1-\u2027\u2030-\ud7ff\U00010000-\U0010ffff]+)*$')
def plain_ok(s): return bool(PLAIN.fullmatch(s)) and s not in RESERVED
def printable(c): o=ord(c); return (0x20<=o<0x7f) or o==9 or (0xa0<=o<0x2028) or (0x2030<=o<0xd800) or (0xe000<=o<0xfffe and o!=0xfeff) or o>=0x10000
def sq_ok(s): return all(printable(c) and c!='\t' for c in s)
def dq(s, esc_nonascii=False):
    out=['"']
    for c in s:
        o=ord(c)
        if c=='"': out.append('\\"')
        elif c=='\\': out.append('\\\\')
        elif c=='\n': out.append('\\n')
        elif c=='\r': out.append('\\r')
        elif c=='\t': out.append('\\t')
        elif o==0: out.append('\\0')
        elif o<0x20 or o==0x7f: out.append('\\x%02x'%o)
        elif o in (0x85,0x2028,0x2029,0xfeff) or (0x80<=o<0xa0): out.append('\\u%04x'%o)
        elif esc_nonascii and o>0x7f: out.append('\\u%04x'%o if o<0x10000 else '\\U%08x'%o)
        else: out.append(c)
    out.append('"'); return ''.join(out)
def sq(s): return "'"+s.replace("'","''")+"'"
def inline_scalar_forms(node, ctx):
    t=node[0]
    if t=='int':
        i=node[1]; f=[str(i)]
        if i>=0 and ctx!='key': f+=[hex(i), '0o%o'%i]
        return f
    if t=='bool': return (['true','True','TRUE'] if node[1] else ['false','False','FALSE'])
    if t=='null':
        f=['null','Null','NULL','~']
        if ctx=='blockval': f.append('')
        return f
    s=node[1]; f=[dq(s)]
    if any(ord(c)>0x7f for c in s): f.append(dq(s,True))
    if sq_ok(s): f.append(sq(s))
    if plain_ok(s): f.append(s)
    return f
def block_scalar_forms(s):
    """returns list of (header, content_lines) for literal/folded, content unindented"""
    out=[]
    if s=='' or any((not printable(c) or c=='\t') and c!='\n' for c in s) : return out
    body=s.rstrip('\n'); trail=len(s)-len(body)
    if body=='' : return out
    lines=body.split('\n')
    if any(l!='' and l.strip(' ')=='' for l in lines): return out
    chomp='-' if trail==0 else ('' if trail==1 else '+')
    ind='' 
    first=next(l for l in lines if l!='')
    needs_ind= first.startswith(' ') or lines[0]==''
    out.append(('|%s%s'%('%IND%' if needs_ind else '',chomp), lines+['']*(trail-1 if trail>1 else 0), chomp))
    # folded forms
    if trail==0 and not needs_ind and all(l!='' and not l.startswith(' ') and not l.endswith(' ') for l in lines):
        if len(lines)==1:
            out.append(('>-',lines,'-'))
            if ' ' in lines[0]:
                a,b=lines[0].split(' ',1)
                if a and b and not b.startswith(' '): out.append(('>-',[a,b],'-'))
        else:
            fl=[]
            for i,l in enumerate(lines):
                if i: fl.append('')
                fl.append(l)
            out.append(('>-',fl,'-'))
    return out
def key_forms(k):
    f=[dq(k)]
    if sq_ok(k): f.append(sq(k))
    if plain_ok(k): f.append(k)
    return f
def flow(node):
    t=node[0]
    if t=='map':
        parts=[[kf+': '+vf for kf in key_forms(k) for vf in flow(v)] for k,v in node[1]]
        return ['{'+', '.join(c)+'}' for c in itertools.product(*parts)] if parts else ['{}']
    if t=='seq':
        parts=[flow(v) for v in node[1]]
        return ['['+', '.join(c)+']' for c in itertools.product(*parts)] if parts else ['[]']
    return [x for x in inline_scalar_forms(node,'flow') ]
STEP=2
def block(node, indent, step=STEP):
    """yield list-of-lines renderings of node as a block node whose lines are indented by `indent`"""
    t=node[0]; pad=' '*indent
    if t=='map' and node[1]:
        per=[]
        for k,v in node[1]:
            opts=[]
            for kf in key_forms(k):
                for tail in value_tails(v, indent, step):
                    opts.append([pad+kf+':'+tail[0]]+tail[1:])
                # explicit key form
            if v[0] in ('str','int','bool','null'):
                for kf in key_forms(k)[:1]:
                    for vf in inline_scalar_forms(v,'flow')[:1]:
                        opts.append([pad+'? '+kf, pad+': '+vf])
            per.append(opts)
        for combo in itertools.product(*per):
            yield [l for part in combo for l in part]
    elif t=='seq' and node[1]:
        per=[]
        for v in node[1]:
            opts=[]
            for tail in value_tails(v, indent, step, seqitem=True):
                opts.append([pad+'-'+tail[0]]+tail[1:])
            per.append(opts)
        for combo in itertools.product(*per):
            yield [l for part in combo for l in part]
    else:
        for f in flow(node): yield [pad+f]
def value_tails(v, indent, step, seqitem=False):
    """renderings of a value following 'key:' or '-': list of [first_line_suffix, more lines...]"""
    t=v[0]; out=[]
    if t in ('str','int','bool','null'):
        for f in inline_scalar_forms(v,'blockval'):
            out.append([(' '+f) if f!='' else ''])
            if f!='' : out.append([' '+f+' # c'])
        if t=='str':
            for hdr,lines,chomp in block_scalar_forms(v[1]):
                h=hdr.replace('%IND%',str(step))
                out.append([' '+h]+[(' '*(indent+step)+l if l!='' else '') for l in lines])
    else:
        if not v[1]:
            out.append([' '+('{}' if t=='map' else '[]')])
        else:
            for f in flow(v)[:4]: out.append([' '+f])
            for r in block(v, indent+step, step):
                out.append(['']+r)
                if seqitem or True:
                    # compact: first line joined after '- ' (only valid for seq items with step 2) 
                    if seqitem and step==2: out.append([' '+r[0].lstrip(' ')]+r[1:])
            if t=='seq' and not seqitem:
                for r in block(v, indent, step): out.append(['']+r)   # unindented sequence under a key
    return out
def to_py(n):
    t=n[0]
    if t=='map': return {k:to_py(v) for k,v in n[1]}
    if t=='seq': return [to_py(v) for v in n[1]]
    if t=='null': return None
    return n[1]
