//! J(n): bounded-exhaustive generator of *valid* JSON documents with recorded
//! byte spans (shared by C05 C06 C07 C28 C31 C32).
//!
//! * `Alphabet` — leaf spellings (with their exactly known values) and key
//!   spellings (with their decoded names).
//! * `Space::new(alpha, maxn)` — every tree with `1..=maxn` value nodes (keys
//!   are not counted), addressable by index (`tree(i)`), so the space can be
//!   sharded with `par_range` and nothing is sampled.
//! * `render(alpha, tree, ws)` — the document text plus, for every node of the
//!   *token tree* (values and keys, in source order = preorder), its span,
//!   parent, children, depth and value.  Whitespace: one pattern in every gap
//!   (`Ws::Uniform`) or a pattern in exactly one gap (`Ws::Single`).
//! * scale families (`family(name, param)`) for the structural constants.
//! * `regen(case)` rebuilds a document from the `id` it carries (replay).
//!
//! Nothing here calls the code under test.
#![allow(dead_code)]
use serde_json::{json, Value};

#[derive(Clone, Debug, PartialEq)]
pub enum LeafVal {
    Null,
    Bool(bool),
    /// exactly known double; `i` = exact i64 when the literal is an integer literal in range
    Num { f: f64, i: Option<i64> },
    Str(String),
}

#[derive(Clone, Debug)]
pub struct Leaf {
    pub src: String,
    pub val: LeafVal,
}

#[derive(Clone, Debug)]
pub struct Key {
    pub src: String,
    pub name: String,
}

#[derive(Clone, Debug)]
pub struct Alphabet {
    pub name: String,
    pub leaves: Vec<Leaf>,
    pub keys: Vec<Key>,
}

fn num(src: &str, f: f64, i: Option<i64>) -> Leaf {
    Leaf { src: src.to_string(), val: LeafVal::Num { f, i } }
}
fn st(src: &str, v: &str) -> Leaf {
    Leaf { src: src.to_string(), val: LeafVal::Str(v.to_string()) }
}
fn key(src: &str, v: &str) -> Key {
    Key { src: src.to_string(), name: v.to_string() }
}

pub fn all_scalars() -> Vec<Leaf> {
    vec![
        Leaf { src: "null".into(), val: LeafVal::Null },
        Leaf { src: "true".into(), val: LeafVal::Bool(true) },
        Leaf { src: "false".into(), val: LeafVal::Bool(false) },
        num("0", 0.0, Some(0)),
        num("-0", -0.0, Some(0)),
        num("1", 1.0, Some(1)),
        num("-1", -1.0, Some(-1)),
        num("10", 10.0, Some(10)),
        num("1.5", 1.5, None),
        num("0.10", 0.1, None),
        num("1e2", 100.0, None),
        num("1E+2", 100.0, None),
        num("-1.5e-3", -0.0015, None),
        num("1e-7", 0.0000001, None),
        num("100000000000000000000", 100000000000000000000.0, None),
        num("9007199254740993", 9007199254740992.0, Some(9007199254740993)),
        num("123456789012345678901234567890", 123456789012345678901234567890.0, None),
    ]
}

pub fn all_strings() -> Vec<Leaf> {
    let x70 = "x".repeat(70);
    let y130 = "yz".repeat(65);
    vec![
        st("\"\"", ""),
        st("\"a\"", "a"),
        st("\" a \"", " a "),
        st("\"\\\"\"", "\""),
        st("\"\\\\\"", "\\"),
        st("\"\\/\"", "/"),
        st("\"\\b\\f\\n\\r\\t\"", "\u{8}\u{c}\n\r\t"),
        st("\"\\u0041\"", "A"),
        st("\"\\u00e9\"", "é"),
        st("\"\\ud83d\\ude00\"", "😀"),
        st("\"é\"", "é"),
        st("\"😀\"", "😀"),
        st("\"a\\u0000b\"", "a\u{0}b"),
        st("\"\\u007f\"", "\u{7f}"),
        st(&format!("\"{x70}\""), &x70),
        st(&format!("\"{y130}\""), &y130),
        // structural bytes inside a string, an escaped quote before them
        st("\"[{,:}]\\\"]\"", "[{,:}]\"]"),
    ]
}

pub fn all_keys() -> Vec<Key> {
    vec![
        key("\"a\"", "a"),
        key("\"b\"", "b"),
        key("\"\"", ""),
        key("\"\\u0061\"", "a"),
        key("\"a b\"", "a b"),
        key("\"1x\"", "1x"),
        key("\"é\"", "é"),
        key("\"a\\\"b\"", "a\"b"),
        key("\"a.b\"", "a.b"),
        // a key that is a jq keyword: `.and` is not a path expression
        key("\"and\"", "and"),
    ]
}

impl Alphabet {
    /// DESIGN §2 alphabets: 17 scalars, 17 strings, 10 key spellings.
    pub fn full() -> Self {
        let mut leaves = all_scalars();
        leaves.extend(all_strings());
        Alphabet { name: "full".into(), leaves, keys: all_keys() }
    }
    /// 9 leaves, 4 key spellings (one escaped duplicate of "a").
    pub fn reduced() -> Self {
        let s = all_scalars();
        let t = all_strings();
        let k = all_keys();
        let leaves = vec![s[0].clone(), s[3].clone(), s[8].clone(), s[11].clone(), t[0].clone(), t[1].clone(), t[3].clone(), t[9].clone(), t[10].clone()];
        let keys = vec![k[0].clone(), k[1].clone(), k[4].clone(), k[3].clone()];
        Alphabet { name: "reduced".into(), leaves, keys }
    }
    /// 4 leaves, 2 keys — for the deepest enumerations.
    pub fn tiny() -> Self {
        let s = all_scalars();
        let t = all_strings();
        let k = all_keys();
        let leaves = vec![s[0].clone(), s[12].clone(), t[3].clone(), t[1].clone()];
        let keys = vec![k[0].clone(), k[3].clone()];
        Alphabet { name: "tiny".into(), leaves, keys }
    }
    pub fn by_name(n: &str) -> Self {
        match n {
            "full" => Self::full(),
            "reduced" => Self::reduced(),
            "tiny" => Self::tiny(),
            o => panic!("unknown alphabet {o}"),
        }
    }
    /// Self-test of the hand-written number values against Rust's correctly
    /// rounded reader, and of string values against a second escape decoder
    /// (serde_json). A failure is a machinery error.
    pub fn selftest(&self) {
        for l in &self.leaves {
            match &l.val {
                LeafVal::Num { f, i } => {
                    let p: f64 = l.src.parse().expect("number literal parses");
                    assert!(p == *f, "alphabet value of {} is wrong", l.src);
                    if let Some(i) = i {
                        assert_eq!(l.src.parse::<i64>().ok(), Some(*i), "i64 of {}", l.src);
                    } else {
                        assert!(l.src.parse::<i64>().is_err(), "i64 of {} should not exist", l.src);
                    }
                }
                LeafVal::Str(s) => {
                    let v: Value = serde_json::from_str(&l.src).expect("string literal is valid JSON");
                    assert_eq!(v.as_str(), Some(s.as_str()), "alphabet value of {} is wrong", l.src);
                }
                _ => {}
            }
        }
        for k in &self.keys {
            let v: Value = serde_json::from_str(&k.src).expect("key literal is valid JSON");
            assert_eq!(v.as_str(), Some(k.name.as_str()));
        }
    }
}

pub const WS: [&str; 6] = ["", " ", "\n", "\r\n", "\t", " \n\t\r "];

#[derive(Clone, Debug)]
pub enum Tree {
    Leaf(usize),
    Arr(Vec<Tree>),
    Obj(Vec<(usize, Tree)>),
}

#[derive(Clone, Copy, Debug, PartialEq, Eq, Hash)]
pub enum Kind {
    Null,
    Bool,
    Num,
    Str,
    Arr,
    Obj,
}

impl Kind {
    pub fn name(self) -> &'static str {
        match self {
            Kind::Null => "null",
            Kind::Bool => "bool",
            Kind::Num => "number",
            Kind::Str => "string",
            Kind::Arr => "array",
            Kind::Obj => "object",
        }
    }
}

/// One node of the token tree (a value, or a key — keys are `Str` nodes with `is_key`).
#[derive(Clone, Debug)]
pub struct Node {
    pub kind: Kind,
    pub is_key: bool,
    pub start: usize,
    pub end: usize,
    pub parent: Option<usize>,
    /// children in source order; for objects: key, value, key, value, …
    pub kids: Vec<usize>,
    pub depth: usize,
    /// scalar payload (for keys: `Str(name)`)
    pub val: Option<LeafVal>,
    /// for a key: the node id of the value it names
    pub names: Option<usize>,
}

#[derive(Clone, Debug)]
pub struct Doc {
    pub text: Vec<u8>,
    /// preorder = source order of token starts
    pub nodes: Vec<Node>,
    pub gaps: usize,
    /// how to regenerate this document (`regen`)
    pub id: Value,
}

/// Value with duplicate keys and order preserved.
#[derive(Clone, Debug, PartialEq)]
pub enum JV {
    Null,
    Bool(bool),
    Num { f: f64, i: Option<i64>, src: String },
    Str(String),
    Arr(Vec<JV>),
    Obj(Vec<(String, JV)>),
}

impl Doc {
    pub fn value(&self, id: usize) -> JV {
        let n = &self.nodes[id];
        match n.kind {
            Kind::Arr => JV::Arr(n.kids.iter().map(|&k| self.value(k)).collect()),
            Kind::Obj => JV::Obj(
                n.kids
                    .chunks(2)
                    .map(|kv| {
                        let name = match &self.nodes[kv[0]].val {
                            Some(LeafVal::Str(s)) => s.clone(),
                            _ => unreachable!(),
                        };
                        (name, self.value(kv[1]))
                    })
                    .collect(),
            ),
            _ => match n.val.as_ref().unwrap() {
                LeafVal::Null => JV::Null,
                LeafVal::Bool(b) => JV::Bool(*b),
                LeafVal::Num { f, i } => JV::Num { f: *f, i: *i, src: String::from_utf8(self.text[n.start..n.end].to_vec()).unwrap() },
                LeafVal::Str(s) => JV::Str(s.clone()),
            },
        }
    }
    pub fn key_name(&self, id: usize) -> &str {
        match &self.nodes[id].val {
            Some(LeafVal::Str(s)) => s,
            _ => panic!("not a key/string node"),
        }
    }
    /// true when some object has two keys with the same decoded name
    pub fn has_dup_keys(&self) -> bool {
        self.nodes.iter().any(|n| {
            n.kind == Kind::Obj && {
                let names: Vec<&str> = n.kids.iter().step_by(2).map(|&k| self.key_name(k)).collect();
                (0..names.len()).any(|i| names[..i].contains(&names[i]))
            }
        })
    }
    /// node with the greatest start <= off (nodes are sorted by start)
    pub fn node_at_or_before(&self, off: usize) -> Option<usize> {
        let p = self.nodes.partition_point(|n| n.start <= off);
        if p == 0 {
            None
        } else {
            Some(p - 1)
        }
    }
    pub fn case(&self) -> Value {
        json!({"doc": self.id, "text": engine::show(&self.text)})
    }
}

struct Renderer<'a> {
    alpha: &'a Alphabet,
    out: Vec<u8>,
    nodes: Vec<Node>,
    gap_ctr: usize,
    ws: &'a Ws,
}

#[derive(Clone, Debug)]
pub enum Ws {
    Uniform(String),
    Single { gap: usize, ws: String },
}

impl Ws {
    pub fn to_json(&self) -> Value {
        match self {
            Ws::Uniform(w) => json!({"uniform": w}),
            Ws::Single { gap, ws } => json!({"gap": gap, "ws": ws}),
        }
    }
    pub fn from_json(v: &Value) -> Ws {
        if let Some(w) = v.get("uniform") {
            Ws::Uniform(w.as_str().unwrap().to_string())
        } else {
            Ws::Single { gap: v["gap"].as_u64().unwrap() as usize, ws: v["ws"].as_str().unwrap().to_string() }
        }
    }
}

impl<'a> Renderer<'a> {
    fn gap(&mut self) {
        let i = self.gap_ctr;
        self.gap_ctr += 1;
        match self.ws {
            Ws::Uniform(w) => self.out.extend_from_slice(w.as_bytes()),
            Ws::Single { gap, ws } => {
                if *gap == i {
                    self.out.extend_from_slice(ws.as_bytes())
                }
            }
        }
    }
    fn push_node(&mut self, kind: Kind, is_key: bool, parent: Option<usize>, depth: usize, val: Option<LeafVal>) -> usize {
        let id = self.nodes.len();
        self.nodes.push(Node { kind, is_key, start: self.out.len(), end: 0, parent, kids: vec![], depth, val, names: None });
        if let Some(p) = parent {
            self.nodes[p].kids.push(id);
        }
        id
    }
    fn node(&mut self, t: &Tree, parent: Option<usize>, depth: usize) -> usize {
        match t {
            Tree::Leaf(li) => {
                let l = &self.alpha.leaves[*li];
                let kind = match l.val {
                    LeafVal::Null => Kind::Null,
                    LeafVal::Bool(_) => Kind::Bool,
                    LeafVal::Num { .. } => Kind::Num,
                    LeafVal::Str(_) => Kind::Str,
                };
                let id = self.push_node(kind, false, parent, depth, Some(l.val.clone()));
                self.out.extend_from_slice(l.src.as_bytes());
                self.nodes[id].end = self.out.len();
                id
            }
            Tree::Arr(kids) => {
                let id = self.push_node(Kind::Arr, false, parent, depth, None);
                self.out.push(b'[');
                for (i, k) in kids.iter().enumerate() {
                    if i > 0 {
                        self.gap();
                        self.out.push(b',');
                    }
                    self.gap();
                    self.node(k, Some(id), depth + 1);
                }
                self.gap();
                self.out.push(b']');
                self.nodes[id].end = self.out.len();
                id
            }
            Tree::Obj(fields) => {
                let id = self.push_node(Kind::Obj, false, parent, depth, None);
                self.out.push(b'{');
                for (i, (ki, v)) in fields.iter().enumerate() {
                    if i > 0 {
                        self.gap();
                        self.out.push(b',');
                    }
                    self.gap();
                    let k = &self.alpha.keys[*ki];
                    let kid = self.push_node(Kind::Str, true, Some(id), depth + 1, Some(LeafVal::Str(k.name.clone())));
                    self.out.extend_from_slice(k.src.as_bytes());
                    self.nodes[kid].end = self.out.len();
                    self.gap();
                    self.out.push(b':');
                    self.gap();
                    let vid = self.node(v, Some(id), depth + 1);
                    self.nodes[kid].names = Some(vid);
                }
                self.gap();
                self.out.push(b'}');
                self.nodes[id].end = self.out.len();
                id
            }
        }
    }
}

/// Render `tree`; gap 0 is before the root, the last gap is after it.
pub fn render(alpha: &Alphabet, tree: &Tree, ws: &Ws, id: Value) -> Doc {
    let mut r = Renderer { alpha, out: Vec::new(), nodes: Vec::new(), gap_ctr: 0, ws };
    r.gap();
    r.node(tree, None, 0);
    r.gap();
    Doc { text: r.out, nodes: r.nodes, gaps: r.gap_ctr, id }
}

/// Compositions of `n` (ordered sums of positive parts), in a fixed order.
fn compositions(n: usize) -> Vec<Vec<usize>> {
    if n == 0 {
        return vec![vec![]];
    }
    let mut out = vec![];
    for first in 1..=n {
        for mut rest in compositions(n - first) {
            let mut v = vec![first];
            v.append(&mut rest);
            out.push(v);
        }
    }
    out
}

/// All trees with `1..=maxn` value nodes over an alphabet, addressable by index.
pub struct Space {
    pub alpha: Alphabet,
    pub maxn: usize,
    /// counts[n] = number of trees with exactly n value nodes
    pub counts: Vec<u64>,
    comps: Vec<Vec<Vec<usize>>>,
}

impl Space {
    pub fn new(alpha: Alphabet, maxn: usize) -> Space {
        let l = alpha.leaves.len() as u64;
        let k = alpha.keys.len() as u64;
        let mut counts = vec![0u64; maxn + 1];
        let comps: Vec<Vec<Vec<usize>>> = (0..=maxn).map(|n| if n == 0 { vec![] } else { compositions(n - 1) }).collect();
        for n in 1..=maxn {
            if n == 1 {
                counts[1] = l + 2;
                continue;
            }
            let mut c = 0u64;
            for comp in &comps[n] {
                let prod: u64 = comp.iter().map(|&p| counts[p]).product();
                c += prod * (1 + k.pow(comp.len() as u32));
            }
            counts[n] = c;
        }
        Space { alpha, maxn, counts, comps }
    }
    pub fn total(&self) -> u64 {
        self.counts[1..].iter().sum()
    }
    pub fn tree(&self, mut idx: u64) -> Tree {
        for n in 1..=self.maxn {
            if idx < self.counts[n] {
                return self.tree_n(n, idx);
            }
            idx -= self.counts[n];
        }
        panic!("tree index out of range");
    }
    fn tree_n(&self, n: usize, mut idx: u64) -> Tree {
        let l = self.alpha.leaves.len() as u64;
        let k = self.alpha.keys.len() as u64;
        if n == 1 {
            return if idx < l {
                Tree::Leaf(idx as usize)
            } else if idx == l {
                Tree::Arr(vec![])
            } else {
                Tree::Obj(vec![])
            };
        }
        for comp in &self.comps[n] {
            let prod: u64 = comp.iter().map(|&p| self.counts[p]).product();
            let kp = k.pow(comp.len() as u32);
            let block = prod * (1 + kp);
            if idx < block {
                let which = idx / prod;
                let mut r = idx % prod;
                let mut kids = Vec::with_capacity(comp.len());
                for &p in comp {
                    kids.push(self.tree_n(p, r % self.counts[p]));
                    r /= self.counts[p];
                }
                if which == 0 {
                    return Tree::Arr(kids);
                }
                let mut kk = which - 1;
                let mut fields = Vec::with_capacity(kids.len());
                for kid in kids {
                    fields.push(((kk % k) as usize, kid));
                    kk /= k;
                }
                return Tree::Obj(fields);
            }
            idx -= block;
        }
        panic!("tree index out of range for n={n}");
    }
    pub fn doc(&self, idx: u64, ws: &Ws) -> Doc {
        let t = self.tree(idx);
        render(&self.alpha, &t, ws, json!({"space": self.alpha.name, "maxn": self.maxn, "tree": idx, "ws": ws.to_json()}))
    }
}

// ------------------------------------------------------------------ families --

/// Alphabet used by the scale families: the full one plus long strings.
pub fn family_alphabet() -> Alphabet {
    let mut a = Alphabet::full();
    a.name = "family".into();
    a
}

fn leaf_index(a: &Alphabet, src: &str) -> usize {
    a.leaves.iter().position(|l| l.src == src).unwrap_or_else(|| panic!("leaf {src} not in alphabet"))
}

/// Scale families (DESIGN §2). `name`/`param` are recorded in the doc id.
///
/// * `nest-arr` d        — d nested arrays around `1`
/// * `nest-obj` d        — d nested objects `{"a":…}` around `null`
/// * `nest-mix` d        — alternating array/object nesting, two children per level
/// * `array` n           — n elements cycling through the full leaf alphabet
/// * `array-obj` n       — n small objects `{"a":i-th leaf,"b":[…]}`
/// * `object` n          — n fields cycling through the key alphabet (duplicates!)
/// * `sparse` z          — array of strings long enough to leave z all-zero IB words between elements
/// * `bigstring` n       — `["<n bytes>", 1]`
/// * `repeat` n          — array repeating a 4-node sub-document until >= n bytes
pub fn family(name: &str, param: usize, ws: &Ws) -> Doc {
    let mut a = family_alphabet();
    let one = leaf_index(&a, "1");
    let null = leaf_index(&a, "null");
    let nleaves = a.leaves.len();
    let nkeys = a.keys.len();
    let tree = match name {
        "nest-arr" => {
            let mut t = Tree::Leaf(one);
            for _ in 0..param {
                t = Tree::Arr(vec![t]);
            }
            t
        }
        "nest-obj" => {
            let mut t = Tree::Leaf(null);
            for _ in 0..param {
                t = Tree::Obj(vec![(0, t)]);
            }
            t
        }
        "nest-mix" => {
            let mut t = Tree::Leaf(one);
            for d in 0..param {
                t = if d % 2 == 0 { Tree::Arr(vec![Tree::Leaf(d % nleaves), t, Tree::Arr(vec![])]) } else { Tree::Obj(vec![(d % nkeys, Tree::Leaf(d % nleaves)), ((d % nkeys + 1) % nkeys, t)]) };
            }
            t
        }
        "array" => Tree::Arr((0..param).map(|i| Tree::Leaf(i % nleaves)).collect()),
        "array-obj" => Tree::Arr((0..param).map(|i| Tree::Obj(vec![(0, Tree::Leaf(i % nleaves)), (1, Tree::Arr(vec![Tree::Leaf((i * 7) % nleaves)]))])).collect()),
        "object" => Tree::Obj((0..param).map(|i| (i % nkeys, Tree::Leaf(i % nleaves))).collect()),
        "sparse" => {
            // element = string of 64*param+7 bytes => at least `param` all-zero IB words inside it
            let body = "s".repeat(64 * param + 7);
            a.leaves.push(st(&format!("\"{body}\""), &body));
            let li = a.leaves.len() - 1;
            Tree::Arr(vec![Tree::Leaf(one), Tree::Leaf(li), Tree::Leaf(li), Tree::Arr(vec![Tree::Leaf(li)]), Tree::Leaf(null), Tree::Leaf(li), Tree::Leaf(one)])
        }
        "bigstring" => {
            let body = "b\\\\".repeat(param / 3 + 1);
            let val = "b\\".repeat(param / 3 + 1);
            a.leaves.push(st(&format!("\"{body}\""), &val));
            let li = a.leaves.len() - 1;
            Tree::Arr(vec![Tree::Leaf(li), Tree::Leaf(one)])
        }
        "repeat" => {
            let unit = |i: usize| Tree::Obj(vec![(i % nkeys, Tree::Arr(vec![Tree::Leaf(i % nleaves), Tree::Leaf((i * 5 + 1) % nleaves)])), (1, Tree::Leaf((i * 3) % nleaves))]);
            // ~40 bytes per unit on average
            Tree::Arr((0..param / 30 + 1).map(unit).collect())
        }
        // several big sibling containers: a node's parent then opens thousands of BP positions (several rank /
        // excess directory blocks) below it while a big earlier sibling lies in between -- what upward navigation
        // (parent / enclose, and the path builders on top of it) has to get across
        // a string whose escape sequence straddles every chunk boundary as `param` slides: `pad` plain bytes, then
        // `\"` (so the backslash / the escaped quote land on byte 15/16, 31/32, 63/64 ... of the text in turn), and a
        // second string ending in an escaped backslash right before its closing quote; structure follows so that a
        // mis-tracked string state shows up as wrong structural positions
        "escape-align" => {
            let pad = "x".repeat(param);
            a.leaves.push(st(&format!("\"{pad}\\\"y\""), &format!("{pad}\"y")));
            let l1 = a.leaves.len() - 1;
            a.leaves.push(st(&format!("\"{pad}\\\\\""), &format!("{pad}\\")));
            let l2 = a.leaves.len() - 1;
            // ... and an escape followed by exactly 31 / 63 bytes free of quotes and backslashes before the closing quote:
            // when the backslash is the last byte of a chunk, whole "clean" chunks follow and the closing quote is the
            // first byte of a chunk — a pending escape must not survive a chunk that is skipped as uninteresting
            let clean31 = "a".repeat(31);
            let clean63 = "b".repeat(63);
            a.leaves.push(st(&format!("\"{pad}\\n{clean31}\""), &format!("{pad}\n{clean31}")));
            let l3 = a.leaves.len() - 1;
            a.leaves.push(st(&format!("\"{pad}\\t{clean63}\""), &format!("{pad}\t{clean63}")));
            let l4 = a.leaves.len() - 1;
            Tree::Obj(vec![
                (0, Tree::Leaf(l1)),
                (1, Tree::Arr(vec![Tree::Leaf(one), Tree::Obj(vec![(0, Tree::Leaf(l2))]), Tree::Leaf(l1)])),
                (2, Tree::Leaf(null)),
                (4, Tree::Arr(vec![Tree::Leaf(l3), Tree::Leaf(one), Tree::Obj(vec![(0, Tree::Arr(vec![Tree::Leaf(l4), Tree::Leaf(null)]))])])),
            ])
        }
        "siblings" => Tree::Obj((0..3).map(|k| (k, Tree::Arr((0..param).map(|i| Tree::Leaf((i + k) % nleaves)).collect()))).collect()),
        "siblings-arr" => Tree::Arr((0..3).map(|k| if k == 1 { Tree::Obj(vec![(0, Tree::Arr((0..param).map(|i| Tree::Leaf(i % nleaves)).collect()))]) } else { Tree::Arr((0..param).map(|i| Tree::Leaf((i + k) % nleaves)).collect()) }).collect()),
        o => panic!("unknown family {o}"),
    };
    render(&a, &tree, ws, json!({"family": name, "param": param, "ws": ws.to_json()}))
}

/// Rebuild a document from its id.
pub fn regen(id: &Value) -> Doc {
    let ws = Ws::from_json(&id["ws"]);
    if let Some(f) = id.get("family") {
        return family(f.as_str().unwrap(), id["param"].as_u64().unwrap() as usize, &ws);
    }
    let sp = Space::new(Alphabet::by_name(id["space"].as_str().unwrap()), id["maxn"].as_u64().unwrap() as usize);
    sp.doc(id["tree"].as_u64().unwrap(), &ws)
}

/// Enumerate (tree index, whitespace) pairs of a space: every uniform pattern,
/// and (optionally) every non-empty pattern in exactly one gap.
pub fn ws_variants(doc_gaps: usize, uniform: &[&str], single: bool) -> Vec<Ws> {
    let mut v: Vec<Ws> = uniform.iter().map(|w| Ws::Uniform(w.to_string())).collect();
    if single {
        for g in 0..doc_gaps {
            for w in &WS[1..] {
                v.push(Ws::Single { gap: g, ws: w.to_string() });
            }
        }
    }
    v
}

// ------------------------------------------------------------ tiny self-test --

/// Independent cross-check of the generator: the text parses with serde_json
/// (a second conforming parser) to the recorded value, and every span holds the
/// node's spelling. Machinery error on failure.
pub fn selftest_doc(d: &Doc) {
    let v: Value = serde_json::from_slice(&d.text).unwrap_or_else(|e| panic!("generated document is not valid JSON: {e}: {}", engine::show(&d.text)));
    fn cmp(d: &Doc, id: usize, v: &Value) {
        let n = &d.nodes[id];
        let slice = &d.text[n.start..n.end];
        let sub: Value = serde_json::from_slice(slice).expect("span is itself valid JSON");
        match n.kind {
            Kind::Arr => {
                let a = v.as_array().expect("array");
                assert_eq!(a.len(), n.kids.len());
                for (k, x) in n.kids.iter().zip(a) {
                    cmp(d, *k, x);
                }
            }
            Kind::Obj => {
                let o = v.as_object().expect("object");
                // serde_json keeps the last duplicate; compare per distinct name with the last occurrence
                for kv in n.kids.chunks(2) {
                    let name = d.key_name(kv[0]);
                    let last = n.kids.chunks(2).filter(|c| d.key_name(c[0]) == name).last().unwrap();
                    if last[1] == kv[1] {
                        cmp(d, kv[1], &o[name]);
                    }
                }
            }
            Kind::Str => assert_eq!(sub.as_str(), Some(d.key_name(id))),
            Kind::Num => {
                if let Some(LeafVal::Num { f, .. }) = &n.val {
                    assert_eq!(std::str::from_utf8(slice).unwrap().parse::<f64>().unwrap(), *f);
                }
            }
            Kind::Bool => assert_eq!(sub.as_bool(), match n.val { Some(LeafVal::Bool(b)) => Some(b), _ => None }),
            Kind::Null => assert!(sub.is_null()),
        }
        let _ = v;
    }
    cmp(d, 0, &v);
    // preorder sorted by start, parents contain children
    for (i, n) in d.nodes.iter().enumerate() {
        if i > 0 {
            assert!(d.nodes[i - 1].start < n.start);
        }
        if let Some(p) = n.parent {
            assert!(d.nodes[p].start < n.start && n.end < d.nodes[p].end);
        }
    }
}

// ------------------------------------------------------------------ drivers --

/// Run `f` on every document of `sp` × whitespace variants (uniform patterns in
/// all gaps; with `single`, additionally every non-empty pattern in exactly one
/// gap), sharded over worker threads. Every `selftest_every`-th tree is
/// cross-checked against serde_json (generator self-test, machinery error).
pub fn for_each_doc(
    ctx: &engine::Ctx,
    space: &str,
    sp: &Space,
    uniform: &[&str],
    single: bool,
    selftest_every: u64,
    f: &(dyn Fn(&Doc, &mut engine::Report) + Sync),
) -> engine::Report {
    let total = sp.total();
    let mut r = engine::par_range_in(ctx, space, total, 256, |i, rep| {
        let t = sp.tree(i);
        rep.distinct(&(space, i));
        let mk = |ws: &Ws| render(&sp.alpha, &t, ws, json!({"space": sp.alpha.name, "maxn": sp.maxn, "tree": i, "ws": ws.to_json()}));
        let first = mk(&Ws::Uniform(String::new()));
        let gaps = first.gaps;
        for ws in ws_variants(gaps, uniform, single) {
            let d = mk(&ws);
            if selftest_every > 0 && i % selftest_every == 0 {
                selftest_doc(&d);
            }
            rep.input();
            f(&d, rep);
        }
    });
    r.mark_exhaustive(
        space,
        &format!(
            "every tree with 1..={} value nodes over alphabet '{}' ({} leaves, {} key spellings) = {} trees; whitespace: {} uniform pattern(s){}",
            sp.maxn,
            sp.alpha.name,
            sp.alpha.leaves.len(),
            sp.alpha.keys.len(),
            total,
            uniform.len(),
            if single { " + every non-empty pattern in exactly one gap, for every gap" } else { "" }
        ),
    );
    r
}

/// (family, parameter) list of the scale families for a tier.
pub fn family_list(quick: bool) -> Vec<(&'static str, usize)> {
    let mut v: Vec<(&'static str, usize)> = vec![];
    let nest: &[usize] = if quick { &[1, 2, 3, 63, 64, 65, 127, 128, 129, 255, 256, 257, 1000] } else { &[1, 2, 3, 63, 64, 65, 127, 128, 129, 200, 255, 256, 257, 1000, 5000, 33000] };
    for &d in nest {
        v.push(("nest-arr", d));
        v.push(("nest-obj", d));
        if d <= 5000 {
            v.push(("nest-mix", d));
        }
    }
    let arr: &[usize] = if quick { &[63, 64, 65, 511, 512, 513, 4096] } else { &[63, 64, 65, 511, 512, 513, 4096, 100_000] };
    for &n in arr {
        v.push(("array", n));
        v.push(("array-obj", n.min(20_000)));
        v.push(("object", n.min(5_000)));
    }
    for &n in (if quick { &[700usize, 1200][..] } else { &[700usize, 1200, 2100, 5000][..] }) {
        v.push(("siblings", n));
        v.push(("siblings-arr", n));
    }
    for pad in 0..=(if quick { 70 } else { 200 }) {
        v.push(("escape-align", pad));
    }
    for z in 1..=(if quick { 8 } else { 20 }) {
        v.push(("sparse", z));
    }
    v.push(("sparse", 33));
    v.push(("sparse", 70));
    v.push(("bigstring", if quick { 70_000 } else { 1 << 20 }));
    v.push(("repeat", if quick { 100_000 } else { 1_200_000 }));
    v.dedup();
    v
}
