#!/bin/bash
# Run registered checks against a seeded change: tools/seed_check.sh <ID> <CHECK> [<CHECK>...]
# Fresh scratch worktree of /repo HEAD + seeded/<ID>/patch.diff, VERIF_REPO pointing at it; results ->
# seeded/<ID>/checks.json. /repo is never touched; the worktree and its build output are removed afterwards.
set -u
id=$1; shift
cd /verif
wt=/tmp/seedchk-$id
git -C /repo worktree remove --force $wt 2>/dev/null
git -C /repo worktree add -q --detach $wt HEAD || exit 2
( cd $wt && git apply /verif/seeded/$id/patch.diff ) || { echo "patch does not apply"; git -C /repo worktree remove --force $wt; exit 2; }
head=$(git -C /repo rev-parse --short HEAD)
alt=$(python3 -c "import hashlib;print('-alt'+hashlib.sha1(b'$wt').hexdigest()[:8])")
tmpd=$(mktemp -d)
for c in "$@"; do
  VERIF_REPO=$wt ./check $c --tier ${TIER:-quick} > $tmpd/$c.out 2>/dev/null; echo $? > $tmpd/$c.rc
  echo "$id vs $c: exit=$(cat $tmpd/$c.rc) violations=$(grep -c '^VIOLATION' $tmpd/$c.out)"
done
python3 - "$id" "$head" "${TIER:-quick}" "$tmpd" "$@" <<'PY'
import json, re, sys, os
sid, head, tier, tmpd, checks = sys.argv[1], sys.argv[2], sys.argv[3], sys.argv[4], sys.argv[5:]
runs = []
for c in checks:
    out = open(os.path.join(tmpd, c + ".out"), errors="replace").read()
    rc = int(open(os.path.join(tmpd, c + ".rc")).read().strip())
    sigs = [m.group(1) for m in re.finditer(r"^  violation signature=(.*?) count=\d+ example=", out, re.M)][:12]
    runs.append({"check": c, "tier": tier, "exit": rc, "violations": len(re.findall(r"^VIOLATION", out, re.M)), "signatures": sigs, "detected": rc == 1})
json.dump({"seed": sid, "repo_head": head, "runs": runs}, open(f"/verif/seeded/{sid}/checks.json", "w"), indent=1, ensure_ascii=False)
PY
rm -rf $tmpd
git -C /repo worktree remove --force $wt
rm -rf /verif/.cache/*$alt
