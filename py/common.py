"""Build / run / classify / evidence plumbing shared by every check."""
import hashlib, importlib, json, os, resource, subprocess, sys, time

ROOT = os.path.dirname(os.path.dirname(os.path.abspath(__file__)))
HARNESS = os.path.join(ROOT, "harness")
CACHE = os.path.join(ROOT, ".cache")
# VERIF_REPO lets the same checks run against a scratch worktree of the repository (mutation testing by
# sub-agents, seeded-change confirmation) without touching /repo: the harness's path dependency on /repo is
# overridden with cargo's `paths` config, and build output / evidence / replays go to separate directories.
REPO = os.path.abspath(os.environ.get("VERIF_REPO", "/repo"))
ALT = "" if REPO == "/repo" else "-alt" + hashlib.sha1(REPO.encode()).hexdigest()[:8]
EVIDENCE = os.path.join(ROOT, "evidence") if not ALT else os.path.join(CACHE, "evidence" + ALT)
REPLAYS = os.path.join(ROOT, "replays") if not ALT else os.path.join(CACHE, "replays" + ALT)
KNOWN = os.path.join(ROOT, "known_findings.json")


class Machinery(Exception):
    pass


def base_env():
    env = {k: v for k, v in os.environ.items() if not k.startswith("SUCCINCTLY_")}
    env.update({
        "CARGO_NET_OFFLINE": "true", "RUST_BACKTRACE": "0", "NO_COLOR": "1", "TZ": "UTC",
        "CARGO_TERM_COLOR": "never", "LC_ALL": "C.UTF-8",
    })
    env.setdefault("VERIF_SEED", "0")
    return env


def seed():
    try:
        return int(os.environ.get("VERIF_SEED", "0"))
    except ValueError:
        return 0


def nproc():
    return os.cpu_count() or 8


# ---------------------------------------------------------------- building --

def target_dir(variant):
    return os.path.join(CACHE, "target-harness" + ("" if variant == "default" else "-" + variant) + ALT)


def build_bin(binname, variant="default", features=()):
    """cargo build one explorer binary against /repo's current working tree."""
    os.makedirs(CACHE, exist_ok=True)
    td = target_dir(variant)
    cmd = ["cargo", "build", "--offline", "--release", "-p", "svh", "--bin", binname, "--target-dir", td]
    if features:
        cmd += ["--features", ",".join(features)]
    if ALT:
        cmd += ["--config", 'paths=["%s"]' % REPO]
    p = subprocess.run(cmd, cwd=HARNESS, env=base_env(), stdout=subprocess.PIPE, stderr=subprocess.STDOUT, text=True)
    if p.returncode != 0:
        tail = "\n".join(l for l in p.stdout.splitlines() if not l.startswith("warning"))[-3000:]
        raise Machinery(f"cargo build of {binname} ({variant}) failed:\n{tail}")
    return os.path.join(td, "release", binname)


CLI_TARGET = os.path.join(CACHE, "target-cli" + ALT)


def build_cli():
    """Build the succinctly CLI (features cli,verif-hooks) with dev semantics at release speed."""
    os.makedirs(CACHE, exist_ok=True)
    env = base_env()
    env.update({
        "CARGO_TARGET_DIR": CLI_TARGET,
        "CARGO_PROFILE_RELEASE_DEBUG_ASSERTIONS": "true",
        "CARGO_PROFILE_RELEASE_OVERFLOW_CHECKS": "true",
    })
    cmd = ["cargo", "build", "--offline", "--release", "--features", "cli,verif-hooks", "--bin", "succinctly"]
    p = subprocess.run(cmd, cwd=REPO, env=env, stdout=subprocess.PIPE, stderr=subprocess.STDOUT, text=True)
    if p.returncode != 0:
        tail = "\n".join(l for l in p.stdout.splitlines() if not l.startswith("warning"))[-3000:]
        raise Machinery(f"cargo build of the succinctly CLI failed:\n{tail}")
    return os.path.join(CLI_TARGET, "release", "succinctly")


def build_all():
    import registry
    ok = True
    try:
        build_cli()
        print("built CLI")
    except Machinery as e:
        print(e); ok = False
    seen = set()
    for pid, spec in registry.CHECKS.items():
        for (binname, variant, feats) in spec.get("bins", []):
            if (binname, variant) in seen:
                continue
            seen.add((binname, variant))
            try:
                build_bin(binname, variant, feats)
                print("built", binname, variant)
            except Machinery as e:
                print(e); ok = False
    return 0 if ok else 2


# ----------------------------------------------------------------- running --

def run_bin(path, tier, replay=None, extra_args=(), env_extra=None, timeout=None):
    os.makedirs(os.path.join(CACHE, "reports"), exist_ok=True)
    out = os.path.join(CACHE, "reports", f"{os.path.basename(path)}-{os.getpid()}-{time.time_ns()}.json")
    cmd = [path, "--tier", tier, "--out", out] + list(extra_args)
    if replay:
        cmd += ["--replay", replay]
    env = base_env()
    if env_extra:
        env.update(env_extra)
    try:
        p = subprocess.run(cmd, env=env, stdout=subprocess.PIPE, stderr=subprocess.PIPE, text=True, timeout=timeout)
    except subprocess.TimeoutExpired:
        raise Machinery(f"{os.path.basename(path)} exceeded its wall cap of {timeout}s")
    sys.stderr.write(p.stderr[-4000:])
    if p.returncode != 0 or not os.path.exists(out):
        raise Machinery(f"{os.path.basename(path)} exited {p.returncode}: {p.stderr[-2000:]}")
    with open(out) as f:
        rep = json.load(f)
    os.remove(out)
    return rep


def empty_report():
    return {"states": 0, "transitions": 0, "evaluations": 0, "distinct_nontrivial": 0, "samples": [],
            "subspaces": {}, "failures": [], "paths": [], "caps": [], "notes": [], "extra": {}}


def merge_reports(reps):
    """reps: list of (label, report). Sub-spaces are prefixed by label when there are several."""
    tot = empty_report()
    multi = len(reps) > 1
    for label, r in reps:
        for k in ("states", "transitions", "evaluations", "distinct_nontrivial"):
            tot[k] += r.get(k, 0)
        for s in r.get("samples", []):
            if len(tot["samples"]) < 8:
                tot["samples"].append(s)
        for k, v in r.get("subspaces", {}).items():
            tot["subspaces"][(label + ":" + k) if multi else k] = v
        for f in r.get("failures", []):
            f = dict(f)
            if multi:
                f["variant"] = label
                if isinstance(f.get("example"), dict):
                    f["example"] = dict(f["example"], variant=label)
            tot["failures"].append(f)
        for p in r.get("paths", []):
            q = (label + ":" + p) if multi else p
            if q not in tot["paths"]:
                tot["paths"].append(q)
        tot["caps"] += [((label + ": ") if multi else "") + c for c in r.get("caps", [])]
        tot["notes"] += r.get("notes", [])
        for k, v in r.get("extra", {}).items():
            tot["extra"][(label + ":" + k) if multi and k in tot["extra"] else k] = v
    return tot


def run_check(pid, spec, tier, replay):
    kind = spec["kind"]
    if kind == "rust":
        variant_filter = None
        if replay:
            try:
                with open(replay) as f:
                    rj = json.load(f)
                variant_filter = (rj.get("case") or {}).get("variant") or rj.get("variant")
            except Exception as e:  # noqa
                raise Machinery(f"cannot read replay file {replay}: {e}")
        reps = []
        for (binname, variant, feats) in spec["bins"]:
            if variant_filter and variant != variant_filter:
                continue
            path = build_bin(binname, variant, feats)
            cap = spec.get("wall_cap", {}).get(tier, 900 if tier == "quick" else 3600)
            reps.append((variant, run_bin(path, tier, replay, timeout=cap)))
        if not reps:
            raise Machinery("no variant selected")
        return merge_reports(reps)
    elif kind == "py":
        mod = importlib.import_module(spec["module"])
        ctx = {"pid": pid, "tier": tier, "replay": replay, "seed": seed(), "spec": spec}
        return mod.run(ctx)
    elif kind == "mixed":
        # in-process explorer binaries + a CLI-batch module; a replay file goes to the side that produced it
        side = None
        if replay:
            with open(replay) as f:
                rj = json.load(f)
            side = "py" if ((rj.get("case") or {}).get("kind") in ("cli",) or (rj.get("case") or {}).get("side") == "py") else "rust"
        reps = []
        if side in (None, "rust"):
            for (binname, variant, feats) in spec["bins"]:
                path = build_bin(binname, variant, feats)
                cap = spec.get("wall_cap", {}).get(tier, 900 if tier == "quick" else 3600)
                reps.append(("lib/" + variant, run_bin(path, tier, replay, timeout=cap)))
        if side in (None, "py"):
            mod = importlib.import_module(spec["module"])
            ctx = {"pid": pid, "tier": tier, "replay": replay, "seed": seed(), "spec": spec}
            reps.append(("cli", mod.run(ctx)))
        return merge_reports(reps)
    raise Machinery(f"unknown check kind {kind}")


# ----------------------------------------------------------- classification --

def load_known():
    if not os.path.exists(KNOWN):
        return []
    with open(KNOWN) as f:
        out = list(json.load(f)["findings"])
    import glob
    for fn in sorted(glob.glob(os.path.join(ROOT, "known.d", "*.json"))):
        with open(fn) as f:
            out += json.load(f)["findings"]
    return out


def finish(pid, spec, tier, report, wall, replay):
    known = [k for k in load_known() if k["property"] == pid and k.get("status") == "open"]
    known_sigs = {k["signature"]: k for k in known}
    violations = []
    known_hits = []
    for f in report["failures"]:
        sig = f["signature"]
        if sig in known_sigs:
            known_hits.append((known_sigs[sig], f))
        else:
            violations.append(f)
    os.makedirs(REPLAYS, exist_ok=True)
    for k, f in known_hits:
        print(f"KNOWN-FINDING: property={pid} signature={k['signature']} count={f.get('count', 1)} — {k['what']}")
    vio_lines = []
    for f in violations:
        sig = f["signature"]
        h = hashlib.sha1(sig.encode()).hexdigest()[:10]
        path = os.path.join(REPLAYS, f"{pid}-{h}.json")
        body = {"property": pid, "signature": sig, "count": f.get("count", 1), "tier": tier,
                "variant": f.get("variant"), "case": f.get("example"),
                "how_to_replay": f"./check {pid} --replay {path}"}
        with open(path, "w") as fh:
            json.dump(body, fh, indent=1, ensure_ascii=False)
        vio_lines.append(f"VIOLATION property={pid} replay={path}")
        ex = json.dumps(f.get("example"), ensure_ascii=False)
        print(f"  violation signature={sig} count={f.get('count', 1)} example={ex[:400]}")
    if replay:
        if violations or known_hits:
            for l in vio_lines:
                print(l)
            print(f"replay of {replay}: reproduced ({len(violations)} unlisted, {len(known_hits)} known)")
            return 1 if violations else 0
        print(f"replay of {replay}: case passes (no disagreement with the oracle)")
        return 0
    write_evidence(pid, spec, tier, report, wall, len(violations), known_hits)
    for l in vio_lines:
        print(l)
    st = "HELD" if not violations else "VIOLATED"
    print(f"[{pid}] {st} tier={tier} states={report['states']} transitions={report['transitions']} "
          f"evaluations={report['evaluations']} distinct={report['distinct_nontrivial']} "
          f"known_findings={len(known_hits)} violations={len(violations)} wall={wall:.1f}s")
    return 1 if violations else 0


def write_evidence(pid, spec, tier, report, wall, nviol, known_hits):
    os.makedirs(EVIDENCE, exist_ok=True)
    subs = report.get("subspaces", {})
    exhaustive = bool(subs) and all(v.get("exhaustive") for v in subs.values()) and not report.get("caps")
    samples = report.get("samples") or []
    if not samples:
        samples = [{"note": "no sample recorded"}]
    cov = {
        "states": max(1, int(report["states"])),
        "transitions": max(1, int(report["transitions"])),
        "traces_validated_against_impl": int(report.get("traces_validated", report["transitions"])),
        "samples": samples,
        "evaluations": int(report["evaluations"]),
        "distinct_nontrivial": int(report["distinct_nontrivial"]),
        "rule": spec.get("rule", ""),
        "exhaustive": exhaustive,
        "subspaces": subs,
        "dispatch_paths_exercised": report.get("paths", []),
        "caps_hit": report.get("caps", []),
        "notes": report.get("notes", []),
        "known_findings_reproduced": [{"signature": k["signature"], "count": f.get("count", 1)} for k, f in known_hits],
        "technique": spec.get("technique", ""),
    }
    reserved = {"programs": int, "obligations": int, "discharged": int, "disagreements_checked": int,
                "checker_cmd": str, "trusted_base": list, "explanation": str}
    for k, v in report.get("extra", {}).items():
        if k in reserved and not isinstance(v, reserved[k]):
            k = k + "_list"       # schema-typed key used by a check for something else: keep it, under another name
        cov.setdefault(k, v)
    ev = {
        "property_id": pid, "tier": tier, "seed": seed(), "level": "model_checking",
        "coverage": cov,
        "assumptions": spec.get("assumptions", []),
        "wall_s": round(wall, 3),
        "violations": nviol,
    }
    tmp = os.path.join(EVIDENCE, f".{pid}.json.tmp")
    with open(tmp, "w") as f:
        json.dump(ev, f, indent=1, ensure_ascii=False)
    os.replace(tmp, os.path.join(EVIDENCE, f"{pid}.json"))
