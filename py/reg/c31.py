SPEC = dict(
    kind="rust",
    bins=rust("c31"),
    design_ref="§3-C31",
    technique="bounded-exhaustive enumeration (S2): all W8 word vectors; every alignment offset x length x content through every conversion function under "
              "catch_unwind; every J(n) index rebuilt from serialised parts and re-checked with the full C06/C07 query set",
    rule="cases: word vectors (length <= 6/9 over W8); (alignment offset 0..7, length, content, function); documents whose index is rebuilt via "
         "from_parts (owned and borrowed); distinct_nontrivial counts distinct trees, (offset,len,content) cells and a 1/9973 slice of the word vectors",
    level_text="words_to_bytes must produce the little-endian bytes and the three readers must give the words back; at every alignment offset 0..7 of an "
               "8-aligned buffer a slice whose length is a multiple of 8 must convert (try_ form: None exactly for bad lengths, never a panic); indexes "
               "rebuilt with JsonIndex::from_parts from serialised IB/BP words (Vec<u64> and zero-copy &[u64]) must pass the complete navigation and "
               "rank/select/position checks against the generator's tree; SemiIndex::from_bytes, SimpleJsonIndex::from_parts, BalancedParens::from_words "
               "and BitVec::from_words rebuilt from serialised words must answer every query as the originals.",
    level_note="The k >= 2^32 select probes are left to C07. The infallible readers' documented panic on a bad length is accepted.",
    assumptions=["alignment is controlled by slicing a Vec<u8> at a computed offset from an 8-byte boundary (asserted per case)",
                 "little-endian host"],
)
