//! C12 — line/column mapping is exact and independent of query history.
//!
//! S2: every text over {a, LF, CR} up to a length bound plus "long body" scale
//! families around the 16-line forward-walk cap; static API (`line_count`,
//! `line_start`, `to_offset`, in-bounds round trip) compared with a naive line
//! splitter. S1: closed-state BFS over the *real* `LineIndex` — node = concrete
//! value of the `cache` field (full Debug rendering), edge = one real
//! `to_line_column(o)` call, o from the whole offset alphabet; every answer is
//! compared with the naive scan. The cache is the only mutable state, so the
//! fixpoint decides the property for every finite query history on that text.
use engine::*;
use serde_json::{json, Value};
use std::collections::{HashMap, VecDeque};
use succinctly::json::JsonIndex;
use succinctly::text::LineIndex;
use succinctly::yaml::YamlIndex;

const WALK_CAP: usize = 16; // FORWARD_WALK_CAP in src/text/lines.rs (only used to name failure classes)

/// Naive splitter: LF, CR and CRLF are single breaks; a break at the very end
/// of the text does not open another line.
fn naive_starts(t: &[u8]) -> Vec<usize> {
    let mut starts = vec![0usize];
    let mut i = 0usize;
    while i < t.len() {
        let b = t[i];
        if b == b'\n' {
            i += 1;
        } else if b == b'\r' {
            i += 1;
            if i < t.len() && t[i] == b'\n' {
                i += 1;
            }
        } else {
            i += 1;
            continue;
        }
        if i < t.len() {
            starts.push(i);
        }
    }
    starts
}

/// Expected (line, column) of `o`; `None` when the exact column does not fit a usize.
fn expect_lc(starts: &[usize], o: usize) -> Option<(usize, usize)> {
    let mut li = 0usize;
    for (k, &s) in starts.iter().enumerate() {
        if s <= o {
            li = k;
        }
    }
    let col = (o - starts[li]).checked_add(1)?;
    Some((li + 1, col))
}

fn expect_offset(starts: &[usize], len: usize, line: usize, col: usize) -> Option<usize> {
    if line == 0 || col == 0 || line > starts.len() {
        return None;
    }
    let o = (starts[line - 1] as u128) + (col as u128) - 1;
    if o < len as u128 {
        Some(o as usize)
    } else {
        None
    }
}

/// Dedup key of the S1 search: the complete Debug rendering of the `cache`
/// field (the only mutable field; `starts` and `text_len` are immutable and
/// identical for all states of one search).
fn cache_key(li: &LineIndex) -> String {
    // Everything after the first field (`starts`, the immutable line-start table):
    // text_len and the cache, whatever its fields are called. No layout assertion —
    // a refactored cache entry must not turn into a false alarm.
    debug_key_without_first_field(&format!("{li:?}"))
}

fn ops_for(len: usize) -> Vec<usize> {
    let mut v: Vec<usize> = (0..=len + 2).collect();
    v.extend([u32::MAX as usize - 1, u32::MAX as usize, u32::MAX as usize + 5, 1usize << 40, usize::MAX - 1, usize::MAX]);
    v
}

fn walk_class(starts: &[usize], prev: Option<usize>, o: usize) -> String {
    let line = |x: usize| expect_lc(starts, x.min(u32::MAX as usize)).map(|p| p.0).unwrap_or(0);
    match prev {
        None => "cold".into(),
        Some(p) => {
            let (pq, oq) = (p.min(u32::MAX as usize), o.min(u32::MAX as usize));
            if pq == oq {
                if p == o {
                    "repeat".into()
                } else {
                    "repeat-clamped".into()
                }
            } else if oq < pq {
                "backward".into()
            } else {
                let w = line(o) - line(p);
                if w == 0 {
                    "forward:same-line".into()
                } else if w < WALK_CAP {
                    "forward:walk<cap".into()
                } else if w == WALK_CAP {
                    "forward:walk=cap".into()
                } else {
                    "forward:walk>cap".into()
                }
            }
        }
    }
}

fn judge(got: &Result<(usize, usize), String>, exp: (usize, usize)) -> Option<&'static str> {
    match got {
        Err(_) => Some("panic"),
        Ok(g) if *g == exp => None,
        Ok(g) if g.0 != exp.0 && g.1 != exp.1 => Some("wrong-line+column"),
        Ok(g) if g.0 != exp.0 => Some("wrong-line"),
        Ok(_) => Some("wrong-column"),
    }
}

/// S1: BFS over concrete cache states to a fixpoint.
fn history_bfs(t: &[u8], rep: &mut Report) {
    let starts = naive_starts(t);
    let n = t.len();
    let ops = ops_for(n);
    let li0 = LineIndex::build(t);
    let mut ids: HashMap<String, usize> = HashMap::new();
    let mut parent: Vec<(usize, Option<usize>)> = Vec::new(); // (parent id, op offset)
    let mut q: VecDeque<(usize, LineIndex)> = VecDeque::new();
    ids.insert(cache_key(&li0), 0);
    parent.push((0, None));
    q.push_back((0, li0));
    let path_of = |parent: &Vec<(usize, Option<usize>)>, mut id: usize, last: usize| -> Vec<usize> {
        let mut p = vec![last];
        while let (pid, Some(op)) = parent[id] {
            p.push(op);
            id = pid;
        }
        p.reverse();
        p
    };
    let mut skipped = 0u64;
    while let Some((id, li)) = q.pop_front() {
        rep.state();
        rep.distinct(&(t, cache_key(&li)));
        let prev = parent[id].1;
        for &o in &ops {
            let Some(exp) = expect_lc(&starts, o) else {
                skipped += 1;
                continue;
            };
            rep.trans(1);
            let l2 = li.clone();
            let got = catch(|| l2.to_line_column(o));
            if let Some(kind) = judge(&got, exp) {
                let cls = walk_class(&starts, prev, o);
                let huge = if o > u32::MAX as usize { ":offset>u32::MAX" } else { "" };
                let path = path_of(&parent, id, o);
                rep.fail(&format!("to_line_column:{kind}:{cls}{huge}"), n * 1000 + path.len(), || {
                    json!({"kind":"history","text":hex(t),"text_shown":show(t),"ops":path,"expected":[exp.0,exp.1],"got":format!("{got:?}")})
                });
                continue; // do not explore beyond a wrong answer
            }
            let k = cache_key(&l2);
            if !ids.contains_key(&k) {
                let nid = parent.len();
                ids.insert(k, nid);
                parent.push((id, Some(o)));
                q.push_back((nid, l2));
            }
        }
    }
    SKIPPED.fetch_add(skipped, std::sync::atomic::Ordering::Relaxed);
}

static SKIPPED: std::sync::atomic::AtomicU64 = std::sync::atomic::AtomicU64::new(0);

fn replay_history(t: &[u8], ops: &[usize], rep: &mut Report) {
    let starts = naive_starts(t);
    let li = LineIndex::build(t);
    let mut prev = None;
    for (step, &o) in ops.iter().enumerate() {
        let Some(exp) = expect_lc(&starts, o) else { continue };
        rep.trans(1);
        let got = catch(|| li.to_line_column(o));
        if let Some(kind) = judge(&got, exp) {
            let cls = walk_class(&starts, prev, o);
            let huge = if o > u32::MAX as usize { ":offset>u32::MAX" } else { "" };
            rep.fail(&format!("to_line_column:{kind}:{cls}{huge}"), step, || json!({"kind":"history","text":hex(t),"failed_at_step":step,"got":format!("{got:?}")}));
            return;
        }
        prev = Some(o);
    }
}

const HUGE: [usize; 5] = [1usize << 32, (1usize << 32) + 1, 1usize << 63, usize::MAX - 1, usize::MAX];

fn static_checks(t: &[u8], rep: &mut Report) {
    let starts = naive_starts(t);
    let n = t.len();
    let li = LineIndex::build(t);
    let case = || json!({"kind":"static","text":hex(t),"text_shown":show(t)});
    rep.evals(2);
    if li.line_count() != starts.len() {
        rep.fail("line_count", n, case);
    }
    if li.text_len() != n {
        rep.fail("text_len", n, case);
    }
    let mut lines: Vec<usize> = (0..=starts.len() + 2).collect();
    lines.extend(HUGE);
    for &l in &lines {
        rep.trans(1);
        let exp = if l >= 1 && l <= starts.len() { Some(starts[l - 1]) } else { None };
        let got = catch(|| li.line_start(l));
        if got != Ok(exp) {
            let w = if got.is_err() { "panic" } else { "wrong" };
            rep.fail(&format!("line_start:{w}"), n, || json!({"kind":"static","text":hex(t),"line":l,"got":format!("{got:?}"),"exp":format!("{exp:?}")}));
        }
    }
    // longest line + 2 columns, plus huge columns
    let mut maxlen = 0usize;
    for (k, &s) in starts.iter().enumerate() {
        let e = starts.get(k + 1).copied().unwrap_or(n);
        maxlen = maxlen.max(e - s);
    }
    let mut cols: Vec<usize> = (0..=(maxlen + 2).max(6)).collect();
    cols.extend(HUGE);
    for &l in &lines {
        for &c in &cols {
            rep.trans(1);
            let exp = expect_offset(&starts, n, l, c);
            let got = catch(|| li.to_offset(l, c));
            if got != Ok(exp) {
                let w = match &got {
                    Err(_) => "panic",
                    Ok(Some(_)) if exp.is_none() => "spurious",
                    Ok(None) => "none",
                    _ => "wrong",
                };
                let overflow = l >= 1 && l <= starts.len() && starts[l - 1].checked_add(c).is_none();
                let huge = if w == "panic" && overflow {
                    ":line_start+column-overflows-usize"
                } else if c > u32::MAX as usize {
                    ":column>u32::MAX"
                } else if l > u32::MAX as usize {
                    ":line>u32::MAX"
                } else {
                    ""
                };
                rep.fail(&format!("to_offset:{w}{huge}"), n, || json!({"kind":"static","text":hex(t),"text_shown":show(t),"line":l,"column":c,"got":format!("{got:?}"),"exp":format!("{exp:?}")}));
            }
        }
    }
    // in-bounds round trip on a fresh index per offset (history-free) — offset -> (l,c) -> offset
    for o in 0..n {
        rep.trans(2);
        let fresh = LineIndex::build(t);
        let r = catch(|| {
            let (l, c) = fresh.to_line_column(o);
            ((l, c), fresh.to_offset(l, c))
        });
        let exp = expect_lc(&starts, o).unwrap();
        match r {
            Ok((lc, back)) => {
                if lc != exp {
                    rep.fail("to_line_column:fresh-index", n, || json!({"kind":"static","text":hex(t),"text_shown":show(t),"offset":o,"got":[lc.0,lc.1],"exp":[exp.0,exp.1]}));
                } else if back != Some(o) {
                    rep.fail("round-trip:in-bounds-offset-lost", n, || json!({"kind":"static","text":hex(t),"text_shown":show(t),"offset":o,"back":format!("{back:?}")}));
                }
            }
            Err(m) => rep.fail("round-trip:panic", n, || json!({"kind":"static","text":hex(t),"offset":o,"panic":m})),
        }
    }
}

/// The same mapping through `JsonIndex` / `YamlIndex` (lazily built line index inside a OnceCell),
/// driven in three query orders on one index object.
fn wrapper_checks(t: &[u8], rep: &mut Report) {
    let starts = naive_starts(t);
    let n = t.len();
    let asc: Vec<usize> = (0..=n + 1).collect();
    let desc: Vec<usize> = asc.iter().rev().copied().collect();
    let mut zig: Vec<usize> = Vec::new();
    for i in 0..asc.len() {
        zig.push(if i % 2 == 0 { asc[i / 2] } else { asc[asc.len() - 1 - i / 2] });
    }
    let orders = [("asc", asc), ("desc", desc), ("zigzag", zig)];
    let ji = catch(|| JsonIndex::build(t));
    let yi = catch(|| YamlIndex::build(t));
    for (oname, order) in &orders {
        if let Ok(ji) = &ji {
            let ji = ji.clone();
            for &o in order {
                rep.trans(1);
                let exp = expect_lc(&starts, o).unwrap();
                let got = catch(|| ji.to_line_column(o, t));
                if got != Ok(exp) {
                    rep.fail(&format!("JsonIndex::to_line_column:{oname}"), n, || json!({"kind":"wrapper","text":hex(t),"text_shown":show(t),"offset":o,"got":format!("{got:?}"),"exp":[exp.0,exp.1]}));
                }
                if o < n {
                    rep.trans(1);
                    let back = catch(|| ji.to_offset(exp.0, exp.1, t));
                    if back != Ok(Some(o)) {
                        rep.fail("JsonIndex::to_offset", n, || json!({"kind":"wrapper","text":hex(t),"offset":o,"got":format!("{back:?}")}));
                    }
                }
            }
        }
        if let Ok(Ok(yi)) = &yi {
            let yi = yi.clone();
            for &o in order {
                rep.trans(1);
                let exp = expect_lc(&starts, o).unwrap();
                let got = catch(|| yi.to_line_column(o, t));
                if got != Ok(exp) {
                    rep.fail(&format!("YamlIndex::to_line_column:{oname}"), n, || json!({"kind":"wrapper","text":hex(t),"text_shown":show(t),"offset":o,"got":format!("{got:?}"),"exp":[exp.0,exp.1]}));
                }
                if o < n {
                    rep.trans(1);
                    let back = catch(|| yi.to_offset(exp.0, exp.1, t));
                    if back != Ok(Some(o)) {
                        rep.fail("YamlIndex::to_offset", n, || json!({"kind":"wrapper","text":hex(t),"offset":o,"got":format!("{back:?}")}));
                    }
                }
            }
        }
    }
    if let Ok(Ok(_)) = &yi {
        rep.evals(1);
    }
}

fn long_bodies(ctx: &Ctx) -> Vec<(String, Vec<u8>)> {
    let mut out = Vec::new();
    let ks: &[usize] = if ctx.quick() { &[15, 16, 17, 18, 33] } else { &[14, 15, 16, 17, 18, 19, 31, 32, 33, 34, 49] };
    let pps: [&[u8]; 5] = [b"", b"a", b"\r", b"\n\r", b"\r\n"];
    for &k in ks {
        for term in [&b"\n"[..], b"\r", b"\r\n"] {
            for line in [&b""[..], b"x"] {
                for pre in pps {
                    for post in pps {
                        let mut t = pre.to_vec();
                        for _ in 0..k {
                            t.extend_from_slice(line);
                            t.extend_from_slice(term);
                        }
                        t.extend_from_slice(post);
                        out.push(("long-body".to_string(), t));
                    }
                }
            }
        }
        // mixed terminators, varying line lengths (0,1,2 bytes) in one body
        let terms: [&[u8]; 3] = [b"\n", b"\r\n", b"\r"];
        for rot in 0..3 {
            let mut t = Vec::new();
            for i in 0..k {
                for _ in 0..(i % 3) {
                    t.push(b'y');
                }
                t.extend_from_slice(terms[(i + rot) % 3]);
            }
            t.extend_from_slice(b"z");
            out.push(("long-body-mixed".to_string(), t));
        }
    }
    out
}

fn explore(ctx: &Ctx, rep: &mut Report) {
    let maxlen = ctx.pick(8u32, 11u32);
    let alpha: [&[u8]; 3] = [b"a", b"\n", b"\r"];
    let r = par_strings(ctx, "small/static", &alpha, maxlen, |t, _idx, rep| {
        rep.input();
        guard(rep, "PANIC:static", t.len(), || json!({"kind":"static","text":hex(t)}), |rep| static_checks(t, rep));
    });
    rep.merge(r);
    let r = par_strings(ctx, "small/history", &alpha, maxlen, |t, idx, rep| {
        guard(rep, "PANIC:history", t.len(), || json!({"kind":"history-bfs","text":hex(t)}), |rep| history_bfs(t, rep));
        if idx.len() == 6 && idx.iter().enumerate().all(|(i, &k)| k == [1usize, 0, 2, 1, 0, 2][i]) {
            rep.sample(|| json!({"text":show(t),"ops":"BFS to fixpoint over to_line_column(o), o in 0..=len+2 and {2^32-2, 2^32-1, 2^32+4, 2^40, usize::MAX-1, usize::MAX}","line_starts":naive_starts(t)}));
        }
    });
    rep.merge(r);
    let wl = ctx.pick(6u32, 8u32);
    let r = par_strings(ctx, "small/JsonIndex+YamlIndex", &alpha, wl, |t, _idx, rep| {
        rep.input();
        guard(rep, "PANIC:wrapper", t.len(), || json!({"kind":"wrapper","text":hex(t)}), |rep| wrapper_checks(t, rep));
    });
    rep.merge(r);
    let fams = long_bodies(ctx);
    let r = par_range(ctx, fams.len() as u64, 4, |i, rep| {
        let (fam, t) = &fams[i as usize];
        rep.space(&format!("{fam}/static"));
        rep.input();
        guard(rep, "PANIC:static", t.len(), || json!({"kind":"static","text":hex(t)}), |rep| static_checks(t, rep));
        rep.space(&format!("{fam}/history"));
        guard(rep, "PANIC:history", t.len(), || json!({"kind":"history-bfs","text":hex(t)}), |rep| history_bfs(t, rep));
        if i == 7 {
            rep.sample(|| json!({"family":fam,"text":show(t),"lines":naive_starts(t).len()}));
        }
    });
    rep.merge(r);
    for k in rep.subspaces.keys().cloned().collect::<Vec<_>>() {
        if k.ends_with("/history") {
            rep.mark_exhaustive(&k, "every text of the family; BFS to fixpoint: every offset of the op alphabet applied in every reachable concrete cache state");
        } else if !k.is_empty() {
            rep.mark_exhaustive(&k, "every text of the family x every argument of the stated sets");
        }
    }
    rep.extra.insert("text_alphabet".into(), json!(["a", "\\n", "\\r"]));
    rep.extra.insert("max_text_len_small".into(), json!(maxlen));
    rep.extra.insert("op_alphabet".into(), json!("to_line_column(o): o in 0..=len+2 and {2^32-2, 2^32-1, 2^32+4, 2^40, usize::MAX-1, usize::MAX}; ops whose exact column exceeds usize::MAX are skipped (counted in ops_without_representable_answer)"));
    rep.extra.insert("ops_without_representable_answer".into(), json!(SKIPPED.load(std::sync::atomic::Ordering::Relaxed)));
    rep.extra.insert("static_arguments".into(), json!("line_start(l), to_offset(l,c): l in 0..=lines+2 and {2^32, 2^32+1, 2^63, usize::MAX-1, usize::MAX}; c in 0..=max(longest line+2, 6) and the same huge values"));
}

fn replay(case: &Value, rep: &mut Report) {
    let t = unhex(case["text"].as_str().unwrap());
    match case["kind"].as_str().unwrap_or("static") {
        "history" => {
            let ops: Vec<usize> = case["ops"].as_array().map(|a| a.iter().map(|v| v.as_u64().unwrap() as usize).collect()).unwrap_or_default();
            replay_history(&t, &ops, rep);
        }
        "history-bfs" => history_bfs(&t, rep),
        "wrapper" => wrapper_checks(&t, rep),
        _ => static_checks(&t, rep),
    }
}

fn main() {
    drive("C12", explore, replay);
}
