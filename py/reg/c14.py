SPEC = dict(
    kind="py", module="c14", bins=rust("c14"), design_ref="§3-C14",
    technique="bounded-exhaustive enumeration of (tree, presentation) pairs against the tree itself (small-scope S2); generator cross-checked against PyYAML",
    rule="trees: every shape with <= 3 nodes (quick) / <= 5 nodes (thorough, reduced leaves) over a 56-leaf alphabet (49 strings with YAML "
         "indicators, reserved words, leading/trailing spaces, non-ASCII, control characters; ints; bools; null) + 15 special keys; presentation chosen "
         "independently at every node (block / flow / tight flow / multi-line flow; plain / single / double / multi-line quoted / literal with "
         "-/clip/+ and indentation indicator / folded; plain / quoted / explicit keys; compact `- k: v`; unindented sequences; comments; blank and "
         "comment lines; indent 1/2/4) x LF/CRLF/CR x document markers x streams of 2-3 documents x anchor+alias shapes. Each sub-space is a finite "
         "product enumerated completely (evidence lists them). A case is distinct when its document bytes are new; non-trivial = every case (each "
         "is a different text whose loaded value is compared).",
    level_text="Every document of the stated presentation space is loaded by the real YamlIndex::build and its value is compared with the tree it "
               "was generated from through three routes (to_json_document, stream_json_document, a walk over value()/fields/elements/as_str/alias "
               "targets). Exhaustive within the alphabets; not a proof for documents outside them.",
    level_note="Oracle = the generator's tree; the emitter only produces forms whose YAML 1.2 value is certain (whitelisted plain scalars, folded "
               "scalars in three certain forms, keep-chomping never followed by blank lines) and is cross-checked on a slice of each run against PyYAML "
               "with 1.2 core-schema resolvers (a disagreement is a machinery error). serde_json parses the emitted JSON (trusted). Key order is compared.",
    assumptions=["strings outside the 49-string alphabet, tags, directives, merge keys, multi-line plain scalars, complex keys and tabs as separation are not generated",
                 "trees beyond 5 nodes are out of scope; quick stops at 3-node trees (4 nodes over 3 leaves)"],
    wall_cap={"quick": 600, "thorough": 3000},
)
