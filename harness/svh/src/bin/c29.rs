//! C29 — yq-locate expressions evaluate to the located YAML node (S2, composition).
//!
//! Space: the generated presentation space of C14 (`ygen::plan`: block / flow / multi-document
//! streams, all scalar and key styles, LF/CRLF/CR) × EVERY byte offset inside a scalar or key
//! token (generator spans). Per offset:
//!   * `yaml::locate_offset_detailed` must return an expression; the expression, evaluated
//!     against the JSON encoding of the array of documents (a) by a 30-line path evaluator
//!     written here and (b) by the library's own `jq::parse` + `jq::eval` over a `JsonIndex`
//!     of that JSON, must yield the node's value (for a key: the value the key names);
//!   * `at_offset(N)` through `eval_generic::eval_with_cursor` on the YAML root cursor must
//!     yield the token's own value (the key string for a key).
//! The expected values come from the generator's tree, never from succinctly.
use engine::*;
use serde_json::{json, Value};
use std::cell::RefCell;
use std::collections::HashMap;
use std::io::Write;
use std::sync::Mutex;
use succinctly::jq::{self, eval, Expr, JqSemantics, QueryResult};
use succinctly::json::JsonIndex;
use succinctly::yaml::{locate_offset_detailed, YamlIndex};

#[path = "../ygen.rs"]
mod ygen;
use ygen::{Mark, Step, Style};

/// Minimal evaluator for the path grammar yq-locate prints: `.`  |  ( `.name` | `["str"]` | `[n]` )+
/// with an optional leading `.` before a bracket. Returns Err on anything else.
fn mini_eval(expr: &str, input: &Value) -> Result<Value, String> {
    let b = expr.as_bytes();
    let mut cur = input.clone();
    if expr == "." {
        return Ok(cur);
    }
    let mut i = 0;
    while i < b.len() {
        match b[i] {
            b'.' => {
                i += 1;
                if i < b.len() && b[i] == b'[' {
                    continue;
                }
                let s = i;
                while i < b.len() && (b[i] == b'_' || (b[i] as char).is_ascii_alphanumeric() || b[i] >= 0x80) {
                    i += 1;
                }
                if s == i {
                    return Err(format!("empty name at {s}"));
                }
                let name = &expr[s..i];
                cur = match &cur {
                    Value::Object(m) => m.get(name).cloned().unwrap_or(Value::Null),
                    Value::Null => Value::Null,
                    _ => return Err("index non-object".into()),
                };
            }
            b'[' => {
                i += 1;
                if i < b.len() && b[i] == b'"' {
                    // JSON-style string with the escapes yq-locate writes
                    let s = i;
                    i += 1;
                    while i < b.len() && b[i] != b'"' {
                        if b[i] == b'\\' {
                            i += 1;
                        }
                        i += 1;
                    }
                    if i >= b.len() {
                        return Err("unterminated string".into());
                    }
                    i += 1;
                    // decode: \" \\ \n \r \t only; control characters appear raw
                    let raw = &expr[s + 1..i - 1];
                    let mut key = String::new();
                    let mut it = raw.chars();
                    while let Some(c) = it.next() {
                        if c == '\\' {
                            match it.next() {
                                Some('n') => key.push('\n'),
                                Some('r') => key.push('\r'),
                                Some('t') => key.push('\t'),
                                Some('"') => key.push('"'),
                                Some('\\') => key.push('\\'),
                                o => return Err(format!("escape {o:?}")),
                            }
                        } else {
                            key.push(c);
                        }
                    }
                    if i >= b.len() || b[i] != b']' {
                        return Err("expected ]".into());
                    }
                    i += 1;
                    cur = match &cur {
                        Value::Object(m) => m.get(&key).cloned().unwrap_or(Value::Null),
                        Value::Null => Value::Null,
                        _ => return Err("index non-object".into()),
                    };
                } else {
                    let s = i;
                    while i < b.len() && b[i].is_ascii_digit() {
                        i += 1;
                    }
                    if s == i || i >= b.len() || b[i] != b']' {
                        return Err("bad index".into());
                    }
                    let n: usize = expr[s..i].parse().map_err(|_| "bad number")?;
                    i += 1;
                    cur = match &cur {
                        Value::Array(a) => a.get(n).cloned().unwrap_or(Value::Null),
                        Value::Null => Value::Null,
                        _ => return Err("index non-array".into()),
                    };
                }
            }
            c => return Err(format!("unexpected byte {c:#x} at {i}")),
        }
    }
    Ok(cur)
}

/// Evaluate `expr` with the library's jq over the JSON text of the documents array.
fn jq_eval(expr: &str, json_text: &[u8]) -> Result<Vec<Value>, String> {
    let e = jq::parse(expr).map_err(|e| format!("parse:{e:?}"))?;
    let ix = JsonIndex::build(json_text);
    let r: QueryResult<Vec<u64>> = eval::<Vec<u64>, JqSemantics>(&e, ix.root(json_text));
    if let QueryResult::Error(e) = &r {
        return Err(format!("error:{}", e.message));
    }
    let vals = r.collect_owned();
    vals.iter().map(|v| serde_json::from_str::<Value>(&v.to_json()).map_err(|e| format!("json:{e}"))).collect()
}

thread_local! { static AT: RefCell<Vec<Option<Expr>>> = const { RefCell::new(Vec::new()) }; }

fn at_offset_value(ix: &YamlIndex, text: &[u8], off: usize) -> Result<Value, String> {
    AT.with(|c| {
        let mut c = c.borrow_mut();
        if c.len() <= off {
            c.resize_with(off + 1, || None);
        }
        if c[off].is_none() {
            c[off] = Some(jq::parse(&format!("at_offset({off})")).map_err(|e| format!("parse:{e:?}"))?);
        }
        let e = c[off].as_ref().unwrap();
        let r = jq::eval_generic::eval_with_cursor(e, ix.root(text));
        if r.is_error() {
            return Err("error".into());
        }
        let vals = r.collect_owned();
        if vals.len() != 1 {
            return Err(format!("{} results", vals.len()));
        }
        serde_json::from_str::<Value>(&vals[0].to_json()).map_err(|e| format!("json:{e}"))
    })
}

fn style_name(m: &Mark) -> &'static str {
    if m.key {
        match m.style {
            Style::Plain => "key-plain",
            Style::Single => "key-single",
            _ => "key-double",
        }
    } else {
        m.style.name()
    }
}

/// Where inside the token the offset lies (structural feature for signatures).
fn where_in(text: &[u8], m: &Mark, off: usize) -> &'static str {
    let (s, e) = (m.start as usize, m.end as usize);
    let tok = &text[s..e];
    let first_break = tok.iter().position(|&b| b == b'\n' || b == b'\r');
    match first_break {
        Some(fb) if off >= s + fb => {
            if matches!(m.style, Style::Literal | Style::Folded) {
                "block-content"
            } else {
                "continuation-line"
            }
        }
        _ => {
            if off == s {
                "first-byte"
            } else if matches!(m.style, Style::Literal | Style::Folded) {
                "block-header"
            } else {
                "interior"
            }
        }
    }
}

fn col_of(text: &[u8], off: usize) -> usize {
    let ls = text[..off].iter().rposition(|&b| b == b'\n' || b == b'\r').map_or(0, |i| i + 1);
    off - ls
}

/// Structural context of a token that links a failure to a loader defect already listed under C14.
fn context(text: &[u8], marks: &[Mark], paths: &[Vec<Step>], m: &Mark, docs: &Value) -> Option<&'static str> {
    let path = &paths[m.pid as usize];
    // root block scalar on its own line with `: ` in the content
    if !m.key && path.len() == 1 && matches!(m.style, Style::Literal | Style::Folded) && col_of(text, m.start as usize) == 0 {
        if let Some(s) = ygen::at_path(docs, path).and_then(|v| v.as_str()) {
            if s.contains(": ") || s.contains(":\n") || s.ends_with(':') {
                return Some("root-block-scalar-on-own-line-with-colon-space");
            }
        }
    }
    // a document that follows such a root block scalar is shifted by the spurious extra node
    if let Some(Step::Idx(d)) = path.first() {
        for k in marks {
            let kp = &paths[k.pid as usize];
            if let [Step::Idx(kd)] = kp[..] {
                if kd < *d && !k.key && matches!(k.style, Style::Literal | Style::Folded) && col_of(text, k.start as usize) == 0 {
                    if let Some(s) = ygen::at_path(docs, kp).and_then(|v| v.as_str()) {
                        if s.contains(": ") {
                            return Some("document-after-root-block-scalar-with-colon-space");
                        }
                    }
                }
            }
        }
    }
    // block scalar with explicit indentation indicator on a `- ` line whose parent is not at the
    // line's indentation (C14 finding: parent indentation taken from the first dash)
    if !m.key && matches!(m.style, Style::Literal | Style::Folded) {
        let hdr_end = text[m.start as usize..m.end as usize].iter().position(|&b| b == b'\n' || b == b'\r').map_or(m.end as usize, |i| m.start as usize + i);
        if text[m.start as usize..hdr_end].iter().any(|b| b.is_ascii_digit()) {
            let ls = m.start as usize - col_of(text, m.start as usize);
            let prefix = &text[ls..m.start as usize];
            let li = prefix.iter().take_while(|&&b| b == b' ').count();
            if prefix.get(li) == Some(&b'-') && prefix.get(li + 1) == Some(&b' ') {
                let has_colon = prefix[li + 2..].contains(&b':');
                let assumed = li + if has_colon { 2 } else { 0 };
                let actual = if has_colon {
                    marks.iter().find(|k| k.key && paths[k.pid as usize] == *path).map_or(usize::MAX, |k| col_of(text, k.start as usize))
                } else {
                    prefix.iter().rposition(|&b| b == b'-').unwrap_or(0)
                };
                if assumed != actual {
                    return Some("block-scalar-explicit-indent-on-compact-line");
                }
            }
        }
    }
    None
}

struct Stats {
    offsets: u64,
}

fn check_doc(text: &[u8], marks: &[Mark], paths: &[Vec<Step>], docs: &Value, space: &str, rep: &mut Report, dump: Option<(&Mutex<Option<std::io::BufWriter<std::fs::File>>>, u64)>) -> Stats {
    let mut st = Stats { offsets: 0 };
    let size = text.len();
    let base = || json!({"kind":"doc","space":space,"hex":hex(text),"doc":show(text),"docs":docs,"marks":ygen::marks_json(marks, paths)});
    let ix = match catch(|| YamlIndex::build(text)) {
        Err(p) => {
            rep.fail("PANIC:build", size, || {
                let mut c = base();
                c["panic"] = json!(p);
                c
            });
            return st;
        }
        Ok(Err(_)) => {
            rep.fail("locate:document-does-not-load", size, base);
            return st;
        }
        Ok(Ok(ix)) => ix,
    };
    let json_text = serde_json::to_vec(docs).unwrap();
    let mut jq_cache: HashMap<String, Result<Vec<Value>, String>> = HashMap::new();
    for m in marks {
        let path = &paths[m.pid as usize];
        let node_val = ygen::at_path(docs, path).cloned().unwrap_or(Value::Null);
        let token_val = if m.key {
            match path.last() {
                Some(Step::Key(k)) => Value::String(k.clone()),
                _ => Value::Null,
            }
        } else {
            node_val.clone()
        };
        let mut pending: Vec<(usize, String, &'static str, Value)> = Vec::new();
        let sn = style_name(m);
        for off in m.start as usize..m.end as usize {
            st.offsets += 1;
            rep.trans(2);
            let wh = where_in(text, m, off);
            let mut ctxs = |_rep: &mut Report, what: &str, got: Value| {
                pending.push((off, what.to_string(), wh, got));
            };
            // ---- locate -> expression -> evaluate
            match catch(|| locate_offset_detailed(&ix, text, off)) {
                Err(p) => ctxs(rep, "PANIC-locate", json!(p)),
                Ok(None) => ctxs(rep, "no-result", Value::Null),
                Ok(Some(res)) => {
                    let expr = res.expression;
                    match mini_eval(&expr, docs) {
                        Err(e) => ctxs(rep, "expression-outside-path-grammar", json!({"expression": expr, "error": e})),
                        Ok(v) => {
                            if v != node_val {
                                ctxs(rep, "expression-wrong-node", json!({"expression": expr, "evaluates_to": v}));
                            } else {
                                rep.distinct(&(space, &expr, wh, sn));
                            }
                            // the library's own jq must agree with the mini evaluator on this expression
                            rep.evals(1);
                            let r = jq_cache.entry(expr.clone()).or_insert_with(|| catch(|| jq_eval(&expr, &json_text)).unwrap_or_else(|p| Err(format!("PANIC:{p}"))));
                            match r {
                                Ok(vs) if vs.len() == 1 && vs[0] == v => {}
                                other => {
                                    let got = json!({"expression": expr, "mini": v, "jq": format!("{other:?}")});
                                    // one root cause, one signature: a dot-notation component with a non-ASCII
                                    // name that the jq parser cannot read
                                    let eb = expr.as_bytes();
                                    let non_ascii_dot_after_bracket = (0..eb.len().saturating_sub(2)).any(|i| eb[i] == b']' && eb[i + 1] == b'.' && eb[i + 2] >= 0x80);
                                    let panicked = matches!(other, Err(e) if e.starts_with("PANIC"));
                                    if non_ascii_dot_after_bracket && panicked {
                                        ctxs(rep, "jq:expression-panics-jq-parser:non-ascii-dot-name-after-bracket", got);
                                    } else {
                                        ctxs(rep, "expression-jq-eval-differs-from-path-semantics", got);
                                    }
                                }
                            }
                            if let Some((d, modulo)) = dump {
                                if modulo > 0 && h64(&(text, off)) % modulo == 0 {
                                    if let Some(w) = d.lock().unwrap().as_mut() {
                                        let cx = context(text, marks, paths, m, docs).unwrap_or("-");
                                        let line = format!("{}\t{}\t{}\t{}\t{}\t{}\t{}\n", hex(text), off, hex(expr.as_bytes()), docs, node_val, token_val, cx);
                                        w.write_all(line.as_bytes()).unwrap();
                                    }
                                }
                            }
                        }
                    }
                }
            }
            // ---- at_offset
            match catch(|| at_offset_value(&ix, text, off)) {
                Err(p) => ctxs(rep, "PANIC-at_offset", json!(p)),
                Ok(Err(e)) => ctxs(rep, "at_offset-error", json!(e)),
                Ok(Ok(v)) => {
                    if v != token_val {
                        ctxs(rep, "at_offset-wrong-value", v);
                    }
                }
            }
        }
        if !pending.is_empty() {
            let tok_len = (m.end - m.start) as usize;
            let c = context(text, marks, paths, m, docs);
            let mut by_what: HashMap<String, usize> = HashMap::new();
            for p in &pending {
                *by_what.entry(p.1.clone()).or_default() += 1;
            }
            for (off, what, wh, got) in pending {
                let wh = if by_what[&what] == tok_len && tok_len > 1 { "every-offset" } else { wh };
                let sig = match c {
                    // failures inside a construct the LOADER mis-reads (C14 findings) are attributed to that construct
                    Some(c) => format!("locate:loader-defect:{c}"),
                    None if what.starts_with("jq:") => format!("locate:{what}"),
                    None => format!("locate:{what}:{sn}:{wh}"),
                };
                rep.fail(&sig, size * 1000 + off, || {
                    let mut b = base();
                    b["offset"] = json!(off);
                    b["token"] = json!({"start": m.start, "end": m.end, "key": m.key, "style": sn});
                    b["expected_node_value"] = node_val.clone();
                    b["expected_token_value"] = token_val.clone();
                    b["got"] = got;
                    b
                });
            }
        }
    }
    st
}

static DUMP: Mutex<Option<std::io::BufWriter<std::fs::File>>> = Mutex::new(None);

fn explore(ctx: &Ctx, rep: &mut Report) {
    // self-test of the mini evaluator on hand-written cases (machinery error when wrong)
    let t = json!([{"a": [1, {"b c": "x"}], "é": null}, "s"]);
    for (e, want) in [(".", t.clone()), (".[0].a[1][\"b c\"]", json!("x")), (".[1]", json!("s")), (".[0].é", Value::Null), (".[0].a[0]", json!(1)), (".[0][\"a\"][5]", Value::Null)] {
        let got = mini_eval(e, &t).unwrap_or_else(|x| panic!("mini_eval self-test: {e}: {x}"));
        assert!(got == want, "mini_eval self-test failed on {e}: {got} != {want}");
    }
    assert!(mini_eval(".a | .b", &t).is_err() && mini_eval(".[", &t).is_err(), "mini_eval must reject non-path expressions");
    let mut spaces = ygen::plan(ctx.quick());
    if ctx.quick() {
        // quick tier: the anchor shapes (the largest sub-space; aliases themselves are not probed) under LF only
        for s in spaces.iter_mut().filter(|s| s.name == "anchors") {
            s.brks = vec![ygen::Brk::Lf];
            s.what.push_str(" [C29 quick: LF only]");
        }
        for s in spaces.iter_mut().filter(|s| s.name == "styles/n=3") {
            s.wraps = vec![ygen::Wrap::None];
            s.what.push_str(" [C29 quick: no wrapper]");
        }
    }
    let dump_mod: u64 = ctx.arg("--dump-mod").and_then(|s| s.parse().ok()).unwrap_or(0);
    if let Some(p) = ctx.arg("--dump-cases") {
        *DUMP.lock().unwrap() = Some(std::io::BufWriter::new(std::fs::File::create(p).expect("dump file")));
    }
    let offs = std::sync::atomic::AtomicU64::new(0);
    let dump_only = ctx.args.iter().any(|a| a == "--dump-only");
    let r = ygen::explore_plan(ctx, &spaces, |c, rep| {
        if dump_only && h64(c.text) % 32 != 0 {
            return;
        }
        rep.input();
        let st = check_doc(c.text, c.marks, c.paths, c.docs, c.space, rep, Some((&DUMP, dump_mod)));
        offs.fetch_add(st.offsets, std::sync::atomic::Ordering::Relaxed);
        if h64(c.text) % 2_000_003 == 1 {
            rep.sample(|| json!({"space": c.space, "doc": show(c.text), "tokens": ygen::marks_json(c.marks, c.paths), "checked": "every offset of every token: locate -> expression -> value; at_offset -> token value"}));
        }
    });
    if let Some(w) = DUMP.lock().unwrap().as_mut() {
        w.flush().unwrap();
    }
    rep.merge(r);
    // Scale family: streams with more nodes than one 64-bit word of the position tables holds. `n` leading
    // `kNN: vNN` pairs slide a nested block mapping (a container that shares its start byte with its first key)
    // across every node index modulo 64 — the reverse lookup "text position -> deepest node starting there" has to
    // follow a run of nodes with the same start across word boundaries. Single- and multi-document streams.
    let nmax = ctx.pick(70usize, 140usize);
    let r = par_range_in(ctx, "scale/pairs-then-nested", (nmax as u64 + 1) * 2, 1, |i, rep| {
        let n = (i / 2) as usize;
        let multi = i % 2 == 1;
        let mut text = String::new();
        let mut marks: Vec<Mark> = Vec::new();
        let mut paths: Vec<Vec<Step>> = Vec::new();
        let mut docs: Vec<Value> = Vec::new();
        let mut doc_idx = 0usize;
        if multi {
            text.push_str("---\n[a, {b: c}, d]\n---\n");
            docs.push(json!(["a", {"b": "c"}, "d"]));
            doc_idx = 1;
        }
        let mut obj = serde_json::Map::new();
        let mut add = |text: &mut String, marks: &mut Vec<Mark>, paths: &mut Vec<Vec<Step>>, path: Vec<Step>, tok: &str, key: bool| {
            let start = text.len() as u32;
            text.push_str(tok);
            paths.push(path);
            marks.push(Mark { start, end: text.len() as u32, pid: (paths.len() - 1) as u16, key, style: Style::Plain });
        };
        for k in 0..n {
            let (key, val) = (format!("k{k:02}"), format!("v{k:02}"));
            add(&mut text, &mut marks, &mut paths, vec![Step::Idx(doc_idx), Step::Key(key.clone())], &key, true);
            text.push_str(": ");
            add(&mut text, &mut marks, &mut paths, vec![Step::Idx(doc_idx), Step::Key(key.clone())], &val, false);
            text.push('\n');
            obj.insert(key, json!(val));
        }
        add(&mut text, &mut marks, &mut paths, vec![Step::Idx(doc_idx), Step::Key("tail".into())], "tail", true);
        text.push_str(":\n  ");
        for (j, (k, v)) in [("name", "deep"), ("other", "x")].iter().enumerate() {
            if j > 0 {
                text.push_str("  ");
            }
            let p = vec![Step::Idx(doc_idx), Step::Key("tail".into()), Step::Key(k.to_string())];
            add(&mut text, &mut marks, &mut paths, p.clone(), k, true);
            text.push_str(": ");
            add(&mut text, &mut marks, &mut paths, p, v, false);
            text.push('\n');
        }
        obj.insert("tail".into(), json!({"name": "deep", "other": "x"}));
        docs.push(Value::Object(obj));
        let docs = Value::Array(docs);
        rep.input();
        rep.distinct(&("pairs-then-nested", n, multi));
        check_doc(text.as_bytes(), &marks, &paths, &docs, "scale/pairs-then-nested", rep, None);
    });
    let mut r = r;
    r.mark_exhaustive("scale/pairs-then-nested", &format!("n = 0..={nmax} leading pairs then a nested block mapping, as a single document and after a leading flow document; every offset of every token"));
    rep.merge(r);
    rep.extra.insert("qualifying_offsets".into(), json!(offs.load(std::sync::atomic::Ordering::Relaxed)));
}

fn replay(case: &Value, rep: &mut Report) {
    let text = unhex(case["hex"].as_str().unwrap());
    let mut paths: Vec<Vec<Step>> = Vec::new();
    let mut marks = Vec::new();
    for m in case["marks"].as_array().cloned().unwrap_or_default() {
        let p: Vec<Step> = m["path"].as_array().unwrap().iter().map(|s| if let Some(k) = s.as_str() { Step::Key(k.to_string()) } else { Step::Idx(s.as_u64().unwrap() as usize) }).collect();
        let pid = paths.iter().position(|q| q == &p).unwrap_or_else(|| {
            paths.push(p.clone());
            paths.len() - 1
        });
        let style = [Style::Plain, Style::Single, Style::Double, Style::SingleMultiline, Style::DoubleMultiline, Style::Literal, Style::Folded, Style::IntDec, Style::IntHex, Style::IntOct, Style::Bool, Style::NullWord, Style::NullEmpty]
            .into_iter()
            .find(|s| s.name() == m["style"].as_str().unwrap())
            .unwrap();
        marks.push(Mark { start: m["start"].as_u64().unwrap() as u32, end: m["end"].as_u64().unwrap() as u32, pid: pid as u16, key: m["key"].as_bool().unwrap(), style });
    }
    rep.space("replay");
    rep.input();
    check_doc(&text, &marks, &paths, &case["docs"], "replay", rep, None);
}

fn main() {
    drive("C29", explore, replay);
}
