SPEC = dict(
    kind="mixed", bins=rust("c29"), module="c29", design_ref="§3-C29",
    technique="bounded-exhaustive enumeration of (document, offset) pairs; composition locate -> expression -> evaluate against the generator's tree",
    rule="documents: the C14 presentation space (trees <= 3 nodes quick / <= 5 thorough, every style, LF/CRLF/CR, markers, 2-3 document streams, "
         "anchors); offsets: EVERY byte offset inside every scalar or key token (generator spans; block scalars include header and content lines; "
         "multi-line quoted scalars include continuation lines). A case is distinct+non-trivial when its (sub-space, expression, position class "
         "inside the token, token style) combination is new.",
    level_text="For every qualifying offset of every generated stream the real locate_offset_detailed is called, its expression is evaluated "
               "against the JSON array of documents both by a 30-line path evaluator and by the library's own jq (parse + eval over a JsonIndex), "
               "and must give the node's value from the generator's tree (for a key: the value it names); at_offset(N) through the generic "
               "evaluator must give the token's own value. A slice goes through the real commands (yq-locate FILE --offset N | jq EXPR, yq at_offset).",
    level_note="Expected values come from the generator's tree (emitter cross-checked against PyYAML by C14). byte_range/value_type of the detailed "
               "result are not part of the statement and are not judged. Failures inside constructs the loader itself mis-reads (C14 findings) are "
               "attributed to those constructs. CLI side: __verif-batch hook with a real-process equivalence slice; every candidate confirmed by real processes.",
    assumptions=["alias tokens (`*x`) and anchor names are not scalars or keys and are not probed", "at_offset through the yq CLI is checked for single-document streams only (yq evaluates per document)"],
    wall_cap={"quick": 900, "thorough": 3400},
)
