//! Reference models shared by the C01 / C02 / C04 explorers.
//!
//! Everything here is deliberately boring: bits are read one at a time out of
//! the *raw* words handed to the code under test, answers come from prefix sums
//! and position lists built by that single scan, parentheses are matched with a
//! stack (and, for the self-test, by the literal excess scans of the property
//! statement). Nothing in this file calls into `succinctly`.
#![allow(dead_code)]

use serde_json::{json, Value};

pub const NONE: u32 = u32::MAX;

/// Bit `i` of a word slice, read on its own (false beyond the slice).
#[inline]
pub fn bit(words: &[u64], i: usize) -> bool {
    match words.get(i / 64) {
        Some(w) => (w >> (i % 64)) & 1 == 1,
        None => false,
    }
}

/// Number of set bits in `w`, counted one bit at a time.
#[inline]
pub fn count_bits(w: u64) -> u32 {
    let mut c = 0;
    for i in 0..64 {
        if (w >> i) & 1 == 1 {
            c += 1;
        }
    }
    c
}

/// The first `len` bits of `words` as 0/1 bytes.
pub fn expand(words: &[u64], len: usize) -> Vec<u8> {
    (0..len).map(|i| bit(words, i) as u8).collect()
}

/// Pack 0/1 bytes into words (bits >= len are zero).
pub fn pack(bits: &[u8]) -> Vec<u64> {
    let mut w = vec![0u64; bits.len().div_ceil(64)];
    for (i, &b) in bits.iter().enumerate() {
        if b != 0 {
            w[i / 64] |= 1u64 << (i % 64);
        }
    }
    w
}

/// True when the storage has a 1-bit at or past `len` (stray bit).
pub fn has_stray(words: &[u64], len: usize) -> bool {
    (len..words.len() * 64).any(|i| bit(words, i))
}

/// Set every bit at or past `len` in the word holding bit `len` (no-op when
/// `len` is a multiple of 64).
pub fn dirty_tail(words: &mut [u64], len: usize) {
    if len % 64 != 0 {
        let wi = len / 64;
        if wi < words.len() {
            for b in (len % 64)..64 {
                words[wi] |= 1u64 << b;
            }
        }
    }
}

/// Clear every bit at or past `len` and drop words that hold no valid bit.
pub fn clean_to_len(words: &mut Vec<u64>, len: usize) {
    words.truncate(len.div_ceil(64));
    if len % 64 != 0 {
        let wi = len / 64;
        for b in (len % 64)..64 {
            words[wi] &= !(1u64 << b);
        }
    }
}

/// Rank/select model over the first `len` bits.
pub struct Ranks {
    pub len: usize,
    pub bits: Vec<u8>,
    /// pre[i] = number of 1-bits in [0, i), i in 0..=len
    pub pre: Vec<u32>,
    pub ones: Vec<u32>,
    pub zeros: Vec<u32>,
}

impl Ranks {
    pub fn new(words: &[u64], len: usize) -> Self {
        let bits = expand(words, len);
        let mut pre = Vec::with_capacity(len + 1);
        let mut ones = Vec::new();
        let mut zeros = Vec::new();
        let mut c = 0u32;
        pre.push(0);
        for (i, &b) in bits.iter().enumerate() {
            if b == 1 {
                c += 1;
                ones.push(i as u32);
            } else {
                zeros.push(i as u32);
            }
            pre.push(c);
        }
        Ranks { len, bits, pre, ones, zeros }
    }
    #[inline]
    pub fn rank1(&self, i: usize) -> usize {
        self.pre[i.min(self.len)] as usize
    }
    #[inline]
    pub fn rank0(&self, i: usize) -> usize {
        let j = i.min(self.len);
        j - self.pre[j] as usize
    }
    #[inline]
    pub fn select1(&self, k: usize) -> Option<usize> {
        self.ones.get(k).map(|&p| p as usize)
    }
    #[inline]
    pub fn select0(&self, k: usize) -> Option<usize> {
        self.zeros.get(k).map(|&p| p as usize)
    }
}

/// Parenthesis model (1 = open) over the first `len` bits, one stack pass.
pub struct Parens {
    pub r: Ranks,
    /// matching partner of every position, NONE when unmatched
    pub mate: Vec<u32>,
    /// for an open at p: innermost open q < p still unclosed at p (NONE if there is none); NONE for closes
    pub encl: Vec<u32>,
}

impl Parens {
    pub fn new(words: &[u64], len: usize) -> Self {
        let r = Ranks::new(words, len);
        let mut mate = vec![NONE; len];
        let mut encl = vec![NONE; len];
        let mut stack: Vec<u32> = Vec::new();
        for i in 0..len {
            if r.bits[i] == 1 {
                if let Some(&q) = stack.last() {
                    encl[i] = q;
                }
                stack.push(i as u32);
            } else if let Some(j) = stack.pop() {
                mate[i] = j;
                mate[j as usize] = i as u32;
            }
        }
        Parens { r, mate, encl }
    }
    #[inline]
    pub fn len(&self) -> usize {
        self.r.len
    }
    #[inline]
    pub fn is_open(&self, p: usize) -> bool {
        p < self.r.len && self.r.bits[p] == 1
    }
    #[inline]
    pub fn is_close(&self, p: usize) -> bool {
        p < self.r.len && self.r.bits[p] == 0
    }
    pub fn find_close(&self, p: usize) -> Option<usize> {
        if !self.is_open(p) || self.mate[p] == NONE {
            None
        } else {
            Some(self.mate[p] as usize)
        }
    }
    pub fn find_open(&self, p: usize) -> Option<usize> {
        if !self.is_close(p) || self.mate[p] == NONE {
            None
        } else {
            Some(self.mate[p] as usize)
        }
    }
    pub fn enclose(&self, p: usize) -> Option<usize> {
        if !self.is_open(p) || self.encl[p] == NONE {
            None
        } else {
            Some(self.encl[p] as usize)
        }
    }
    /// opens minus closes in [0, p], p < len
    pub fn excess(&self, p: usize) -> i64 {
        let ones = self.r.pre[p + 1] as i64;
        2 * ones - (p as i64 + 1)
    }
    pub fn first_child(&self, p: usize) -> Option<usize> {
        if self.is_open(p) && self.is_open(p + 1) {
            Some(p + 1)
        } else {
            None
        }
    }
    pub fn next_sibling(&self, p: usize) -> Option<usize> {
        let c = self.find_close(p)?;
        if self.is_open(c + 1) {
            Some(c + 1)
        } else {
            None
        }
    }
    /// number of opens strictly between p and its matching close
    pub fn subtree_size(&self, p: usize) -> Option<usize> {
        let c = self.find_close(p)?;
        Some((self.r.pre[c] - self.r.pre[p + 1]) as usize)
    }
}

// ---- literal definitions (quadratic; used on short inputs and to self-test the stack model) ----

/// Left-to-right excess scan: first q > p where the excess, 1 after the open at p, returns to 0.
pub fn scan_find_close(bits: &[u8], p: usize) -> Option<usize> {
    if p >= bits.len() || bits[p] == 0 {
        return None;
    }
    let mut e = 1i64;
    for q in p + 1..bits.len() {
        if bits[q] == 1 {
            e += 1;
        } else {
            e -= 1;
            if e == 0 {
                return Some(q);
            }
        }
    }
    None
}

/// Right-to-left excess scan from the close at p: first q < p where the count of closes minus opens returns to 0.
pub fn scan_find_open(bits: &[u8], p: usize) -> Option<usize> {
    if p >= bits.len() || bits[p] == 1 {
        return None;
    }
    let mut e = 1i64;
    for q in (0..p).rev() {
        if bits[q] == 0 {
            e += 1;
        } else {
            e -= 1;
            if e == 0 {
                return Some(q);
            }
        }
    }
    None
}

/// Right-to-left scan from p-1: first open q whose opens-minus-closes count over [q, p) reaches +1.
pub fn scan_enclose(bits: &[u8], p: usize) -> Option<usize> {
    if p >= bits.len() || bits[p] == 0 {
        return None;
    }
    let mut e = 0i64;
    for q in (0..p).rev() {
        if bits[q] == 1 {
            e += 1;
            if e == 1 {
                return Some(q);
            }
        } else {
            e -= 1;
        }
    }
    None
}

/// Panic (machinery error) unless the stack model agrees with the literal scans at every position.
pub fn selftest_parens(m: &Parens) {
    let n = m.len();
    for p in 0..n + 2 {
        assert_eq!(m.find_close(p), scan_find_close(&m.r.bits, p), "oracle self-test: find_close at {p}");
        assert_eq!(m.find_open(p), scan_find_open(&m.r.bits, p), "oracle self-test: find_open at {p}");
        assert_eq!(m.enclose(p), scan_enclose(&m.r.bits, p), "oracle self-test: enclose at {p}");
    }
    let mut e = 0i64;
    for p in 0..n {
        e += if m.r.bits[p] == 1 { 1 } else { -1 };
        assert_eq!(m.excess(p), e, "oracle self-test: excess at {p}");
    }
}

// ---- case encoding ----

pub fn words_json(words: &[u64]) -> Value {
    // run-length form keeps replay files of 2 000-word inputs small: ["hex", count] pairs
    let mut out: Vec<Value> = Vec::new();
    let mut i = 0;
    while i < words.len() {
        let mut j = i;
        while j < words.len() && words[j] == words[i] {
            j += 1;
        }
        if j - i == 1 {
            out.push(json!(format!("{:016x}", words[i])));
        } else {
            out.push(json!([format!("{:016x}", words[i]), j - i]));
        }
        i = j;
    }
    Value::Array(out)
}

pub fn words_from_json(v: &Value) -> Vec<u64> {
    let mut out = Vec::new();
    for e in v.as_array().expect("words array") {
        match e {
            Value::String(s) => out.push(u64::from_str_radix(s, 16).expect("hex word")),
            Value::Array(a) => {
                let w = u64::from_str_radix(a[0].as_str().expect("hex"), 16).expect("hex word");
                for _ in 0..a[1].as_u64().expect("count") {
                    out.push(w);
                }
            }
            _ => panic!("bad word entry"),
        }
    }
    out
}

pub fn usize_json(x: usize) -> Value {
    json!(x as u64)
}

pub fn usize_from(v: &Value) -> usize {
    v.as_u64().expect("usize") as usize
}
