//! Shared machinery for the bounded-exhaustive explorers in `svh`.
//!
//! * `Report` — counts, distinct-case hashes, samples, per-sub-space figures and
//!   failures grouped by *signature* (one root cause ⇒ one signature; the
//!   smallest failing case is kept as the replayable example).
//! * `par_range` / `par_strings` — deterministic sharding of an index space over
//!   worker threads (no randomness; the shard order is rotated by VERIF_SEED
//!   only).
//! * `drive` — the `main` of every explorer binary: parses `--tier/--out/
//!   --replay`, runs exploration or replays one case twice, writes the report.
//!
//! Nothing here calls the code under test.

use serde_json::{json, Map, Value};
use std::collections::{BTreeMap, BTreeSet, HashSet};
use std::hash::{Hash, Hasher};
use std::panic::{catch_unwind, AssertUnwindSafe};
use std::sync::atomic::{AtomicU64, AtomicUsize, Ordering};
use std::sync::Mutex;
use std::time::Instant;

pub mod gen;
pub mod oracle;

pub const MAX_SAMPLES: usize = 6;

#[derive(Default, Clone, Debug)]
pub struct SubSpace {
    pub inputs: u64,
    pub evaluations: u64,
    pub states: u64,
    pub transitions: u64,
    pub exhaustive: bool,
    pub note: String,
}

#[derive(Clone, Debug)]
pub struct Failure {
    pub count: u64,
    pub size: usize,
    pub example: Value,
}

#[derive(Default)]
pub struct Report {
    /// distinct inputs / concrete states explored
    pub states: u64,
    /// real API calls compared with the oracle
    pub transitions: u64,
    /// oracle comparisons (>= transitions when one call yields several observations)
    pub evaluations: u64,
    pub distinct: HashSet<u64>,
    pub samples: Vec<Value>,
    pub subspaces: BTreeMap<String, SubSpace>,
    pub failures: BTreeMap<String, Failure>,
    pub paths: BTreeSet<String>,
    pub caps: Vec<String>,
    pub notes: Vec<String>,
    pub extra: Map<String, Value>,
    cur: String,
}

pub fn h64<T: Hash + ?Sized>(t: &T) -> u64 {
    let mut h = std::collections::hash_map::DefaultHasher::new();
    t.hash(&mut h);
    h.finish()
}

impl Report {
    pub fn new() -> Self {
        Self::default()
    }
    /// Select the sub-space subsequent counts are attributed to.
    pub fn space(&mut self, name: &str) {
        self.cur = name.to_string();
        self.subspaces.entry(name.to_string()).or_default();
    }
    fn sub(&mut self) -> &mut SubSpace {
        let k = self.cur.clone();
        self.subspaces.entry(k).or_default()
    }
    pub fn input(&mut self) {
        self.states += 1;
        self.sub().inputs += 1;
    }
    pub fn state(&mut self) {
        self.states += 1;
        self.sub().states += 1;
    }
    pub fn trans(&mut self, n: u64) {
        self.transitions += n;
        self.evaluations += n;
        let s = self.sub();
        s.transitions += n;
        s.evaluations += n;
    }
    pub fn evals(&mut self, n: u64) {
        self.evaluations += n;
        self.sub().evaluations += n;
    }
    /// Record a distinct non-trivial case by hash.
    pub fn distinct<T: Hash + ?Sized>(&mut self, t: &T) {
        self.distinct.insert(h64(t));
    }
    pub fn sample(&mut self, mk: impl FnOnce() -> Value) {
        if self.samples.len() < MAX_SAMPLES {
            self.samples.push(mk());
        }
    }
    pub fn path(&mut self, p: &str) {
        if !self.paths.contains(p) {
            self.paths.insert(p.to_string());
        }
    }
    pub fn mark_exhaustive(&mut self, name: &str, note: &str) {
        let s = self.subspaces.entry(name.to_string()).or_default();
        s.exhaustive = true;
        s.note = note.to_string();
    }
    /// Record a failure. `size` orders examples (smallest kept); `mk` builds the
    /// replayable case and is only called when the example would be replaced.
    pub fn fail(&mut self, sig: &str, size: usize, mk: impl FnOnce() -> Value) {
        match self.failures.get_mut(sig) {
            Some(f) => {
                f.count += 1;
                if size < f.size {
                    f.size = size;
                    f.example = mk();
                }
            }
            None => {
                self.failures.insert(
                    sig.to_string(),
                    Failure {
                        count: 1,
                        size,
                        example: mk(),
                    },
                );
            }
        }
    }
    pub fn merge(&mut self, o: Report) {
        self.states += o.states;
        self.transitions += o.transitions;
        self.evaluations += o.evaluations;
        self.distinct.extend(o.distinct);
        for s in o.samples {
            if self.samples.len() < MAX_SAMPLES {
                self.samples.push(s);
            }
        }
        for (k, v) in o.subspaces {
            let e = self.subspaces.entry(k).or_default();
            e.inputs += v.inputs;
            e.evaluations += v.evaluations;
            e.states += v.states;
            e.transitions += v.transitions;
            e.exhaustive |= v.exhaustive;
            if e.note.is_empty() {
                e.note = v.note;
            }
        }
        for (k, v) in o.failures {
            match self.failures.get_mut(&k) {
                Some(f) => {
                    f.count += v.count;
                    if v.size < f.size {
                        f.size = v.size;
                        f.example = v.example;
                    }
                }
                None => {
                    self.failures.insert(k, v);
                }
            }
        }
        self.paths.extend(o.paths);
        self.caps.extend(o.caps);
        self.notes.extend(o.notes);
        for (k, v) in o.extra {
            self.extra.insert(k, v);
        }
    }
    pub fn to_json(&self) -> Value {
        let subs: Map<String, Value> = self
            .subspaces
            .iter()
            .filter(|(k, v)| !(k.is_empty() && v.inputs == 0 && v.evaluations == 0 && v.states == 0))
            .map(|(k, v)| {
                (
                    k.clone(),
                    json!({"inputs": v.inputs, "evaluations": v.evaluations, "states": v.states,
                           "transitions": v.transitions, "exhaustive": v.exhaustive, "note": v.note}),
                )
            })
            .collect();
        let fails: Vec<Value> = self
            .failures
            .iter()
            .map(|(k, v)| json!({"signature": k, "count": v.count, "example": v.example}))
            .collect();
        json!({
            "states": self.states, "transitions": self.transitions, "evaluations": self.evaluations,
            "distinct_nontrivial": self.distinct.len(), "samples": self.samples,
            "subspaces": subs, "failures": fails,
            "paths": self.paths.iter().collect::<Vec<_>>(), "caps": self.caps, "notes": self.notes,
            "extra": self.extra,
        })
    }
}

/// Run `f(rep)`, converting a panic into a failure with signature `sig`.
pub fn guard(rep: &mut Report, sig: &str, size: usize, case: impl FnOnce() -> Value, f: impl FnOnce(&mut Report)) -> bool {
    let r = catch_unwind(AssertUnwindSafe(|| f(rep)));
    match r {
        Ok(()) => true,
        Err(p) => {
            let msg = panic_msg(&p);
            rep.fail(sig, size, || {
                let mut c = case();
                if let Value::Object(m) = &mut c {
                    m.insert("panic".into(), json!(msg));
                }
                c
            });
            false
        }
    }
}

pub fn panic_msg(p: &Box<dyn std::any::Any + Send>) -> String {
    if let Some(s) = p.downcast_ref::<&str>() {
        s.to_string()
    } else if let Some(s) = p.downcast_ref::<String>() {
        s.clone()
    } else {
        "<non-string panic>".into()
    }
}

/// Catch a panic of `f`, returning Err(message).
pub fn catch<R>(f: impl FnOnce() -> R) -> Result<R, String> {
    catch_unwind(AssertUnwindSafe(f)).map_err(|p| panic_msg(&p))
}

pub struct Ctx {
    pub tier: String,
    pub threads: usize,
    pub seed: u64,
    pub start: Instant,
    pub wall_cap_s: f64,
    pub args: Vec<String>,
}

impl Ctx {
    pub fn quick(&self) -> bool {
        self.tier == "quick"
    }
    pub fn thorough(&self) -> bool {
        self.tier == "thorough"
    }
    pub fn pick<T>(&self, quick: T, thorough: T) -> T {
        if self.quick() {
            quick
        } else {
            thorough
        }
    }
    pub fn over_budget(&self) -> bool {
        self.start.elapsed().as_secs_f64() > self.wall_cap_s
    }
    pub fn arg(&self, name: &str) -> Option<String> {
        let mut it = self.args.iter();
        while let Some(a) = it.next() {
            if a == name {
                return it.next().cloned();
            }
        }
        None
    }
}

/// Shard `0..n` over worker threads in chunks of `chunk`; each worker owns a
/// `Report`; all are merged (in worker order) at the end.
pub fn par_range(ctx: &Ctx, n: u64, chunk: u64, f: impl Fn(u64, &mut Report) + Sync) -> Report {
    par_range_in(ctx, "", n, chunk, f)
}

pub fn par_range_in(ctx: &Ctx, space: &str, n: u64, chunk: u64, f: impl Fn(u64, &mut Report) + Sync) -> Report {
    let chunk = chunk.max(1);
    let nchunks = (n + chunk - 1) / chunk;
    let next = AtomicU64::new(0);
    let rot = if nchunks > 0 { ctx.seed % nchunks } else { 0 };
    let out: Mutex<Vec<(usize, Report)>> = Mutex::new(Vec::new());
    let nthreads = ctx.threads.max(1).min(nchunks.max(1) as usize);
    std::thread::scope(|s| {
        for t in 0..nthreads {
            let next = &next;
            let out = &out;
            let f = &f;
            std::thread::Builder::new()
                .stack_size(256 << 20)
                .spawn_scoped(s, move || {
                    let mut rep = Report::new();
                    rep.space(space);
                    loop {
                        let c = next.fetch_add(1, Ordering::Relaxed);
                        if c >= nchunks {
                            break;
                        }
                        let c = (c + rot) % nchunks;
                        let lo = c * chunk;
                        let hi = (lo + chunk).min(n);
                        for i in lo..hi {
                            f(i, &mut rep);
                        }
                    }
                    out.lock().unwrap().push((t, rep));
                })
                .unwrap();
        }
    });
    let mut v = out.into_inner().unwrap();
    v.sort_by_key(|x| x.0);
    let mut total = Report::new();
    total.space(space);
    for (_, r) in v {
        total.merge(r);
    }
    total
}

/// Number of strings of length exactly `len` over an alphabet of `a` symbols.
pub fn pow(a: u64, len: u32) -> u64 {
    a.pow(len)
}

/// Number of strings of length `0..=maxlen`.
pub fn count_strings(a: u64, maxlen: u32) -> u64 {
    (0..=maxlen).map(|l| a.pow(l)).sum()
}

/// Decode index `idx` (shortlex order over lengths `0..=maxlen`) into symbol indices.
pub fn nth_string(a: u64, maxlen: u32, mut idx: u64, out: &mut Vec<usize>) {
    out.clear();
    let mut len = 0u32;
    loop {
        let c = a.pow(len);
        if idx < c {
            break;
        }
        idx -= c;
        len += 1;
        assert!(len <= maxlen);
    }
    for _ in 0..len {
        out.push((idx % a) as usize);
        idx /= a;
    }
    out.reverse();
}

/// Enumerate every string of length `0..=maxlen` over `alpha` (symbols are byte
/// strings), sharded over worker threads.
pub fn par_strings(ctx: &Ctx, space: &str, alpha: &[&[u8]], maxlen: u32, f: impl Fn(&[u8], &[usize], &mut Report) + Sync) -> Report {
    let a = alpha.len() as u64;
    let n = count_strings(a, maxlen);
    let mut r = par_range_in(ctx, space, n, 4096, |i, rep| {
        let mut idxs = Vec::with_capacity(maxlen as usize);
        nth_string(a, maxlen, i, &mut idxs);
        let mut s = Vec::with_capacity(16);
        for &k in &idxs {
            s.extend_from_slice(alpha[k]);
        }
        f(&s, &idxs, rep);
    });
    r.mark_exhaustive(space, &format!("all strings of length 0..={} over {} symbols = {}", maxlen, a, n));
    r
}

/// State key for S1 searches from a `Debug` rendering: drops the FIRST field when it is
/// a struct/collection (`name: Type { .. }` or `name: [..]`) — by convention the immutable
/// payload (encoded sequence, line starts) that is identical for every state of one search —
/// and keeps *everything after it*, whatever the fields are called. No layout assertion is
/// made: if the rendering does not look like `T { first: X {..}, rest.. }` the whole string is
/// the key (over-fine keys only cost time; coarse ones hide bugs).
pub fn debug_key_without_first_field(d: &str) -> String {
    let Some(open_outer) = d.find('{') else { return d.to_string() };
    let body = &d[open_outer + 1..];
    // first field must start right here: ` name: `
    let Some(colon) = body.find(": ") else { return d.to_string() };
    if !body[..colon].trim().chars().all(|c| c.is_alphanumeric() || c == '_') {
        return d.to_string();
    }
    let val = &body[colon + 2..];
    // value must open a bracket before the next top-level comma
    let first_open = val.find(|c| c == '{' || c == '[' || c == '(');
    let first_comma = val.find(',');
    let Some(fo) = first_open else { return d.to_string() };
    if let Some(fc) = first_comma {
        if fc < fo {
            return d.to_string();
        }
    }
    let mut depth = 0i64;
    let mut in_str = false;
    let mut prev = '\0';
    for (i, ch) in val.char_indices().skip_while(|(i, _)| *i < fo) {
        if in_str {
            if ch == '"' && prev != '\\' {
                in_str = false;
            }
        } else {
            match ch {
                '"' => in_str = true,
                '{' | '[' | '(' => depth += 1,
                '}' | ']' | ')' => {
                    depth -= 1;
                    if depth == 0 {
                        return val[i + 1..].to_string();
                    }
                }
                _ => {}
            }
        }
        prev = ch;
    }
    d.to_string()
}

pub fn hex(b: &[u8]) -> String {
    let mut s = String::with_capacity(b.len() * 2);
    for x in b {
        s.push_str(&format!("{x:02x}"));
    }
    s
}

pub fn unhex(s: &str) -> Vec<u8> {
    (0..s.len() / 2).map(|i| u8::from_str_radix(&s[2 * i..2 * i + 2], 16).unwrap()).collect()
}

/// Lossy printable rendering of bytes for samples / messages.
pub fn show(b: &[u8]) -> String {
    let mut s = String::new();
    for &c in b.iter().take(200) {
        match c {
            b'\n' => s.push_str("\\n"),
            b'\r' => s.push_str("\\r"),
            b'\t' => s.push_str("\\t"),
            b'\\' => s.push_str("\\\\"),
            0x20..=0x7e => s.push(c as char),
            _ => s.push_str(&format!("\\x{c:02x}")),
        }
    }
    if b.len() > 200 {
        s.push_str(&format!("…(+{} bytes)", b.len() - 200));
    }
    s
}

pub type ExploreFn = fn(&Ctx, &mut Report);
pub type ReplayFn = fn(&Value, &mut Report);

static QUIET: AtomicUsize = AtomicUsize::new(0);

/// Common `main`. Exit codes: 0 = ran (failures, if any, are in the report —
/// the Python driver classifies them); 2 = machinery error.
pub fn drive(property: &str, explore: ExploreFn, replay: ReplayFn) {
    let args: Vec<String> = std::env::args().collect();
    let get = |name: &str| -> Option<String> {
        let mut it = args.iter();
        while let Some(a) = it.next() {
            if a == name {
                return it.next().cloned();
            }
        }
        None
    };
    let tier = get("--tier").or_else(|| std::env::var("VERIF_TIER").ok()).unwrap_or_else(|| "quick".into());
    let out = get("--out");
    let threads = get("--threads").and_then(|s| s.parse().ok()).unwrap_or_else(|| std::thread::available_parallelism().map(|n| n.get()).unwrap_or(8));
    let seed = std::env::var("VERIF_SEED").ok().and_then(|s| s.parse().ok()).unwrap_or(0u64);
    let wall_cap_s = get("--wall-cap").and_then(|s| s.parse().ok()).unwrap_or(if tier == "quick" { 120.0 } else { 900.0 });
    if std::env::var("VERIF_SHOW_PANICS").is_err() {
        QUIET.store(1, Ordering::Relaxed);
        std::panic::set_hook(Box::new(|_| {}));
    }
    let ctx = Ctx { tier: tier.clone(), threads, seed, start: Instant::now(), wall_cap_s, args: args.clone() };
    let mut rep = Report::new();
    let mut mode = "explore";
    if let Some(path) = get("--replay") {
        mode = "replay";
        let text = std::fs::read_to_string(&path).unwrap_or_else(|e| {
            eprintln!("cannot read replay file {path}: {e}");
            std::process::exit(2)
        });
        let v: Value = serde_json::from_str(&text).unwrap_or_else(|e| {
            eprintln!("bad replay file: {e}");
            std::process::exit(2)
        });
        let case = v.get("case").cloned().unwrap_or(v.clone());
        // Run twice and require identical observations.
        let mut a = Report::new();
        let mut b = Report::new();
        let ra = catch(|| replay(&case, &mut a));
        let rb = catch(|| replay(&case, &mut b));
        if let Err(m) = &ra {
            a.fail("PANIC:replay", 0, || json!({"panic": m}));
        }
        if let Err(m) = &rb {
            b.fail("PANIC:replay", 0, || json!({"panic": m}));
        }
        let ka: Vec<_> = a.failures.keys().cloned().collect();
        let kb: Vec<_> = b.failures.keys().cloned().collect();
        if ka != kb {
            eprintln!("replay is not deterministic: {ka:?} vs {kb:?}");
            std::process::exit(2);
        }
        rep = a;
    } else {
        let r = catch(|| {
            let mut r = Report::new();
            explore(&ctx, &mut r);
            r
        });
        match r {
            Ok(r) => rep = r,
            Err(m) => {
                eprintln!("explorer for {property} crashed: {m}");
                std::process::exit(2);
            }
        }
    }
    let mut j = rep.to_json();
    let wall = ctx.start.elapsed().as_secs_f64();
    if let Value::Object(m) = &mut j {
        m.insert("property".into(), json!(property));
        m.insert("tier".into(), json!(tier));
        m.insert("mode".into(), json!(mode));
        m.insert("seed".into(), json!(seed));
        m.insert("threads".into(), json!(threads));
        m.insert("wall_s".into(), json!(wall));
    }
    let text = serde_json::to_string(&j).unwrap();
    match out {
        Some(p) => std::fs::write(&p, text).unwrap_or_else(|e| {
            eprintln!("cannot write {p}: {e}");
            std::process::exit(2)
        }),
        None => println!("{text}"),
    }
    eprintln!(
        "[{property}] {mode} tier={tier} states={} transitions={} evaluations={} distinct={} failures={} ({} signatures) wall={:.1}s",
        rep.states,
        rep.transitions,
        rep.evaluations,
        rep.distinct.len(),
        rep.failures.values().map(|f| f.count).sum::<u64>(),
        rep.failures.len(),
        wall
    );
    for (k, v) in &rep.failures {
        eprintln!("   FAIL {k}: {} e.g. {}", v.count, &v.example.to_string().chars().take(300).collect::<String>());
    }
}
