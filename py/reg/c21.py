SPEC = dict(
    kind="rust",
    bins=rust("c21"),
    design_ref="§3-C21",
    technique="bounded-exhaustive enumeration of texts (S2) against an own quote-aware splitter, exhaustive random-access arguments, "
              "and closed-state BFS of the DsvCursor operation graph over byte positions (S1)",
    rule="inputs: every string of length <= 8 (quick) / 10 (thorough) over {a, delimiter, quote, separator} after 4 prefixes (none, a 61-byte first row, "
         "a 62-byte first field, an open quote 62 bytes earlier) and every string of length <= 5 / 7 over {a, b, delimiter, quote, separator}, "
         "for the configurations (',','\"',LF), (TAB,',CR), (';','|',0x1e). Per text: iteration vs oracle; row(n) for all n in 0..=rows+2 and usize::MAX; "
         "get(i) for all i in 0..=fields+2 and usize::MAX; BFS over cursor positions with next_field, next_row, goto_row(n) for all n in 0..=separators+2 "
         "and usize::MAX; append-separator invariance where the statement's precondition holds. A case is distinct+non-trivial when its (row -> field "
         "lengths, final quote state) shape has at least two fields and is new.",
    level_text="Every text of the bounded space is split by the real row/field iterators and compared with an independent splitter; every row and "
               "column index including out-of-range ones is compared with iteration; every reachable cursor position has every cursor operation "
               "applied and compared with a model derived from the reference marker positions (fixpoint, so all finite operation histories); "
               "appending the separator is compared implementation-against-itself.",
    level_note="Bounded to windows of <= 10 symbols (texts <= 73 bytes, so at most one 64-byte chunk boundary is crossed) and three configurations. "
               "row_count() is not judged (the statement does not mention it). Oracle: dsvref::split / dsvref::scan, self-tested. The cursor model "
               "follows the doc comments of DsvCursor.",
    assumptions=["the DsvCursor's only mutable field is `position` (derive(Debug) shows text, index, position), so position is the full state key"],
)
