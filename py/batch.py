"""Drive the real CLI code path in bulk through the `__verif-batch` hook.

Process creation is the scarce resource in this sandbox (~100-170 spawns/s in
total), so 10^4..10^6 CLI invocations are run inside a few long-lived worker
processes. Each job goes through the same clap parser and run_jq/run_yq/... entry
points as `main`. Two safeguards tie verdicts to the real executable:

* `selftest(jobs, results)` re-executes a fixed slice as real processes and
  requires byte-identical (status, stdout, stderr) -> Machinery error otherwise;
* `confirm(job)` re-runs one job as a real process (used for every violation
  candidate, and for jobs that killed a batch worker).
"""
import os, subprocess, tempfile, shutil, time
from concurrent.futures import ThreadPoolExecutor
import common

SCRATCH = os.path.join(common.CACHE, "batch" + common.ALT)
_cli = None


def cli():
    global _cli
    if _cli is None:
        _cli = common.build_cli()
    return _cli


def env():
    e = {"PATH": "/usr/bin:/bin", "RUST_BACKTRACE": "0", "NO_COLOR": "1", "TZ": "UTC", "LC_ALL": "C.UTF-8",
         "HOME": "/nonexistent", "VERIF_BATCH_TMP": SCRATCH}
    return e


def spawn(argv, stdin=b"", timeout=20, extra_env=None):
    """One real process. Returns (code str, stdout, stderr); code 'T' on timeout, 'S<n>' on signal."""
    e = env()
    if extra_env:
        e.update(extra_env)
    try:
        p = subprocess.run([cli()] + list(argv), input=stdin, capture_output=True, env=e, timeout=timeout)
    except subprocess.TimeoutExpired:
        return ("T", b"", b"")
    code = str(p.returncode) if p.returncode >= 0 else f"S{-p.returncode}"
    return (code, p.stdout, p.stderr)


def _run_chunk(i, chunk, tag, timeout):
    if not chunk:
        return []
    os.makedirs(SCRATCH, exist_ok=True)
    jf = os.path.join(SCRATCH, f"jobs-{os.getpid()}-{tag}-{i}.txt")
    rf = os.path.join(SCRATCH, f"res-{os.getpid()}-{tag}-{i}.txt")
    out = []
    start = 0
    while start < len(chunk):
        with open(jf, "w") as f:
            for argv, inp in chunk[start:]:
                f.write("\x1f".join(argv).encode().hex() + "\t" + inp.hex() + "\n")
        try:
            p = subprocess.run([cli(), "__verif-batch", jf, rf], env=env(), capture_output=True, timeout=timeout)
            died = p.returncode != 0
        except subprocess.TimeoutExpired:
            died = True
        got = []
        if os.path.exists(rf):
            with open(rf) as f:
                for l in f.read().split("\n"):
                    if not l:
                        continue
                    parts = l.split("\t")
                    if len(parts) != 3:
                        break  # torn last line of a dead worker
                    try:
                        got.append((parts[0], bytes.fromhex(parts[1]), bytes.fromhex(parts[2])))
                    except ValueError:
                        break
        out += got
        start += len(got)
        if start < len(chunk):
            # the worker died (abort / stack overflow / timeout) on job `start`: isolate it as a real process
            argv, inp = chunk[start]
            r = spawn(argv, inp, timeout=30)
            out.append(("DIED:" + r[0], r[1], r[2]))
            start += 1
        elif died and not got:
            raise common.Machinery(f"batch worker failed without results: {p.stderr[:300]!r}")
    for fn in (jf, rf, rf + ".cur"):
        try:
            os.remove(fn)
        except OSError:
            pass
    return out


def runbatch(jobs, nproc=None, tag="b", timeout=3600):
    """jobs: list of (argv list[str], stdin bytes) -> list of (code, stdout, stderr), same order.

    code is the exit status as a string, 'P' for a caught panic, or 'DIED:<status>' when
    the job killed the batch worker and was re-run in isolation as a real process."""
    if not jobs:
        return []
    nproc = nproc or min(common.nproc(), max(1, len(jobs) // 50))
    chunks = [jobs[i::nproc] for i in range(nproc)]
    with ThreadPoolExecutor(nproc) as ex:
        rs = list(ex.map(lambda i: _run_chunk(i, chunks[i], tag, timeout), range(nproc)))
    res = [None] * len(jobs)
    for i in range(nproc):
        for k, r in enumerate(rs[i]):
            res[i + k * nproc] = r
    return res


def selftest(jobs, results, n=120):
    """Re-run an evenly spread slice of jobs as real processes; require identical observations.
    Returns the number confirmed. Panic jobs ('P') must exit 101 with the same stdout."""
    if not jobs:
        return 0
    step = max(1, len(jobs) // n)
    idx = list(range(0, len(jobs), step))[:n]
    bad = []
    for i in idx:
        argv, inp = jobs[i]
        code, out, err = spawn(argv, inp)
        bc, bo, be = results[i]
        if bc.startswith("DIED:"):
            continue
        if bc == "P":
            ok = code == "101" and out == bo
        else:
            ok = (code, out, err) == (bc, bo, be)
        if not ok:
            bad.append((argv, inp[:80], (bc, bo[:80], be[:80]), (code, out[:80], err[:80])))
    if bad:
        raise common.Machinery(f"batch/spawn equivalence self-test failed on {len(bad)} of {len(idx)} jobs, e.g. {bad[0]!r}")
    return len(idx)


def confirm(job, batch_result):
    """Re-run one job as a real process; return (same?, spawn_result)."""
    argv, inp = job
    r = spawn(argv, inp)
    bc, bo, be = batch_result
    if bc.startswith("DIED:"):
        return True, r
    if bc == "P":
        return (r[0] == "101" and r[1] == bo), r
    return (r == (bc, bo, be)), r


def crashed(code):
    """Is this result a crash (panic, abort, signal) rather than a value / reported error?"""
    if code == "P" or code.startswith("S") or code in ("101", "134", "139"):
        return True
    if code.startswith("DIED:"):
        c = code[5:]
        return c.startswith("S") or c in ("101", "134", "139", "T")
    return False


class Report:
    """Python twin of the Rust engine's Report."""

    def __init__(self):
        self.states = 0; self.transitions = 0; self.evaluations = 0
        self.distinct = set(); self.samples = []; self.subspaces = {}; self.failures = {}
        self.paths = []; self.caps = []; self.notes = []; self.extra = {}; self.traces_validated = 0
        self.cur = ""

    def space(self, name, exhaustive=True, note=""):
        self.cur = name
        self.subspaces.setdefault(name, {"inputs": 0, "evaluations": 0, "states": 0, "transitions": 0,
                                         "exhaustive": exhaustive, "note": note})

    def _s(self):
        return self.subspaces.setdefault(self.cur, {"inputs": 0, "evaluations": 0, "states": 0, "transitions": 0,
                                                    "exhaustive": True, "note": ""})

    def input(self, n=1):
        self.states += n; self._s()["inputs"] += n

    def trans(self, n=1):
        self.transitions += n; self.evaluations += n
        s = self._s(); s["transitions"] += n; s["evaluations"] += n

    def evals(self, n=1):
        self.evaluations += n; self._s()["evaluations"] += n

    def seen(self, key):
        self.distinct.add(hash(key))

    def sample(self, s):
        if len(self.samples) < 6:
            self.samples.append(s)

    def fail(self, sig, size, example):
        f = self.failures.get(sig)
        if f is None:
            self.failures[sig] = {"signature": sig, "count": 1, "size": size, "example": example}
        else:
            f["count"] += 1
            if size < f["size"]:
                f["size"] = size; f["example"] = example

    def to_json(self):
        return {"states": self.states, "transitions": self.transitions, "evaluations": self.evaluations,
                "distinct_nontrivial": len(self.distinct), "samples": self.samples, "subspaces": self.subspaces,
                "failures": [{"signature": f["signature"], "count": f["count"], "example": f["example"]}
                             for f in self.failures.values()],
                "paths": self.paths, "caps": self.caps, "notes": self.notes, "extra": self.extra,
                "traces_validated": self.traces_validated or self.transitions}


def job_example(job, result=None, **kw):
    argv, inp = job
    ex = {"kind": "cli", "argv": argv, "stdin_hex": inp.hex(), "stdin": inp.decode("utf8", "replace")[:400]}
    if result is not None:
        ex["got"] = {"status": result[0], "stdout": result[1].decode("utf8", "replace")[:400],
                     "stderr": result[2].decode("utf8", "replace")[:300]}
    ex.update(kw)
    return ex
