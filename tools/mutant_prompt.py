#!/usr/bin/env python3
"""Print the prompt given to an independent sub-agent that writes a property-breaking change.
The prompt contains ONLY the property's text and the agent's scratch worktree — nothing from /verif."""
import json, sys
pid = sys.argv[1]; tag = sys.argv[2] if len(sys.argv) > 2 else pid
p = [json.loads(l) for l in open('/verif/properties.jsonl') if json.loads(l)['id'] == pid][0]
print(f"""You are stress-testing a verification effort for the Rust project rust-works/succinctly (succinct data structures: rank/select bitvectors, balanced parentheses, Elias-Fano; SIMD JSON/YAML/DSV semi-indexing; a jq/yq query interpreter and CLI). You have your own scratch git worktree of the project at /tmp/mut-{tag} (work ONLY there; never touch /repo; do NOT read or list anything under /verif — your work must be independent of it). Write your deliverables to /tmp/mut-{tag}-out/.

The project is supposed to satisfy this property:

  "{p['title']}" — {p['statement']}
  (Quantified over: {p['quantifier']['text']})

Your task: make a change to the project's source code (under src/) that BREAKS this property, such that
 (a) the project still compiles (`cargo build --offline`, and `cargo build --offline --features cli` if you touch the CLI);
 (b) the project's existing test suite still passes UNEDITED with your change. Run it to be sure: `cd /tmp/mut-{tag} && CARGO_TARGET_DIR=/tmp/mut-{tag}-target cargo nextest run --workspace --no-fail-fast --test-threads 8 --offline` (about 5 min build + 12 min run on this busy machine; 4190 tests; while iterating you may first run only the relevant module's tests, e.g. `cargo test --offline --lib <module>`, but the final change must pass the whole suite — if a test fails, change your mutation, never the tests);
 (c) the breakage is NOT something ordinary use would expose at once: it must need something specific to manifest — a particular multi-step sequence of operations or query history, an unusual input shape or size (a boundary of an internal block/sample/chunk size, a particular alignment, a rare byte combination), a specific configuration / feature / option combination, or two cooperating code sites that each look fine alone;
 (d) it looks like a plausible mistake, refactoring slip or "optimisation" a maintainer could really commit. No artificial triggers: no new cfg flags, environment variables, magic-constant checks on the input, or random behaviour. The behaviour must be deterministic.
Prefer a subtle, small diff in the code the property actually depends on. Read the relevant code first to find a place where the existing tests are thin.

Deliverables in /tmp/mut-{tag}-out/:
 1. patch.diff — `git -C /tmp/mut-{tag} diff` of your change (source change only; do not include the demo in the patch);
 2. a demonstration: either demo.rs (a self-contained Rust integration test file that can be copied to tests/demo_{tag.lower()}.rs and run with `cargo test --offline --test demo_{tag.lower()}` [add `--features cli` and say so if it needs the CLI binary]) or demo.sh (a shell script using the built CLI) that FAILS with your change and PASSES on the unchanged project. Verify both directions yourself by reversing and re-applying the patch (`git diff > /tmp/mut-{tag}-out/patch.diff; git apply -R /tmp/mut-{tag}-out/patch.diff; ...; git apply /tmp/mut-{tag}-out/patch.diff`). NEVER use `git stash`: the stash is shared between all worktrees of the repository and other agents are working in sibling worktrees;
 3. meta.json — {{"property": "{pid}", "summary": "...one paragraph: what was changed and why it breaks the property...", "needs_to_manifest": "...the specific input/sequence/configuration needed...", "files_changed": [...], "demo": "how to run it and what it prints with/without the change", "test_suite": "exact command you ran and its summary line (N passed)"}}.
When finished: leave the worktree as is (with your change applied and the demo file NOT committed), delete your build output (`rm -rf /tmp/mut-{tag}-target`), and reply with a short summary (what you changed, what it needs to manifest, test-suite result, demo result both ways). If after honest effort you cannot find a change that passes the existing suite, say so and deliver your best attempt with the failing test names in meta.json.""")
