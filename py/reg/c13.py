SPEC = dict(
    kind="rust",
    bins=rust("c13"),
    design_ref="§3-C13",
    technique="automaton-product enumeration (S4): every string over a Table 3-7 byte-class alphabet placed at every block-boundary alignment, "
              "differential over four engines (S5) against an own Table 3-7 automaton; exhaustive code-point enumeration for encode/decode",
    rule="windows: every string of length <= 3 (quick) / 4 (thorough) over 22 class-representative bytes x 22 offsets around the 8/16/32/64-byte boundaries "
         "x 4 fillers (ASCII, 2-byte, LF/01/0b/CR pattern, 4/3-byte characters) x suffix lengths {0,1,3,35}; one symbol longer at 7 offsets x 2 suffixes; "
         "every byte value at every position of three 70-byte carriers; every u32 in 0..=0x110400 through encode/decode; all 1/2-byte and lead-constrained 3/4-byte "
         "strings through decode. A window is distinct+non-trivial by (bytes, verdict, valid-prefix length).",
    level_text="Every input of the bounded space is run on validate_utf8, validate_utf8_simd (AVX2 accept scan), validate_utf8_scalar and validate_utf8_broadword; "
               "verdict, error kind, offset and line/column are compared with an own Unicode Table 3-7 automaton, and all four results must be the identical Utf8Error. "
               "encode_code_point/decode_code_point/sequence_length are decided for every code point and every short byte string of the stated families.",
    level_note="Offset clause under the DESIGN §3-C13 interpretation: input[..v] is the longest well-formed prefix, the offset lies in the first ill-formed sequence starting "
               "at v (== v for lead/overlong/surrogate/out-of-range/truncated; first non-continuation byte after v for InvalidContinuationByte) — the repo's pinned unit "
               "tests fix [C2 41] -> offset 1, so a literal valid_up_to reading would contradict them. Kind by the enum's documented precedence; line/column by the module's "
               "LF-only rule. Oracle self-tested against core::str::from_utf8 (verdict + valid_up_to) on every input; a self-test failure is a machinery error.",
    assumptions=["byte values outside the 22-byte class alphabet are covered singly (every value at every position of three carriers), not in combination",
                 "only dispatch paths present on this x86-64 host run (AVX2 if detected); NEON/other targets are out of reach",
                 "inputs longer than ~170 bytes are out of reach"],
)
