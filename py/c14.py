"""C14 — YAML loading reproduces every well-formed document of the generated presentation space.

The exploration itself runs in the Rust binary `c14` (generator `harness/svh/src/ygen.rs` ported
from the prototype emitter; no case files, no cache). This module builds and runs it and — when
PyYAML is importable — self-tests the EMITTER (not the code under test) on an evenly spread slice
of the very documents that were explored: each is loaded with PyYAML under YAML 1.2 core-schema
resolvers and must give the tree the generator intended. A disagreement is a machinery error
(exit 2): it would mean the generator claims a value that an independent YAML reader does not see.
"""
import json, os, re, time
import common, batch

CLI_SLICE = {"quick": 8, "thorough": 12}       # of the dumped slice, keep 1 line in N for the CLI side


def cli_slice(path, tier, rep):
    """`succinctly yq -o json -I 0 .` on a slice of the explored documents: one JSON line per document,
    equal to the generator's tree. A document the LIBRARY side already mis-loads is reported under the
    library's signature (prefixed cli:), so one root cause keeps one name."""
    with open(path) as f:
        rows = [l.split("\t") for l in f.read().split("\n") if l]
    rows = rows[::CLI_SLICE[tier]]
    jobs = [(["yq", "-o", "json", "-I", "0", "."], bytes.fromhex(r[0])) for r in rows]
    res = batch.runbatch(jobs, tag="c14")
    confirmed = batch.selftest(jobs, res, n=40)
    sub = {"inputs": 0, "evaluations": 0, "states": 0, "transitions": 0, "exhaustive": True,
           "note": f"every {CLI_SLICE[tier]}-th document of the hash-selected slice (1 in {SLICE[tier]}) of the library exploration through the real yq runner"}
    fails = {}
    seen_sig = {}
    for (hx, exp, libsig), job, r in zip(rows, jobs, res):
        sub["inputs"] += 1; sub["transitions"] += 1; sub["evaluations"] += 1
        want = json.loads(exp)
        def parse(rr):
            if rr[0] != "0":
                return None
            try:
                return [json.loads(l) for l in rr[1].decode().split("\n") if l]
            except Exception:  # noqa
                return None
        got = parse(r)
        if got is not None and json.dumps(got) == json.dumps(want):
            continue
        sig = "cli:" + (libsig if libsig != "-" else ("yq-o-json:crash" if batch.crashed(r[0]) else "yq-o-json:value-differs-from-tree-but-library-agrees"))
        if seen_sig.get(sig, 0) < 3:
            same, real = batch.confirm(job, r)
            got2 = parse(real)
            if got2 is not None and json.dumps(got2) == json.dumps(want):
                raise common.Machinery(f"batch result not reproduced by a real process for {job[1]!r}")
            seen_sig[sig] = seen_sig.get(sig, 0) + 1
        e = fails.setdefault(sig, {"signature": sig, "count": 0, "example": None, "size": 1 << 60})
        e["count"] += 1
        if len(job[1]) < e["size"]:
            e["size"] = len(job[1])
            e["example"] = dict(batch.job_example(job, r), expected_documents=want, signature_hint=sig)
    rep.setdefault("subspaces", {})["cli/yq-o-json"] = sub
    rep["states"] += sub["inputs"]; rep["transitions"] += sub["transitions"]; rep["evaluations"] += sub["evaluations"]
    for e in fails.values():
        e.pop("size")
        rep["failures"].append(e)
    rep.setdefault("extra", {})["cli_batch_jobs_confirmed_by_real_spawns"] = confirmed

SLICE = {"quick": 40, "thorough": 96}          # keep 1 case in N (by hash of the document)


def _loader():
    import yaml
    base = yaml.CSafeLoader if hasattr(yaml, "CSafeLoader") else yaml.SafeLoader

    class Core12(base):
        pass
    Core12.yaml_implicit_resolvers = {}

    def add(tag, rx, first):
        for ch in first:
            Core12.yaml_implicit_resolvers.setdefault(ch, []).append((tag, re.compile(rx)))
    add("tag:yaml.org,2002:bool", r"^(?:true|True|TRUE|false|False|FALSE)$", "tTfF")
    add("tag:yaml.org,2002:null", r"^(?:~|null|Null|NULL|)$", ["~", "n", "N", ""])
    add("tag:yaml.org,2002:int", r"^(?:[-+]?[0-9]+|0o[0-7]+|0x[0-9a-fA-F]+)$", "-+0123456789")
    return yaml, Core12


_L = None


def _check_line(line):
    global _L
    if _L is None:
        _L = _loader()
    yaml, loader = _L
    hx, exp = line.split("\t")[:2]
    doc = bytes.fromhex(hx).decode("utf8")
    want = json.loads(exp)
    try:
        got = list(yaml.load_all(doc, Loader=loader))
    except Exception as e:  # noqa
        return (doc, exp, "ERROR " + str(e).replace("\n", " ")[:160])
    if got != want or json.dumps(got) != json.dumps(want):
        return (doc, exp, json.dumps(got))
    return None


def emitter_selftest(path):
    """Returns a dict for the evidence; raises Machinery on any disagreement."""
    try:
        import yaml  # noqa
    except Exception:
        return {"pyyaml": "not importable; emitter self-test skipped"}
    import multiprocessing as mp
    with open(path) as f:
        lines = [l for l in f.read().split("\n") if l]
    t0 = time.time()
    if len(lines) < 2000:
        res = [_check_line(l) for l in lines]
    else:
        with mp.Pool(min(common.nproc(), 16)) as p:
            res = p.map(_check_line, lines, chunksize=1000)
    bad = [r for r in res if r]
    if bad:
        ex = "; ".join(f"doc={d!r} intended={e} pyyaml={g}" for d, e, g in bad[:3])
        raise common.Machinery(f"YAML emitter self-test: PyYAML disagrees with the intended value on {len(bad)} of {len(lines)} documents: {ex}")
    import yaml
    return {"pyyaml": yaml.__version__, "libyaml": bool(getattr(yaml, "__with_libyaml__", False)),
            "documents_cross_checked": len(lines), "disagreements": 0, "seconds": round(time.time() - t0, 1),
            "resolvers": "YAML 1.2 core schema (bool/null/int) installed over SafeLoader"}


def run(ctx):
    tier = ctx["tier"]
    path = common.build_bin("c14")
    if ctx["replay"]:
        case = json.load(open(ctx["replay"])).get("case") or {}
        if case.get("kind") == "cli":
            rep = batch.Report(); rep.space("replay"); rep.input(); rep.trans(2)
            job = (case["argv"], bytes.fromhex(case["stdin_hex"]))
            r1, r2 = batch.spawn(*job), batch.spawn(*job)
            if r1 != r2:
                raise common.Machinery("replay not deterministic")
            try:
                got = [json.loads(l) for l in r1[1].decode().split("\n") if l] if r1[0] == "0" else None
            except Exception:  # noqa
                got = None
            if got is None or json.dumps(got) != json.dumps(case["expected_documents"]):
                rep.fail(case.get("signature_hint", "cli:yq-o-json:value-differs-from-tree"), 0, case)
            return rep.to_json()
        return common.run_bin(path, tier, ctx["replay"])
    d = os.path.join(common.CACHE, "cases")
    os.makedirs(d, exist_ok=True)
    dump = os.path.join(d, f"c14-{tier}-{os.getpid()}.txt")
    try:
        rep = common.run_bin(path, tier, extra_args=["--dump-cases", dump, "--dump-mod", str(SLICE[tier])],
                             timeout=600 if tier == "quick" else 3000)
        rep.setdefault("extra", {})["emitter_selftest"] = emitter_selftest(dump)
        cli_slice(dump, tier, rep)
    finally:
        try:
            os.remove(dump)
        except OSError:
            pass
    return rep
