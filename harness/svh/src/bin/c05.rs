//! C05 — the JSON semi-index does not depend on the indexing engine.
//!
//! S4 + S5. Reference: own byte-at-a-time machines written from the module
//! documentation — 4 states (standard cursor) and 3 states (simple cursor) —
//! emitting IB, BP and the final state. Every engine is compared with the
//! reference bit for bit (words, word counts, state):
//!   standard: PFSM `standard::build_semi_index`, `build_semi_index_scalar`,
//!             `simd::avx2::build_semi_index_standard` (if the CPU has AVX2),
//!             `simd::x86::build_semi_index_standard` (SSE2), dispatcher
//!             `simd::build_semi_index_standard`, and `JsonIndex::build` (ib /
//!             bp words of the library index);
//!   simple:   `simple::build_semi_index`, avx2 / x86 `…_simple`, dispatcher,
//!             `SimpleJsonIndex::build`.
//! Space: all strings of length <= L over the 27-byte class alphabet and over
//! two 7-symbol class-representative alphabets (longer), each placed at every
//! offset relative to the 16/32/64-byte chunk boundaries under every carry-in
//! state of the reference automaton (the only state a chunked engine carries),
//! with several total lengths (window at the very end = padded tail path;
//! padded to 64 / 65 / 130 bytes = full-chunk path). Families: quote and
//! backslash runs of 1..70 at every offset; every byte value at every offset
//! 0..=64 in each carry-in state; periodic fills to 4 KiB; J(3) documents.
use engine::*;
use serde_json::{json, Value};
use succinctly::json::{simd, simple, standard, JsonIndex, SimpleJsonIndex};

#[path = "../jgen.rs"]
mod jgen;

// ---------------------------------------------------------------- reference --

#[derive(Clone, Copy, PartialEq, Eq, Debug)]
enum St {
    Json,
    Str,
    Esc,
    Val,
}

#[derive(Clone, Copy, PartialEq, Eq, Debug)]
enum Cl {
    Open,
    Close,
    Delim,
    Quote,
    Backslash,
    Value,
    Other,
}

/// Byte classes, written from the prose of `json/standard.rs`'s module docs:
/// value characters are ASCII letters, digits, '.', '-', '+'.
fn class(c: u8) -> Cl {
    match c {
        0x7b | 0x5b => Cl::Open,
        0x7d | 0x5d => Cl::Close,
        0x2c | 0x3a => Cl::Delim,
        0x22 => Cl::Quote,
        0x5c => Cl::Backslash,
        0x30..=0x39 | 0x41..=0x5a | 0x61..=0x7a | 0x2e | 0x2d | 0x2b => Cl::Value,
        _ => Cl::Other,
    }
}

fn class_name(c: u8) -> &'static str {
    match class(c) {
        Cl::Open => "open",
        Cl::Close => "close",
        Cl::Delim => "delim",
        Cl::Quote => "quote",
        Cl::Backslash => "backslash",
        Cl::Value => match c {
            0x30..=0x39 => "digit",
            0x41..=0x5a => "upper",
            0x61..=0x7a => "lower",
            _ => "sign-or-dot",
        },
        Cl::Other => {
            if c >= 0x80 {
                "other-high"
            } else if c == b' ' || c == b'\n' {
                "space"
            } else {
                "other-ascii"
            }
        }
    }
}

#[derive(Default)]
struct Bits {
    w: Vec<u64>,
    n: usize,
}
impl Bits {
    fn push(&mut self, b: bool) {
        if self.n % 64 == 0 {
            self.w.push(0);
        }
        if b {
            *self.w.last_mut().unwrap() |= 1u64 << (self.n % 64);
        }
        self.n += 1;
    }
}

struct Ref {
    ib: Vec<u64>,
    bp: Vec<u64>,
    bp_bits: usize,
    st: St,
    /// bp bits written before byte i (for failure attribution)
    bp_before: Vec<u32>,
    /// state before byte i
    st_before: Vec<St>,
}

/// Standard cursor: `{`/`[` -> IB 1, BP 1; `}`/`]` -> IB 0, BP 0; first byte of a
/// string or of an unquoted value -> IB 1, BP 10; everything else IB 0.
fn ref_standard(t: &[u8], track: bool) -> Ref {
    let mut ib = Bits::default();
    let mut bp = Bits::default();
    let mut st = St::Json;
    let mut bp_before = vec![];
    let mut st_before = vec![];
    for &c in t {
        if track {
            bp_before.push(bp.n as u32);
            st_before.push(st);
        }
        let cl = class(c);
        match st {
            St::Json | St::Val => match cl {
                Cl::Open => {
                    ib.push(true);
                    bp.push(true);
                    st = St::Json;
                }
                Cl::Close => {
                    ib.push(false);
                    bp.push(false);
                    st = St::Json;
                }
                Cl::Delim => {
                    ib.push(false);
                    st = St::Json;
                }
                Cl::Value => {
                    if st == St::Json {
                        ib.push(true);
                        bp.push(true);
                        bp.push(false);
                        st = St::Val;
                    } else {
                        ib.push(false);
                    }
                }
                Cl::Quote if st == St::Json => {
                    ib.push(true);
                    bp.push(true);
                    bp.push(false);
                    st = St::Str;
                }
                // in a value, anything that is not a value character ends it without output —
                // including a quote and a backslash (they are "other" there)
                _ => {
                    ib.push(false);
                    st = St::Json;
                }
            },
            St::Str => {
                ib.push(false);
                st = match cl {
                    Cl::Quote => St::Json,
                    Cl::Backslash => St::Esc,
                    _ => St::Str,
                };
            }
            St::Esc => {
                ib.push(false);
                st = St::Str;
            }
        }
    }
    Ref { ib: ib.w, bp_bits: bp.n, bp: bp.w, st, bp_before, st_before }
}

/// Simple cursor: structural bytes outside strings -> IB 1 and BP 11 / 00 / 01.
fn ref_simple(t: &[u8], track: bool) -> Ref {
    let mut ib = Bits::default();
    let mut bp = Bits::default();
    let mut st = St::Json;
    let mut bp_before = vec![];
    let mut st_before = vec![];
    for &c in t {
        if track {
            bp_before.push(bp.n as u32);
            st_before.push(st);
        }
        let cl = class(c);
        match st {
            St::Json | St::Val => match cl {
                Cl::Open => {
                    ib.push(true);
                    bp.push(true);
                    bp.push(true);
                }
                Cl::Close => {
                    ib.push(true);
                    bp.push(false);
                    bp.push(false);
                }
                Cl::Delim => {
                    ib.push(true);
                    bp.push(false);
                    bp.push(true);
                }
                Cl::Quote => {
                    ib.push(false);
                    st = St::Str;
                }
                _ => ib.push(false),
            },
            St::Str => {
                ib.push(false);
                st = match cl {
                    Cl::Quote => St::Json,
                    Cl::Backslash => St::Esc,
                    _ => St::Str,
                };
            }
            St::Esc => {
                ib.push(false);
                st = St::Str;
            }
        }
    }
    Ref { ib: ib.w, bp_bits: bp.n, bp: bp.w, st, bp_before, st_before }
}

// ------------------------------------------------------------------ engines --

fn st_std(s: standard::State) -> St {
    match s {
        standard::State::InJson => St::Json,
        standard::State::InString => St::Str,
        standard::State::InEscape => St::Esc,
        standard::State::InValue => St::Val,
    }
}
fn st_simple(s: simple::State) -> St {
    match s {
        simple::State::InJson => St::Json,
        simple::State::InString => St::Str,
        simple::State::InEscape => St::Esc,
    }
}

type StdEngine = (&'static str, fn(&[u8]) -> standard::SemiIndex);
type SimpleEngine = (&'static str, fn(&[u8]) -> simple::SemiIndex);

fn std_engines(avx2: bool) -> Vec<StdEngine> {
    let mut v: Vec<StdEngine> = vec![
        ("pfsm", standard::build_semi_index),
        ("scalar", standard::build_semi_index_scalar),
        ("sse2", simd::x86::build_semi_index_standard),
        ("dispatch", simd::build_semi_index_standard),
    ];
    if avx2 {
        v.push(("avx2", simd::avx2::build_semi_index_standard));
    }
    v
}
fn simple_engines(avx2: bool) -> Vec<SimpleEngine> {
    let mut v: Vec<SimpleEngine> = vec![("scalar", simple::build_semi_index), ("sse2", simd::x86::build_semi_index_simple), ("dispatch", simd::build_semi_index_simple)];
    if avx2 {
        v.push(("avx2", simd::avx2::build_semi_index_simple));
    }
    v
}

struct Engines {
    std: Vec<StdEngine>,
    simple: Vec<SimpleEngine>,
}

fn case_of(t: &[u8]) -> Value {
    json!({"kind": "bytes", "hex": hex(t), "text": show(t)})
}

/// Describe the first disagreement (failure path only): (component, detail).
/// The component goes into the signature; the detail (class of the byte at the
/// first differing bit, reference state before it) into the example.
fn attribute(t: &[u8], simple_enc: bool, got_ib: &[u64], got_bp: &[u64], got_st: St) -> (&'static str, String) {
    let r = if simple_enc { ref_simple(t, true) } else { ref_standard(t, true) };
    for i in 0..t.len() {
        if gen::bit(got_ib, i) != gen::bit(&r.ib, i) {
            return ("ib", format!("first differing IB bit at byte {i} (class {}, reference state before it {:?}, offset mod 16 = {})", class_name(t[i]), r.st_before[i], i % 16));
        }
    }
    if got_ib.len() != r.ib.len() {
        return ("ib-word-count", format!("got {} words, reference {}", got_ib.len(), r.ib.len()));
    }
    if got_ib != &r.ib[..] {
        return ("ib-bits-beyond-length", String::new());
    }
    let nb = r.bp_bits.max(got_bp.len() * 64);
    for j in 0..nb {
        if gen::bit(got_bp, j) != gen::bit(&r.bp, j) {
            if j >= r.bp_bits {
                return ("bp-bits-beyond-length", format!("bp bit {j} set, reference wrote {} bits", r.bp_bits));
            }
            let i = r.bp_before.partition_point(|&b| (b as usize) <= j) - 1;
            return ("bp", format!("first differing BP bit {j}, written for byte {i} (class {}, reference state before it {:?})", class_name(t[i]), r.st_before[i]));
        }
    }
    if got_bp.len() != r.bp.len() {
        return ("bp-word-count", format!("got {} words, reference {}", got_bp.len(), r.bp.len()));
    }
    if got_st != r.st {
        return ("final-state", format!("got {:?}, reference {:?}, last byte class {}", got_st, r.st, t.last().map_or("none", |&c| class_name(c))));
    }
    ("unknown", String::new())
}

/// Run every engine on `t`. `lib` also builds the library indexes.
fn check(e: &Engines, t: &[u8], lib: bool, rep: &mut Report) {
    let size = t.len();
    let r = ref_standard(t, false);
    for (name, f) in &e.std {
        rep.trans(1);
        match catch(|| f(t)) {
            Ok(s) => {
                if s.ib != r.ib || s.bp != r.bp || st_std(s.state) != r.st {
                    let (why, detail) = attribute(t, false, &s.ib, &s.bp, st_std(s.state));
                    rep.fail(&format!("{name}:standard:{why}"), size, || {
                        let mut c = case_of(t);
                        c["detail"] = json!(detail);
                        c
                    });
                }
            }
            Err(m) => rep.fail(&format!("PANIC:{name}:standard"), size, || {
                let mut c = case_of(t);
                c["panic"] = json!(m);
                c
            }),
        }
    }
    let q = ref_simple(t, false);
    for (name, f) in &e.simple {
        rep.trans(1);
        match catch(|| f(t)) {
            Ok(s) => {
                if s.ib != q.ib || s.bp != q.bp || st_simple(s.state) != q.st {
                    let (why, detail) = attribute(t, true, &s.ib, &s.bp, st_simple(s.state));
                    rep.fail(&format!("{name}:simple:{why}"), size, || {
                        let mut c = case_of(t);
                        c["detail"] = json!(detail);
                        c
                    });
                }
            }
            Err(m) => rep.fail(&format!("PANIC:{name}:simple"), size, || {
                let mut c = case_of(t);
                c["panic"] = json!(m);
                c
            }),
        }
    }
    if lib {
        rep.trans(2);
        match catch(|| {
            let ix = JsonIndex::build(t);
            (ix.ib().to_vec(), ix.ib_len(), ix.bp().words().to_vec(), ix.bp().len())
        }) {
            Ok((ib, ib_len, bp, bp_len)) => {
                let ones: usize = r.bp.iter().map(|w| w.count_ones() as usize).sum();
                // the library derives the BP length as 2 x opens: exact iff closes == opens
                let balanced = r.bp_bits == 2 * ones;
                if ib != r.ib || ib_len != t.len() {
                    rep.fail("JsonIndex::build:ib-differs-from-reference", size, || case_of(t));
                } else if balanced && (bp != r.bp || bp_len != r.bp_bits) {
                    rep.fail("JsonIndex::build:bp-differs-from-reference", size, || case_of(t));
                }
            }
            Err(m) => rep.fail("PANIC:JsonIndex::build", size, || {
                let mut c = case_of(t);
                c["panic"] = json!(m);
                c
            }),
        }
        match catch(|| {
            let ix = SimpleJsonIndex::build(t);
            (ix.ib().to_vec(), ix.ib_len(), ix.bp().words().to_vec(), ix.bp().len())
        }) {
            Ok((ib, ib_len, bp, bp_len)) => {
                if ib != q.ib || ib_len != t.len() || bp != q.bp || bp_len != q.bp_bits {
                    rep.fail("SimpleJsonIndex::build:differs-from-reference", size, || case_of(t));
                }
            }
            Err(m) => rep.fail("PANIC:SimpleJsonIndex::build", size, || {
                let mut c = case_of(t);
                c["panic"] = json!(m);
                c
            }),
        }
    }
}

// ---------------------------------------------------------------- placement --

const CARRY: [St; 4] = [St::Json, St::Str, St::Esc, St::Val];
const TAIL_FILL: &[u8] = b"1, ";

/// Prefix of exactly `p` bytes that leaves the reference automaton in `carry`
/// (None when impossible: p = 0 allows only Json, Esc needs 2 bytes).
fn prefix(buf: &mut Vec<u8>, p: usize, carry: St) -> bool {
    buf.clear();
    match carry {
        St::Json => buf.resize(p, b' '),
        St::Val => {
            if p < 1 {
                return false;
            }
            buf.resize(p, b'1');
        }
        St::Str => {
            if p < 1 {
                return false;
            }
            buf.push(b'"');
            buf.resize(p, b'x');
        }
        St::Esc => {
            if p < 2 {
                return false;
            }
            buf.push(b'"');
            buf.resize(p - 1, b'x');
            buf.push(b'\\');
        }
    }
    true
}

/// Total lengths. mode 2: window at the very end, +1, +3, padded to 64, 65, 130;
/// mode 1: end, 65, 130; mode 0: end, 65.
fn totals(end: usize, mode: u8) -> Vec<usize> {
    let mut v = vec![end];
    if mode == 2 {
        v.extend([end + 1, end + 3]);
    }
    for t in [64usize, 65, 130] {
        if t > end && (mode == 2 || t == 65 || (t == 130 && mode == 1)) {
            v.push(t);
        }
    }
    v.sort_unstable();
    v.dedup();
    v
}

/// Place window `s` at every offset of `offs` under every carry-in and total length.
fn sweep(e: &Engines, s: &[u8], offs: &[usize], full_tails: u8, lib: bool, rep: &mut Report, buf: &mut Vec<u8>, selfcheck: bool) {
    for &p in offs {
        for carry in CARRY {
            if !prefix(buf, p, carry) {
                continue;
            }
            if selfcheck {
                assert_eq!(ref_standard(buf, false).st, carry, "harness: prefix does not produce the carry-in state");
            }
            buf.extend_from_slice(s);
            let end = buf.len();
            for total in totals(end, full_tails) {
                buf.truncate(end);
                let mut k = 0;
                while buf.len() < total {
                    buf.push(TAIL_FILL[k % TAIL_FILL.len()]);
                    k += 1;
                }
                rep.input();
                check(e, buf, lib && total == end, rep);
            }
        }
    }
}

pub const ALPHA27: [u8; 27] = [
    b'{', b'}', b'[', b']', b',', b':', b'"', b'\\', b' ', b'\n', b'0', b'9', b'a', b'z', b'A', b'Z', b'-', b'+', b'.', b'/', b'@', b'`', b'~', 0x00, 0x7f, 0x80, 0xff,
];
const CLASS_A: [u8; 7] = [b'{', b']', b',', b'"', b'\\', b' ', b'a'];
const CLASS_B: [u8; 7] = [b'[', b'}', b':', b'"', b'\\', b'\n', b'9'];

fn explore(ctx: &Ctx, rep: &mut Report) {
    let avx2 = std::arch::is_x86_feature_detected!("avx2");
    let e = Engines { std: std_engines(avx2), simple: simple_engines(avx2) };
    rep.path("pfsm");
    rep.path("scalar");
    rep.path("sse2");
    rep.path(if avx2 { "avx2 (also the dispatcher's choice)" } else { "dispatcher -> sse2 (no AVX2 on this host)" });
    // reference self-test on hand-computed cases from the module documentation
    {
        let r = ref_standard(br#"{"a":1}"#, false);
        assert_eq!((r.ib[0], r.bp[0], r.bp_bits, r.st), (0b0100011, 0b001011, 6, St::Json), "reference self-test (standard)");
        let q = ref_simple(br#"{"a":1}"#, false);
        assert_eq!((q.ib[0], q.bp_bits, q.st), (0b1010001, 6, St::Json), "reference self-test (simple)");
        assert_eq!(q.bp[0], 0b00_10_11, "reference self-test (simple bp: 11 01 00, LSB first)");
        assert_eq!(ref_standard(b"\"\\", false).st, St::Esc);
        assert_eq!(ref_standard(b"12", false).st, St::Val);
    }
    let all_offs = gen::align_offsets(false);
    let q_offs = gen::align_offsets(true);
    let few_offs: Vec<usize> = vec![0, 15, 31, 62];
    let mid_offs: Vec<usize> = vec![0, 1, 14, 15, 16, 30, 31, 32, 33, 47, 62, 63, 64, 65];
    let a27: Vec<&[u8]> = ALPHA27.iter().map(std::slice::from_ref).collect();
    let ca: Vec<&[u8]> = CLASS_A.iter().map(std::slice::from_ref).collect();
    let cb: Vec<&[u8]> = CLASS_B.iter().map(std::slice::from_ref).collect();

    let two_offs: Vec<usize> = vec![0, 29];
    // (name, alphabet, maxlen, offsets, tail mode, library indexes)
    let plans: Vec<(&str, &Vec<&[u8]>, u32, &Vec<usize>, u8, bool)> = if ctx.quick() {
        vec![
            ("bytes27/len<=3/full-sweep", &a27, 3, &q_offs, 2, true),
            ("bytes27/len<=4/reduced-sweep", &a27, 4, &two_offs, 0, false),
            ("classA/len<=5/sweep", &ca, 5, &q_offs, 1, false),
            ("classB/len<=5/sweep", &cb, 5, &few_offs, 1, false),
        ]
    } else {
        vec![
            ("bytes27/len<=3/full-sweep", &a27, 3, &all_offs, 2, true),
            ("bytes27/len<=4/sweep", &a27, 4, &mid_offs, 1, false),
            ("bytes27/len<=5/reduced-sweep", &a27, 5, &two_offs, 0, false),
            ("classA/len<=6/boundary-sweep", &ca, 6, &q_offs, 1, true),
            ("classA/len<=8/reduced-sweep", &ca, 8, &two_offs, 0, false),
            ("classB/len<=7/sweep", &cb, 7, &few_offs, 1, false),
        ]
    };
    for (name, alpha, maxlen, offs, full, lib) in plans {
        if ctx.over_budget() {
            rep.caps.push(format!("wall cap reached before sub-space {name}"));
            continue;
        }
        let r = par_strings(ctx, name, alpha, maxlen, |s, idx, rep| {
            let mut buf = Vec::with_capacity(160);
            sweep(&e, s, offs, full, lib, rep, &mut buf, idx.len() <= 1);
            if idx.len() as u32 == maxlen && idx.iter().all(|&i| i == idx[0]) {
                rep.distinct(&(name, s));
            }
        });
        let mut r = r;
        let note = format!(
            "all {} strings of length 0..={} over {} symbols, each at offsets {:?} x carry-in {{InJson,InString,InEscape,InValue}} x total lengths {}",
            count_strings(alpha.len() as u64, maxlen),
            maxlen,
            alpha.len(),
            offs,
            ["{end, 65}", "{end, 65, 130}", "{end, +1, +3, 64, 65, 130}"][full as usize]
        );
        r.mark_exhaustive(name, &note);
        rep.merge(r);
    }

    // families -------------------------------------------------------------
    // (b) quote / backslash runs of 1..70 at every offset, carry-in Json and Str
    let r = par_range_in(ctx, "family/quote-backslash-runs", 70 * 66, 16, |i, rep| {
        let k = (i / 66) as usize + 1;
        let p = (i % 66) as usize;
        let mut buf = Vec::with_capacity(300);
        let runs: [Vec<u8>; 4] = [vec![b'"'; k], vec![b'\\'; k], (0..k).flat_map(|_| *b"\\\"").collect(), (0..k).map(|j| if j % 3 == 2 { b'"' } else { b'\\' }).collect()];
        for run in &runs {
            for carry in [St::Json, St::Str, St::Esc, St::Val] {
                if !prefix(&mut buf, p, carry) {
                    continue;
                }
                buf.extend_from_slice(run);
                let end = buf.len();
                for tail in [&b""[..], b"\"1,\"a\" [", b"\\\"x\",2"] {
                    buf.truncate(end);
                    buf.extend_from_slice(tail);
                    rep.input();
                    check(&e, &buf, true, rep);
                    let e2 = buf.len();
                    while buf.len() < 200 {
                        buf.push(TAIL_FILL[buf.len() % 3]);
                    }
                    rep.input();
                    check(&e, &buf, false, rep);
                    buf.truncate(e2);
                }
            }
        }
        rep.distinct(&("runs", k, p));
    });
    let mut r = r;
    r.mark_exhaustive("family/quote-backslash-runs", "runs of 1..=70 quotes / backslashes / \\\" pairs / mixed at every offset 0..=65, 4 carry-in states, 3 suffixes, short and 200-byte totals");
    rep.merge(r);
    // (c) every byte value at every offset 0..=64 in each carry-in state
    let r = par_range_in(ctx, "family/every-byte-every-offset", 256 * 65, 64, |i, rep| {
        let c = (i / 65) as u8;
        let p = (i % 65) as usize;
        let mut buf = Vec::with_capacity(200);
        for carry in CARRY {
            if !prefix(&mut buf, p, carry) {
                continue;
            }
            buf.push(c);
            let end = buf.len();
            for (ti, tail) in [&b""[..], b"1,\"a\"", b"\"x\\\"\" 7]"].iter().enumerate() {
                buf.truncate(end);
                buf.extend_from_slice(tail);
                rep.input();
                check(&e, &buf, true, rep);
                if ti == 1 {
                    while buf.len() < 131 {
                        buf.push(TAIL_FILL[buf.len() % 3]);
                    }
                    rep.input();
                    check(&e, &buf, false, rep);
                }
            }
        }
        rep.distinct(&("byte", c, p % 32));
    });
    let mut r = r;
    r.mark_exhaustive("family/every-byte-every-offset", "all 256 byte values at every offset 0..=64 x 4 carry-in states x 3 suffixes (+ a 131-byte total)");
    rep.merge(r);
    // (c2) homogeneous runs: a run of ONE byte value long enough to fill whole 16/32/64-byte chunks, under each
    // carry-in state, followed by each kind of terminator. Chunked engines are tempted to skip a chunk that holds
    // nothing "interesting"; what such a fast path must still do (consume a pending escape, end a pending value,
    // count quotes) depends on the carried state, and only a chunk-filling uniform run exercises it.
    let fills: [u8; 10] = [b' ', b'x', b'1', b'/', b',', b'\n', 0x80, 0xe4, 0x00, b'-'];
    let terms: [&[u8]; 8] = [b"", b"\"", b"\\", b"]", b"a", b" ", b"\",1]", b"\\\"x\""];
    let run_lens: Vec<usize> = if ctx.quick() { gen::boundaries(&[1, 16, 32, 48, 64, 96, 128], 131) } else { (1..=131).collect() };
    let run_offs: Vec<usize> = if ctx.quick() { gen::boundaries(&[0, 16, 32, 48, 64], 66) } else { (0..=65).collect() };
    let nl = run_lens.len() as u64;
    let no = run_offs.len() as u64;
    let r = par_range_in(ctx, "family/uniform-runs", fills.len() as u64 * nl * no, 16, |i, rep| {
        let f = fills[(i / (nl * no)) as usize];
        let len = run_lens[((i / no) % nl) as usize];
        let p = run_offs[(i % no) as usize];
        let mut buf = Vec::with_capacity(300);
        for carry in CARRY {
            if !prefix(&mut buf, p, carry) {
                continue;
            }
            buf.extend(std::iter::repeat(f).take(len));
            let end = buf.len();
            for t in terms {
                buf.truncate(end);
                buf.extend_from_slice(t);
                rep.input();
                check(&e, &buf, t.is_empty(), rep);
            }
        }
        rep.distinct(&("uniform", f, len, p % 64));
    });
    let mut r = r;
    r.mark_exhaustive("family/uniform-runs", "runs of one byte value (10 class representatives incl. non-ASCII) of every length in the stated set at every offset of the stated set x 4 carry-in states x 8 terminators (incl. end of input)");
    rep.merge(r);
    // (d) periodic fills to 4 KiB
    let per = ctx.pick(3u32, 4u32);
    let r = par_strings(ctx, "family/periodic-4KiB", &ca, per, |s, _idx, rep| {
        if s.is_empty() {
            return;
        }
        for total in [4095usize, 4096, 4097] {
            let buf: Vec<u8> = (0..total).map(|i| s[i % s.len()]).collect();
            rep.input();
            check(&e, &buf, true, rep);
        }
    });
    rep.merge(r);
    // (e) valid documents
    let sp = jgen::Space::new(jgen::Alphabet::reduced(), 3);
    let r = jgen::for_each_doc(ctx, "docs/J3/reduced", &sp, &jgen::WS, false, 0, &|d, rep| check(&e, &d.text, true, rep));
    rep.merge(r);
    let sp = jgen::Space::new(jgen::Alphabet::full(), 2);
    let r = jgen::for_each_doc(ctx, "docs/J2/full", &sp, &jgen::WS, true, 0, &|d, rep| check(&e, &d.text, true, rep));
    rep.merge(r);
    let fams = [("sparse", 3usize), ("array", 513), ("nest-mix", 129), ("repeat", 70_000), ("bigstring", 5000)];
    rep.space("docs/families");
    for (n, p) in fams {
        let d = jgen::family(n, p, &jgen::Ws::Uniform(" ".into()));
        rep.input();
        check(&e, &d.text, true, rep);
    }
    rep.mark_exhaustive("docs/families", "5 scale-family documents (to 70 KB) through every engine");

    rep.sample(|| {
        let t = b"\"x\\\"y\",[1e5] ";
        let r = ref_standard(t, false);
        json!({"input": show(t), "reference_ib": format!("{:b}", r.ib[0]), "reference_bp": format!("{:b}", r.bp[0]), "state": format!("{:?}", r.st)})
    });
    rep.sample(|| json!({"placement": "window after p filler bytes; carry-in InEscape = '\"' + 'x'*(p-2) + '\\\\'", "example": show(&{ let mut b = vec![]; prefix(&mut b, 17, St::Esc); b.extend_from_slice(b"\"],"); b })}));
    rep.extra.insert("engines_standard".into(), json!(e.std.iter().map(|x| x.0).chain(["JsonIndex::build"]).collect::<Vec<_>>()));
    rep.extra.insert("engines_simple".into(), json!(e.simple.iter().map(|x| x.0).chain(["SimpleJsonIndex::build"]).collect::<Vec<_>>()));
    rep.extra.insert("byte_alphabet_27".into(), json!(show(&ALPHA27)));
    rep.extra.insert("class_alphabets".into(), json!([show(&CLASS_A), show(&CLASS_B)]));
}

fn replay(case: &Value, rep: &mut Report) {
    let avx2 = std::arch::is_x86_feature_detected!("avx2");
    let e = Engines { std: std_engines(avx2), simple: simple_engines(avx2) };
    let t = unhex(case["hex"].as_str().unwrap());
    check(&e, &t, true, rep);
}

fn main() {
    drive("C05", explore, replay);
}
