//! Helper module for the C23 and C25 explorers (owned by them).
//!
//! * `V` — an own JSON value model with an own strict parser, printer, jq total
//!   order, path enumeration, getpath/setpath and tree diff. None of it calls
//!   succinctly.
//! * `values(..)` — the bounded value grammar of C25.
//! * `run_full` / `run_generic` — run one parsed program on one JSON text through
//!   `jq::eval::<_, JqSemantics>` and `jq::eval_generic::eval_with_cursor` and
//!   observe (outputs as JSON text, terminal). Lazy result variants are
//!   materialised through their public `materialize_atomic` / `collect_owned`
//!   paths so that a deferred error is observed as the terminal.
#![allow(dead_code)]
use std::cmp::Ordering;
use succinctly::jq::eval_generic::{self, GenericResult};
use succinctly::jq::{self, Control, Expr, JqSemantics, OwnedValue, QueryResult};
use succinctly::json::JsonIndex;

// ------------------------------------------------------------------ values --

#[derive(Clone, Debug)]
pub enum V {
    Null,
    Bool(bool),
    /// numeric value and the spelling it was read from / is printed with
    Num(f64, String),
    Str(String),
    Arr(Vec<V>),
    /// insertion-ordered; may hold duplicate keys when parsed from raw text
    Obj(Vec<(String, V)>),
}

impl V {
    pub fn num(s: &str) -> V {
        V::Num(s.parse::<f64>().expect("number spelling"), s.to_string())
    }
    pub fn str(s: &str) -> V {
        V::Str(s.to_string())
    }
    pub fn type_name(&self) -> &'static str {
        match self {
            V::Null => "null",
            V::Bool(_) => "boolean",
            V::Num(..) => "number",
            V::Str(_) => "string",
            V::Arr(_) => "array",
            V::Obj(_) => "object",
        }
    }
    fn type_rank(&self) -> u8 {
        match self {
            V::Null => 0,
            V::Bool(false) => 1,
            V::Bool(true) => 2,
            V::Num(..) => 3,
            V::Str(_) => 4,
            V::Arr(_) => 5,
            V::Obj(_) => 6,
        }
    }
    pub fn nodes(&self) -> usize {
        match self {
            V::Arr(a) => 1 + a.iter().map(|x| x.nodes()).sum::<usize>(),
            V::Obj(o) => 1 + o.iter().map(|(_, x)| x.nodes()).sum::<usize>(),
            _ => 1,
        }
    }
    pub fn has_dup_keys(&self) -> bool {
        match self {
            V::Arr(a) => a.iter().any(|x| x.has_dup_keys()),
            V::Obj(o) => {
                for (i, (k, v)) in o.iter().enumerate() {
                    if v.has_dup_keys() || o[..i].iter().any(|(k2, _)| k2 == k) {
                        return true;
                    }
                }
                false
            }
            _ => false,
        }
    }
    /// Collapse duplicate keys the way jq's parser does: first position, last value.
    pub fn dedup_keys(&self) -> V {
        match self {
            V::Arr(a) => V::Arr(a.iter().map(|x| x.dedup_keys()).collect()),
            V::Obj(o) => {
                let mut out: Vec<(String, V)> = Vec::new();
                for (k, v) in o {
                    let v = v.dedup_keys();
                    match out.iter_mut().find(|(k2, _)| k2 == k) {
                        Some(e) => e.1 = v,
                        None => out.push((k.clone(), v)),
                    }
                }
                V::Obj(out)
            }
            o => o.clone(),
        }
    }
    pub fn to_json(&self) -> String {
        let mut s = String::new();
        self.write(&mut s);
        s
    }
    fn write(&self, s: &mut String) {
        match self {
            V::Null => s.push_str("null"),
            V::Bool(true) => s.push_str("true"),
            V::Bool(false) => s.push_str("false"),
            V::Num(_, t) => s.push_str(t),
            V::Str(x) => write_str(x, s),
            V::Arr(a) => {
                s.push('[');
                for (i, x) in a.iter().enumerate() {
                    if i > 0 {
                        s.push(',');
                    }
                    x.write(s);
                }
                s.push(']');
            }
            V::Obj(o) => {
                s.push('{');
                for (i, (k, x)) in o.iter().enumerate() {
                    if i > 0 {
                        s.push(',');
                    }
                    write_str(k, s);
                    s.push(':');
                    x.write(s);
                }
                s.push('}');
            }
        }
    }
}

fn write_str(x: &str, s: &mut String) {
    s.push('"');
    for ch in x.chars() {
        match ch {
            '"' => s.push_str("\\\""),
            '\\' => s.push_str("\\\\"),
            '\n' => s.push_str("\\n"),
            '\r' => s.push_str("\\r"),
            '\t' => s.push_str("\\t"),
            c if (c as u32) < 0x20 || c as u32 == 0x7f => s.push_str(&format!("\\u{:04x}", c as u32)),
            c => s.push(c),
        }
    }
    s.push('"');
}

/// JSON value equality: numbers by numeric value, objects as key -> value maps
/// (key order irrelevant; with duplicate keys the last one counts).
pub fn veq(a: &V, b: &V) -> bool {
    match (a, b) {
        (V::Null, V::Null) => true,
        (V::Bool(x), V::Bool(y)) => x == y,
        (V::Num(x, _), V::Num(y, _)) => x == y || (x.is_nan() && y.is_nan()),
        (V::Str(x), V::Str(y)) => x == y,
        (V::Arr(x), V::Arr(y)) => x.len() == y.len() && x.iter().zip(y).all(|(p, q)| veq(p, q)),
        (V::Obj(_), V::Obj(_)) => {
            let (x, y) = (a.dedup_keys(), b.dedup_keys());
            let (V::Obj(x), V::Obj(y)) = (&x, &y) else { unreachable!() };
            x.len() == y.len() && x.iter().all(|(k, v)| y.iter().find(|(k2, _)| k2 == k).map_or(false, |(_, v2)| veq(v, v2)))
        }
        _ => false,
    }
}

/// Same value *and* same object key order at every level.
pub fn veq_ordered(a: &V, b: &V) -> bool {
    match (a, b) {
        (V::Arr(x), V::Arr(y)) => x.len() == y.len() && x.iter().zip(y).all(|(p, q)| veq_ordered(p, q)),
        (V::Obj(x), V::Obj(y)) => x.len() == y.len() && x.iter().zip(y).all(|((k, p), (k2, q))| k == k2 && veq_ordered(p, q)),
        _ => veq(a, b),
    }
}

/// jq's total order: null < false < true < numbers < strings < arrays < objects;
/// numbers numerically; strings by code point (= UTF-8 byte order); arrays
/// lexicographically; objects first by their sorted key lists, then value by
/// value in sorted-key order.
pub fn jq_cmp(a: &V, b: &V) -> Ordering {
    let (ra, rb) = (a.type_rank(), b.type_rank());
    if ra != rb {
        return ra.cmp(&rb);
    }
    match (a, b) {
        (V::Num(x, _), V::Num(y, _)) => x.partial_cmp(y).unwrap_or(Ordering::Equal),
        (V::Str(x), V::Str(y)) => x.as_bytes().cmp(y.as_bytes()),
        (V::Arr(x), V::Arr(y)) => {
            for (p, q) in x.iter().zip(y) {
                let c = jq_cmp(p, q);
                if c != Ordering::Equal {
                    return c;
                }
            }
            x.len().cmp(&y.len())
        }
        (V::Obj(x), V::Obj(y)) => {
            let mut kx: Vec<&(String, V)> = x.iter().collect();
            let mut ky: Vec<&(String, V)> = y.iter().collect();
            kx.sort_by(|p, q| p.0.as_bytes().cmp(q.0.as_bytes()));
            ky.sort_by(|p, q| p.0.as_bytes().cmp(q.0.as_bytes()));
            // key lists as arrays of strings
            for (p, q) in kx.iter().zip(&ky) {
                let c = p.0.as_bytes().cmp(q.0.as_bytes());
                if c != Ordering::Equal {
                    return c;
                }
            }
            if kx.len() != ky.len() {
                return kx.len().cmp(&ky.len());
            }
            for (p, q) in kx.iter().zip(&ky) {
                let c = jq_cmp(&p.1, &q.1);
                if c != Ordering::Equal {
                    return c;
                }
            }
            Ordering::Equal
        }
        _ => Ordering::Equal,
    }
}

// ------------------------------------------------------------------ parser --

pub fn parse_json(text: &str) -> Result<V, String> {
    let b = text.as_bytes();
    let mut p = 0usize;
    skip_ws(b, &mut p);
    let v = parse_value(b, &mut p, 0)?;
    skip_ws(b, &mut p);
    if p != b.len() {
        return Err(format!("trailing bytes at {p}"));
    }
    Ok(v)
}

fn skip_ws(b: &[u8], p: &mut usize) {
    while *p < b.len() && matches!(b[*p], b' ' | b'\n' | b'\r' | b'\t') {
        *p += 1;
    }
}

fn parse_value(b: &[u8], p: &mut usize, depth: usize) -> Result<V, String> {
    if depth > 200 {
        return Err("too deep".into());
    }
    match b.get(*p) {
        None => Err("unexpected end".into()),
        Some(b'n') => lit(b, p, "null", V::Null),
        Some(b't') => lit(b, p, "true", V::Bool(true)),
        Some(b'f') => lit(b, p, "false", V::Bool(false)),
        Some(b'"') => Ok(V::Str(parse_string(b, p)?)),
        Some(b'[') => {
            *p += 1;
            let mut a = Vec::new();
            skip_ws(b, p);
            if b.get(*p) == Some(&b']') {
                *p += 1;
                return Ok(V::Arr(a));
            }
            loop {
                skip_ws(b, p);
                a.push(parse_value(b, p, depth + 1)?);
                skip_ws(b, p);
                match b.get(*p) {
                    Some(b',') => *p += 1,
                    Some(b']') => {
                        *p += 1;
                        return Ok(V::Arr(a));
                    }
                    _ => return Err(format!("expected , or ] at {p}")),
                }
            }
        }
        Some(b'{') => {
            *p += 1;
            let mut o = Vec::new();
            skip_ws(b, p);
            if b.get(*p) == Some(&b'}') {
                *p += 1;
                return Ok(V::Obj(o));
            }
            loop {
                skip_ws(b, p);
                if b.get(*p) != Some(&b'"') {
                    return Err(format!("expected key at {p}"));
                }
                let k = parse_string(b, p)?;
                skip_ws(b, p);
                if b.get(*p) != Some(&b':') {
                    return Err(format!("expected : at {p}"));
                }
                *p += 1;
                skip_ws(b, p);
                let v = parse_value(b, p, depth + 1)?;
                o.push((k, v));
                skip_ws(b, p);
                match b.get(*p) {
                    Some(b',') => *p += 1,
                    Some(b'}') => {
                        *p += 1;
                        return Ok(V::Obj(o));
                    }
                    _ => return Err(format!("expected , or }} at {p}")),
                }
            }
        }
        Some(c) if *c == b'-' || c.is_ascii_digit() => {
            let s = *p;
            if b[*p] == b'-' {
                *p += 1;
            }
            let d0 = *p;
            while *p < b.len() && b[*p].is_ascii_digit() {
                *p += 1;
            }
            if *p == d0 || (b[d0] == b'0' && *p - d0 > 1) {
                return Err(format!("bad number at {s}"));
            }
            if b.get(*p) == Some(&b'.') {
                *p += 1;
                let f0 = *p;
                while *p < b.len() && b[*p].is_ascii_digit() {
                    *p += 1;
                }
                if *p == f0 {
                    return Err(format!("bad fraction at {s}"));
                }
            }
            if matches!(b.get(*p), Some(b'e') | Some(b'E')) {
                *p += 1;
                if matches!(b.get(*p), Some(b'+') | Some(b'-')) {
                    *p += 1;
                }
                let e0 = *p;
                while *p < b.len() && b[*p].is_ascii_digit() {
                    *p += 1;
                }
                if *p == e0 {
                    return Err(format!("bad exponent at {s}"));
                }
            }
            let t = std::str::from_utf8(&b[s..*p]).unwrap();
            let f: f64 = t.parse().map_err(|_| format!("unparsable number {t}"))?;
            Ok(V::Num(f, t.to_string()))
        }
        Some(c) => Err(format!("unexpected byte {c:#x} at {p}")),
    }
}

fn lit(b: &[u8], p: &mut usize, w: &str, v: V) -> Result<V, String> {
    if b[*p..].starts_with(w.as_bytes()) {
        *p += w.len();
        Ok(v)
    } else {
        Err(format!("bad literal at {p}"))
    }
}

fn hex4(b: &[u8], p: usize) -> Result<u32, String> {
    if p + 4 > b.len() {
        return Err("short \\u".into());
    }
    let s = std::str::from_utf8(&b[p..p + 4]).map_err(|_| "bad \\u")?;
    u32::from_str_radix(s, 16).map_err(|_| "bad \\u".to_string())
}

fn parse_string(b: &[u8], p: &mut usize) -> Result<String, String> {
    *p += 1; // opening quote
    let mut out: Vec<u8> = Vec::new();
    loop {
        match b.get(*p) {
            None => return Err("unterminated string".into()),
            Some(b'"') => {
                *p += 1;
                break;
            }
            Some(b'\\') => {
                *p += 1;
                let c = *b.get(*p).ok_or("dangling backslash")?;
                *p += 1;
                match c {
                    b'"' => out.push(b'"'),
                    b'\\' => out.push(b'\\'),
                    b'/' => out.push(b'/'),
                    b'b' => out.push(8),
                    b'f' => out.push(12),
                    b'n' => out.push(b'\n'),
                    b'r' => out.push(b'\r'),
                    b't' => out.push(b'\t'),
                    b'u' => {
                        let mut cp = hex4(b, *p)?;
                        *p += 4;
                        if (0xD800..0xDC00).contains(&cp) {
                            if b.get(*p) == Some(&b'\\') && b.get(*p + 1) == Some(&b'u') {
                                let lo = hex4(b, *p + 2)?;
                                if (0xDC00..0xE000).contains(&lo) {
                                    cp = 0x10000 + ((cp - 0xD800) << 10) + (lo - 0xDC00);
                                    *p += 6;
                                } else {
                                    cp = 0xFFFD;
                                }
                            } else {
                                cp = 0xFFFD;
                            }
                        } else if (0xDC00..0xE000).contains(&cp) {
                            cp = 0xFFFD;
                        }
                        let ch = char::from_u32(cp).unwrap_or('\u{FFFD}');
                        let mut buf = [0u8; 4];
                        out.extend_from_slice(ch.encode_utf8(&mut buf).as_bytes());
                    }
                    _ => return Err("bad escape".into()),
                }
            }
            Some(&c) if c < 0x20 => return Err(format!("raw control byte {c:#x} in string")),
            Some(&c) => {
                out.push(c);
                *p += 1;
            }
        }
    }
    String::from_utf8(out).map_err(|_| "invalid UTF-8 in string".to_string())
}

// ------------------------------------------------------------------- paths --

#[derive(Clone, Debug, PartialEq, Eq, Hash)]
pub enum Step {
    Key(String),
    Idx(usize),
}

pub type Path = Vec<Step>;

/// All non-empty paths of `v` in pre-order (the order of jq's `paths`).
pub fn paths(v: &V) -> Vec<Path> {
    fn rec(v: &V, cur: &mut Path, out: &mut Vec<Path>) {
        match v {
            V::Arr(a) => {
                for (i, x) in a.iter().enumerate() {
                    cur.push(Step::Idx(i));
                    out.push(cur.clone());
                    rec(x, cur, out);
                    cur.pop();
                }
            }
            V::Obj(o) => {
                for (k, x) in o {
                    cur.push(Step::Key(k.clone()));
                    out.push(cur.clone());
                    rec(x, cur, out);
                    cur.pop();
                }
            }
            _ => {}
        }
    }
    let mut out = Vec::new();
    rec(v, &mut Vec::new(), &mut out);
    out
}

pub fn getpath<'a>(v: &'a V, p: &[Step]) -> Option<&'a V> {
    let mut cur = v;
    for s in p {
        cur = match (cur, s) {
            (V::Arr(a), Step::Idx(i)) => a.get(*i)?,
            (V::Obj(o), Step::Key(k)) => &o.iter().find(|(k2, _)| k2 == k)?.1,
            _ => return None,
        };
    }
    Some(cur)
}

/// Replace the node at an *existing* path.
pub fn setpath(v: &V, p: &[Step], new: &V) -> V {
    if p.is_empty() {
        return new.clone();
    }
    match (v, &p[0]) {
        (V::Arr(a), Step::Idx(i)) => V::Arr(a.iter().enumerate().map(|(j, x)| if j == *i { setpath(x, &p[1..], new) } else { x.clone() }).collect()),
        (V::Obj(o), Step::Key(k)) => V::Obj(o.iter().map(|(k2, x)| if k2 == k { (k2.clone(), setpath(x, &p[1..], new)) } else { (k2.clone(), x.clone()) }).collect()),
        _ => panic!("setpath: path does not exist"),
    }
}

/// Tree diff: the set of *minimal* paths at which `a` and `b` differ (a path is
/// reported when the nodes differ in type, scalar value, array length or key
/// set; otherwise the diff descends).
pub fn diff(a: &V, b: &V) -> Vec<Path> {
    fn rec(a: &V, b: &V, cur: &mut Path, out: &mut Vec<Path>) {
        match (a, b) {
            (V::Arr(x), V::Arr(y)) if x.len() == y.len() => {
                for (i, (p, q)) in x.iter().zip(y).enumerate() {
                    cur.push(Step::Idx(i));
                    rec(p, q, cur, out);
                    cur.pop();
                }
            }
            (V::Obj(x), V::Obj(y)) if x.len() == y.len() && x.iter().all(|(k, _)| y.iter().any(|(k2, _)| k2 == k)) => {
                for (k, p) in x {
                    let q = &y.iter().find(|(k2, _)| k2 == k).unwrap().1;
                    cur.push(Step::Key(k.clone()));
                    rec(p, q, cur, out);
                    cur.pop();
                }
            }
            _ => {
                if !veq(a, b) {
                    out.push(cur.clone());
                }
            }
        }
    }
    let mut out = Vec::new();
    rec(a, b, &mut Vec::new(), &mut out);
    out
}

pub fn path_to_json(p: &[Step]) -> String {
    let parts: Vec<String> = p
        .iter()
        .map(|s| match s {
            Step::Key(k) => V::Str(k.clone()).to_json(),
            Step::Idx(i) => i.to_string(),
        })
        .collect();
    format!("[{}]", parts.join(","))
}

/// `.["a"][0]` form (usable on the left of `=`).
pub fn path_to_expr(p: &[Step]) -> String {
    let mut s = String::from(".");
    for st in p {
        match st {
            Step::Key(k) => s.push_str(&format!("[{}]", V::Str(k.clone()).to_json())),
            Step::Idx(i) => s.push_str(&format!("[{i}]")),
        }
    }
    s
}

pub fn path_from_v(v: &V) -> Option<Path> {
    let V::Arr(a) = v else { return None };
    a.iter()
        .map(|s| match s {
            V::Str(k) => Some(Step::Key(k.clone())),
            V::Num(f, _) if *f >= 0.0 && f.fract() == 0.0 => Some(Step::Idx(*f as usize)),
            _ => None,
        })
        .collect()
}

// ----------------------------------------------------------- value grammar --

pub const LEAVES: [&str; 13] = ["null", "false", "true", "0", "-1", "1.5", "100000000000000000", "9007199254740993", "\"\"", "\"a\"", "\"a\\u00e9\\ud83d\\ude00\"", "\"\\u0000\"", "\"b\""];
pub const KEYS: [&str; 3] = ["a", "b", ""];

/// All values with at most `max_nodes` nodes and nesting depth at most
/// `max_depth` (a scalar has depth 1) over `LEAVES`, arrays, and objects whose
/// keys are distinct members of `KEYS` in every order.
pub fn values(max_nodes: usize, max_depth: usize) -> Vec<V> {
    let leaves: Vec<V> = LEAVES.iter().map(|s| parse_json(s).unwrap()).collect();
    // by[d][n] = values of depth <= d with exactly n nodes
    let mut by: Vec<Vec<Vec<V>>> = vec![vec![Vec::new(); max_nodes + 1]; max_depth + 1];
    for d in 1..=max_depth {
        for n in 1..=max_nodes {
            let mut out: Vec<V> = Vec::new();
            if n == 1 {
                out.extend(leaves.iter().cloned());
                if d >= 2 {
                    out.push(V::Arr(vec![]));
                    out.push(V::Obj(vec![]));
                }
            } else if d >= 2 {
                // containers with k children whose node counts sum to n-1
                let mut seqs: Vec<Vec<V>> = Vec::new();
                child_seqs(&by[d - 1], n - 1, &mut Vec::new(), &mut seqs);
                for ch in seqs {
                    out.push(V::Arr(ch.clone()));
                    if ch.len() <= KEYS.len() {
                        for ks in key_perms(ch.len()) {
                            out.push(V::Obj(ks.iter().map(|k| k.to_string()).zip(ch.iter().cloned()).collect()));
                        }
                    }
                }
            }
            by[d][n] = out;
        }
    }
    by[max_depth].iter().flatten().cloned().collect()
}

fn child_seqs(prev: &[Vec<V>], total: usize, cur: &mut Vec<V>, out: &mut Vec<Vec<V>>) {
    if total == 0 {
        out.push(cur.clone());
        return;
    }
    for n in 1..=total {
        for v in &prev[n] {
            cur.push(v.clone());
            child_seqs(prev, total - n, cur, out);
            cur.pop();
        }
    }
}

fn key_perms(k: usize) -> Vec<Vec<&'static str>> {
    fn rec(k: usize, cur: &mut Vec<&'static str>, out: &mut Vec<Vec<&'static str>>) {
        if cur.len() == k {
            out.push(cur.clone());
            return;
        }
        for key in KEYS {
            if !cur.contains(&key) {
                cur.push(key);
                rec(k, cur, out);
                cur.pop();
            }
        }
    }
    let mut out = Vec::new();
    rec(k, &mut Vec::new(), &mut out);
    out
}

// --------------------------------------------------------------- observers --

#[derive(Clone, Debug, PartialEq, Eq, Hash)]
pub enum Term {
    End,
    Error(String),
    Break(String),
    Halt(i32),
}

impl Term {
    pub fn kind(&self) -> &'static str {
        match self {
            Term::End => "end",
            Term::Error(_) => "error",
            Term::Break(_) => "break",
            Term::Halt(_) => "halt",
        }
    }
    pub fn show(&self) -> String {
        match self {
            Term::End => "end".into(),
            Term::Error(m) => format!("error: {m}"),
            Term::Break(l) => format!("break: {l}"),
            Term::Halt(c) => format!("halt: {c}"),
        }
    }
}

#[derive(Clone, Debug, PartialEq, Eq, Hash)]
pub struct Obs {
    pub outs: Vec<String>,
    pub term: Term,
}

fn term_of(c: &Control) -> Term {
    match c {
        Control::Error(e) => Term::Error(e.message.clone()),
        Control::Break(l) => Term::Break(l.clone()),
        Control::Halt(n) => Term::Halt(*n),
    }
}

fn js(v: &[OwnedValue]) -> Vec<String> {
    v.iter().map(|x| x.to_json()).collect()
}

/// A JSON text with its semi-index (built once, reused for many programs).
pub struct Doc {
    pub text: Vec<u8>,
    pub ix: JsonIndex<Vec<u64>>,
}

impl Doc {
    pub fn new(text: &[u8]) -> Doc {
        Doc { text: text.to_vec(), ix: JsonIndex::build(text) }
    }
}

/// Library ("full") evaluator.
pub fn run_full(json: &[u8], e: &Expr) -> Obs {
    run_full_doc(&Doc::new(json), e)
}

pub fn run_full_doc(d: &Doc, e: &Expr) -> Obs {
    let c = d.ix.root(&d.text);
    let r: QueryResult<Vec<u64>> = jq::eval::<Vec<u64>, JqSemantics>(e, c);
    let term = match &r {
        QueryResult::Error(e) => Term::Error(e.message.clone()),
        QueryResult::Break(l) => Term::Break(l.clone()),
        QueryResult::Halt(n) => Term::Halt(*n),
        QueryResult::Partial(_, c) => term_of(c),
        _ => Term::End,
    };
    Obs { outs: js(&r.collect_owned()), term }
}

/// Generic (CLI) evaluator. `LazySeq` is materialised through the public
/// `materialize_atomic` (what `stream_json` does), so an error deferred into the
/// lazy sequence is observed as the terminal; `LazyKeys` / `LazyIndexRange`
/// cannot fail and go through the public `collect_owned`.
pub fn run_generic(json: &[u8], e: &Expr) -> Obs {
    run_generic_doc(&Doc::new(json), e)
}

pub fn run_generic_doc(d: &Doc, e: &Expr) -> Obs {
    let c = d.ix.root(&d.text);
    let r = eval_generic::eval_with_cursor(e, c);
    match r {
        GenericResult::LazySeq(seq) => match seq.materialize_atomic() {
            Ok(v) => Obs { outs: vec![v.to_json()], term: Term::End },
            Err(c) => Obs { outs: vec![], term: term_of(&c) },
        },
        r => {
            let term = match &r {
                GenericResult::Error(e) => Term::Error(e.message.clone()),
                GenericResult::Break(l) => Term::Break(l.clone()),
                GenericResult::Halt(n) => Term::Halt(*n),
                GenericResult::Partial(_, c) => term_of(c),
                _ => Term::End,
            };
            Obs { outs: js(&r.collect_owned()), term }
        }
    }
}

/// Self-test of the value model (machinery error on failure).
pub fn selftest() {
    let t = r#"{"a":[1,-0,1.5e3,"x\u00e9\ud83d\ude00\n",null,true,false,{}],"b":{"":[]},"a":2}"#;
    let v = parse_json(t).unwrap();
    assert!(v.has_dup_keys());
    assert_eq!(v.dedup_keys().to_json(), r#"{"a":2,"b":{"":[]}}"#);
    let back = parse_json(&v.to_json()).unwrap();
    assert!(veq_ordered(&v, &back));
    assert!(parse_json("[1,]").is_err() && parse_json("01").is_err() && parse_json("\"\\x\"").is_err() && parse_json("1 2").is_err());
    // total order: one representative per rank, ascending
    let asc = ["null", "false", "true", "-1", "0", "1.5", "\"\"", "\"A\"", "\"a\"", "\"aa\"", "\"b\"", "\"\u{e9}\"", "[]", "[null]", "[0]", "[0,0]", "[1]", "{}", "{\"a\":0}", "{\"a\":1}", "{\"a\":0,\"b\":0}", "{\"b\":0}"];
    let vs: Vec<V> = asc.iter().map(|s| parse_json(s).unwrap()).collect();
    for i in 0..vs.len() {
        for j in 0..vs.len() {
            assert_eq!(jq_cmp(&vs[i], &vs[j]), i.cmp(&j), "order self-test {} vs {}", asc[i], asc[j]);
        }
    }
    let v = parse_json(r#"{"a":[1,{"b":2}],"":3}"#).unwrap();
    let ps = paths(&v);
    assert_eq!(ps.iter().map(|p| path_to_json(p)).collect::<Vec<_>>(), vec![r#"["a"]"#, r#"["a",0]"#, r#"["a",1]"#, r#"["a",1,"b"]"#, r#"[""]"#]);
    let w = setpath(&v, &ps[3], &V::str("N"));
    assert_eq!(w.to_json(), r#"{"a":[1,{"b":"N"}],"":3}"#);
    assert_eq!(diff(&v, &w), vec![ps[3].clone()]);
    assert_eq!(getpath(&v, &ps[3]).unwrap().to_json(), "2");
    assert_eq!(path_to_expr(&ps[3]), r#".["a"][1]["b"]"#);
}
