//! C30 program space: operand-parameterised templates, the deep-value family and
//! the explicit exclusions (programs that would legitimately allocate gigabytes or
//! whose evaluation does not terminate). Pure data; `--dump-spec` of the c30
//! binary hands the same list to py/c30cli.py.
#![allow(dead_code)]
use serde_json::{json, Value};

/// Operand spellings (jq source text) and their numeric value.
pub const OPS: [(&str, f64); 15] = [
    ("0", 0.0),
    ("-0", -0.0),
    ("1", 1.0),
    ("-1", -1.0),
    ("0.5", 0.5),
    ("1e19", 1e19),
    ("-1e19", -1e19),
    ("1e308", 1e308),
    ("infinite", f64::INFINITY),
    ("-infinite", f64::NEG_INFINITY),
    ("nan", f64::NAN),
    ("2147483648", 2147483648.0),
    ("4294967296", 4294967296.0),
    ("9007199254740993", 9007199254740993.0),
    ("1e1000", f64::MAX),
];

pub const INPUTS: [&str; 4] = ["null", "[1,2,3]", "\"abc\"", "{\"a\":1}"];

/// What an excluded template class does with its operand.
#[derive(Clone, Copy, PartialEq, Debug)]
pub enum Tag {
    Plain,
    /// string repetition by #N
    Repeat,
    /// pads an array up to index #N
    Grow,
    /// materialises range(#N)
    Range1,
    /// materialises range(0; #N; #M)
    Range3,
    /// recurse(. + 1) until >= 3, starting at #N
    RecurseInc,
}

pub const TEMPLATES: [(&str, Tag); 121] = [
    ("\"x\" * #N", Tag::Repeat),
    ("#N * \"x\"", Tag::Repeat),
    ("\"abc\" * #N", Tag::Repeat),
    ("\"\" * #N", Tag::Plain),
    ("{\"a\": \"x\"} | .a *= #N", Tag::Repeat),
    (".[#N]", Tag::Plain),
    (".[#N:#M]", Tag::Plain),
    ("\"abc\"[#N:#M]", Tag::Plain),
    ("\"abc\" | .[#N:#M]", Tag::Plain),
    ("\"a\u{e9}\u{1F600}b\" | .[#N:#M]", Tag::Plain),
    ("setpath([#N]; 1)", Tag::Grow),
    ("null | setpath([#N]; 1)", Tag::Grow),
    (".[#N] = 1", Tag::Grow),
    ("[1,2,3] | .[#N] |= 5", Tag::Grow),
    ("null | .[#N] |= 5", Tag::Grow),
    ("[limit(3; range(#N))]", Tag::Plain),
    ("[limit(3; range(#N; #M))]", Tag::Plain),
    ("[limit(3; range(#N; #M; 5))]", Tag::Plain),
    ("[limit(2; [1,2] | combinations(#N))]", Tag::Plain),
    ("[limit(3; range(9223372036854775806; 9223372036854775807; #N))]", Tag::Plain),
    ("first(range(#N))", Tag::Plain),
    ("[range(#N)] | length", Tag::Range1),
    ("[range(0; #N; #M)] | length", Tag::Range3),
    ("pow(#N; #M)", Tag::Plain),
    ("#N % #M", Tag::Plain),
    ("#N / #M", Tag::Plain),
    ("#N * #M", Tag::Plain),
    ("#N + #M", Tag::Plain),
    ("#N - #M", Tag::Plain),
    ("[#N] | implode", Tag::Plain),
    ("[#N, #M] | implode", Tag::Plain),
    ("#N | tostring | tonumber", Tag::Plain),
    ("#N | gmtime", Tag::Plain),
    ("#N | localtime", Tag::Plain),
    ("#N | todate", Tag::Plain),
    ("#N | strftime(\"%Y\")", Tag::Plain),
    ("#N | strflocaltime(\"%Y\")", Tag::Plain),
    ("#N | todateiso8601", Tag::Plain),
    ("#N | dateadd(\"seconds\"; #M)", Tag::Plain),
    ("#N | mktime", Tag::Plain),
    ("[#N,0,0,0,0,0,0,0] | mktime", Tag::Plain),
    ("[1970,#N,#M,0,0,0,0,0] | mktime", Tag::Plain),
    ("[#N,#M,1,0,0,0,0,0] | todate", Tag::Plain),
    ("\"a,b\" | splits(\",\")", Tag::Plain),
    ("indices(#N)", Tag::Plain),
    ("nth(#N)", Tag::Plain),
    ("nth(#N; 1, 2, 3)", Tag::Plain),
    ("[.[] | nth(#N; .[]?)]", Tag::Plain),
    ("getpath([#N])", Tag::Plain),
    ("getpath([#N, #M])", Tag::Plain),
    ("delpaths([[#N]])", Tag::Plain),
    ("del(.[#N])", Tag::Plain),
    ("del(.[#N:#M])", Tag::Plain),
    ("to_entries", Tag::Plain),
    ("#N | floor", Tag::Plain),
    ("#N | sqrt", Tag::Plain),
    ("#N | tojson", Tag::Plain),
    ("[#N, #M] | sort", Tag::Plain),
    ("[#N, #M] | min", Tag::Plain),
    ("[#N, #M] | unique", Tag::Plain),
    ("[#N, #M] | group_by(.)", Tag::Plain),
    ("#N == #M", Tag::Plain),
    ("#N < #M", Tag::Plain),
    ("#N | @text", Tag::Plain),
    ("#N | @base64", Tag::Plain),
    ("#N | ascii", Tag::Plain),
    ("limit(#N; 1, 2)", Tag::Plain),
    ("[.[#N:#M][]]", Tag::Plain),
    ("#N as $x | [$x, $x] | add", Tag::Plain),
    ("[#N] | .[0] |= . + #M", Tag::Plain),
    ("{\"a\": #N} | .a *= #M", Tag::Plain),
    ("#N | ltrimstr(\"a\")", Tag::Plain),
    ("#N | length", Tag::Plain),
    ("#N | -(.)", Tag::Plain),
    ("#N | abs", Tag::Plain),
    ("#N | trunc", Tag::Plain),
    ("#N | round", Tag::Plain),
    ("#N | ceil", Tag::Plain),
    ("#N | log", Tag::Plain),
    ("#N | exp", Tag::Plain),
    ("#N | exp10", Tag::Plain),
    ("#N | significand", Tag::Plain),
    ("#N | logb", Tag::Plain),
    ("#N | frexp", Tag::Plain),
    ("#N | ldexp(.; #M)", Tag::Plain),
    ("#N | tostring | length", Tag::Plain),
    ("[#N][#M]", Tag::Plain),
    ("\"abc\" | .[#N:]", Tag::Plain),
    ("\"abc\" | .[:#M]", Tag::Plain),
    ("[1,2,3] | .[#N:#M] = [\"x\"]", Tag::Plain),
    ("[1,2,3] | .[#N:#M] |= map(. + 1)", Tag::Plain),
    ("[1,2,3] | del(.[#N])", Tag::Plain),
    ("[1,2,3] | limit(#N; .[])", Tag::Plain),
    ("[1,2,3] | first(.[#N:])", Tag::Plain),
    ("[1,2,3] | to_entries | from_entries", Tag::Plain),
    ("input_line_number + #N", Tag::Plain),
    ("#N | splits(\"a\")", Tag::Plain),
    ("[#N] | flatten(#M)", Tag::Plain),
    ("[[#N]] | flatten(#N)", Tag::Plain),
    ("#N | tojson | fromjson", Tag::Plain),
    ("#N | @json", Tag::Plain),
    ("\"\\(#N)\"", Tag::Plain),
    ("[#N] | join(\",\")", Tag::Plain),
    ("[#N | tostring] | join(\",\") | split(\",\")", Tag::Plain),
    ("#N | . as [$a] | $a", Tag::Plain),
    ("#N | has(0)", Tag::Plain),
    ("[1] | has(#N)", Tag::Plain),
    ("{\"a\":1} | has(#N)", Tag::Plain),
    ("[1,2] | index(#N)", Tag::Plain),
    ("\"aXbX\" | indices(\"X\") | .[#N]", Tag::Plain),
    ("[range(5)] | .[#N:#M] | length", Tag::Plain),
    ("#N | until(true; . + 1)", Tag::Plain),
    ("[#N | recurse(if . < 3 then . + 1 else empty end)] | length", Tag::RecurseInc),
    ("#N | [.,1] | @csv", Tag::Plain),
    ("[#N] | @tsv", Tag::Plain),
    ("#N | @sh", Tag::Plain),
    ("#N | @html", Tag::Plain),
    ("#N | @uri", Tag::Plain),
    ("#N | test(\"a\")", Tag::Plain),
    ("#N | explode", Tag::Plain),
    ("#N | range(.) | select(. > 2) | halt_error", Tag::Plain),
];

/// Number of elements jq's `range(0; upto; by)` yields (f64 model; by = 0 / nan yields none in jq >= 1.6's definition
/// but loops forever in older ones, so those are treated as unbounded when upto > 0).
fn range3_count(upto: f64, by: f64) -> f64 {
    if upto.is_nan() {
        return 0.0;
    }
    if by.is_nan() || by == 0.0 {
        return if upto > 0.0 { f64::INFINITY } else { 0.0 };
    }
    if by > 0.0 {
        if upto > 0.0 {
            (upto / by).ceil()
        } else {
            0.0
        }
    } else if upto < 0.0 {
        (upto / by).ceil()
    } else {
        0.0
    }
}

/// Why (template, N, M) is kept out of the space, if it is.
pub fn excluded(tag: Tag, n: f64, m: f64) -> Option<&'static str> {
    let gig = |x: f64| x.is_finite() && x >= 134217728.0 && x < 7.0e13; // 2^27 .. 2^46: allocatable in principle, gigabytes in practice
    match tag {
        Tag::Plain => None,
        Tag::Repeat if gig(n) => Some("string repetition that legitimately allocates gigabytes"),
        Tag::Grow if gig(n) => Some("array padding that legitimately allocates gigabytes"),
        Tag::Range1 if n > 100000.0 => Some("materialises a range of more than 10^5 elements (unbounded time / memory)"),
        Tag::Range3 if range3_count(n, m) > 100000.0 => Some("materialises a stepped range of more than 10^5 elements, or a zero/nan step (does not terminate in every jq)"),
        Tag::RecurseInc if n < 3.0 && n + 1.0 == n => Some("recurse(. + 1) from a value that absorbs + 1 never reaches the bound: does not terminate"),
        _ => None,
    }
}

pub struct TemplCase {
    pub program: String,
    pub template: usize,
    pub n: usize,
    pub m: usize,
}

/// Every (template, N, M) instance that is in the space, and per-reason exclusion counts.
pub fn template_cases() -> (Vec<TemplCase>, Vec<(String, usize)>) {
    let mut out = Vec::new();
    let mut excl: Vec<(String, usize)> = Vec::new();
    for (ti, (t, tag)) in TEMPLATES.iter().enumerate() {
        let has_n = t.contains("#N");
        let has_m = t.contains("#M");
        let ns: Vec<usize> = if has_n { (0..OPS.len()).collect() } else { vec![0] };
        let ms: Vec<usize> = if has_m { (0..OPS.len()).collect() } else { vec![0] };
        for &n in &ns {
            for &m in &ms {
                if let Some(why) = excluded(*tag, OPS[n].1, OPS[m].1) {
                    match excl.iter_mut().find(|e| e.0 == why) {
                        Some(e) => e.1 += 1,
                        None => excl.push((why.to_string(), 1)),
                    }
                    continue;
                }
                out.push(TemplCase { program: t.replace("#N", OPS[n].0).replace("#M", OPS[m].0), template: ti, n, m });
            }
        }
    }
    (out, excl)
}

pub const DEEP_K: [usize; 8] = [255, 256, 257, 383, 384, 385, 1000, 5000];
pub const DEEP_K_QUICK: [usize; 4] = [255, 256, 384, 385];

/// Programs that build a value nested K deep without any deep input document and then consume it.
/// (Consumers that are merely slow on deep values — `path(..)`, `[paths]`, `tostream` take seconds at
/// depth 255 — are left to the thorough tier or out: the property is about crashes.)
pub fn deep_value_programs(quick: bool) -> Vec<(String, String)> {
    let tails_q = [".", "tojson | length", "[..] | length", ". == .", "flatten | length", "walk(.) | tojson | length"];
    let tails_t = [
        ".", "tojson | length", "[..] | length", ". == .", "flatten | length", "walk(.) | tojson | length", "tostring | length", "@json | length", "@text | length", "tojson | fromjson | tojson | length",
        "getpath([range(0; 10) | 0])", "del(.. | select(. == 0)) | tojson | length", "[.] | sort | length", ". as $v | {a: $v} | .a == $v", "length", "add", "first", "to_entries | length", "map(.) | length",
        "[limit(5; ..)] | length", "[paths] | length", "[leaf_paths] | length",
    ];
    let ks: &[usize] = if quick { &DEEP_K_QUICK } else { &DEEP_K };
    let tails: &[&str] = if quick { &tails_q } else { &tails_t };
    let mut out = string_programs(quick);
    for &k in ks {
        let builders = [format!("reduce range(0; {k}) as $i (0; [.])"), format!("reduce range(0; {k}) as $i (0; {{a: .}})"), format!("last(limit({k}; 0 | recurse([.])))"), format!("[limit({k}; repeat(0))] | reduce .[] as $i (null; [.])")];
        for (bi, b) in builders.iter().enumerate() {
            if quick && bi == 3 {
                continue;
            }
            for t in tails {
                out.push((format!("deep{bi}/{k}"), format!("{b} | {t}")));
            }
        }
    }
    out
}

/// String builtins over strings with multi-byte characters: every (subject, argument) pair of a small
/// alphabet that mixes ASCII, 2-, 3- and 4-byte characters, the empty string and repeated characters.
/// Byte-offset arithmetic on `str` (resuming a search one *byte* later, slicing at a computed byte
/// position) only goes wrong when a character boundary is crossed, which no ASCII-only template shows.
/// Label `str<k>/0` (the `/0` keeps the `<family>/<depth>` label shape of the deep-value programs).
pub fn string_programs(quick: bool) -> Vec<(String, String)> {
    let strs_q = ["", "a", "\u{e9}", "a\u{e9}b", "\u{e9}\u{e9}", "\u{1F600}", "a\u{1F600}", "\u{20ac}x\u{20ac}"];
    let strs_t = ["", "a", "ab", "aa", "\u{e9}", "a\u{e9}", "\u{e9}a", "a\u{e9}b", "\u{e9}\u{e9}", "\u{e9}a\u{e9}", "\u{1F600}", "a\u{1F600}", "\u{1F600}\u{1F600}", "\u{20ac}x\u{20ac}", "\u{0}\u{e9}", " \u{e9} "];
    let strs: &[&str] = if quick { &strs_q } else { &strs_t };
    // #S = subject literal, #A = argument literal
    let binary = [
        "#S | indices(#A)", "#S | index(#A)", "#S | rindex(#A)", "#S | split(#A)", "#S / #A", "#S | ltrimstr(#A)", "#S | rtrimstr(#A)", "#S | startswith(#A)", "#S | endswith(#A)",
        "#S | contains(#A)", "#S | inside(#A)", "#S | join(#A)?", "[#S, #A] | join(#S)", "#S | test(#A)?", "#S | [match(#A; \"g\")]? | length", "#S | sub(#A; #S)?", "#S | gsub(#A; \"x\")?",
        "#S | splits(#A)?", "#S | ascii_downcase | indices(#A)", "#S + #A | indices(#A)", "[#S] | index([#A])", "#S | ltrimstr(#A) | rtrimstr(#A) | length",
    ];
    let unary = [
        "#S | explode | implode", "#S | [.[0:1], .[1:], .[:-1], .[-1:]]", "#S | .[1:2]", "#S | ascii_downcase", "#S | ascii_upcase", "#S | ltrim, rtrim, trim", "#S | utf8bytelength", "#S | length",
        "#S | @base64 | @base64d", "#S | @uri", "#S | @html", "#S | @sh", "#S | @json | fromjson", "#S | tojson | fromjson", "#S | ascii?", "#S | [limit(5; splits(\"\"))]?", "#S | test(\"\")?", "#S | indices(\"\")",
        "#S | . * 3 | length", "#S | [., .] | sort | unique", "#S | tostring | tonumber?", "{(#S): 1} | keys", "{(#S): 1} | to_entries | from_entries", "#S | @text \"<\\(.)>\"?", "#S | [scan(\".\")]? | length",
    ];
    let lit = |t: &str| serde_json::to_string(t).unwrap();
    let mut out = Vec::new();
    for (k, t) in binary.iter().enumerate() {
        for a in strs {
            for b in strs {
                out.push((format!("str{k}/0"), t.replace("#S", &lit(a)).replace("#A", &lit(b))));
            }
        }
    }
    for (k, t) in unary.iter().enumerate() {
        for a in strs {
            out.push((format!("stru{k}/0"), t.replace("#S", &lit(a))));
        }
    }
    // generators that yield some values and THEN raise (the evaluator's "partial" results), cut down by the stream
    // filters until possibly no value is left before the error, in every kind of consumer position: an argument that
    // must be a single value, a condition, a path, a key, a binding ...
    let gens = ["(\"a\", error(\"x\"))", "(1, 2, error(\"x\"))", "(\"1\", \"x\" | tonumber)", "(0, (null | error))", "(\"a\", (label $o | break $o), error(\"y\"))"];
    let filts = ["#G", "skip(1; #G)", "skip(2; #G)", "skip(5; #G)", "limit(1; #G)", "limit(0; #G)", "first(#G)", "nth(1; #G)", "last(#G)", "isempty(#G)", "[#G][1:][]", "(#G | select(. == \"zz\"))"];
    let cons = [
        "#F", "[#F]", "has(#F)", "ltrimstr(#F)", "limit(#F; 1, 2)", "flatten(#F)", "first(#F)", "try (#F) catch \"caught\"", ".[#F]?", "getpath([#F])", "[range(#F)]", "index(#F)", "join(#F)?", "test(#F)?",
        "#F as $x | $x", "reduce (#F) as $x (0; . + 1)", "path(#F)?", "{a: (#F)}", "{(#F): 1}?", "(#F) // 1", "if (#F) then 1 else 2 end", "[.[]? | #F]", "(#F) + 1", "[#F, 3]", "splits(#F)?", "setpath([#F]; 1)?",
        "del(.[#F])?", "to_entries | map(#F)?", "@base64 \"\\(#F)\"", "[limit(3; repeat(#F))]", "any(#F; .)", "all(#F; .)", "IN(#F)", "(#F) as [$a] | $a", "input_line_number | #F",
    ];
    for (gi, g) in gens.iter().enumerate() {
        for (fi, f) in filts.iter().enumerate() {
            let ff = f.replace("#G", g);
            for c in cons.iter() {
                out.push((format!("part{}x{}/0", gi, fi), c.replace("#F", &ff)));
            }
        }
    }
    // `fromjson` / `tonumber` parse JSON *text held in a string* with a hand-written parser of their own: every
    // string of <= 3 (quick) / 4 (thorough) tokens over an alphabet of JSON text fragments — in particular escapes
    // cut off at every point (`\\u`, `\\ud83d`, `\\ude0`, a lone backslash) right at the end of the text.
    let jt = ["\"", "\\", "\\u", "d83d", "\\ud83d", "\\ude00", "\\ude0", "\\u00e", "a", "1", "-", ".", "e", "[", "]", "{", "}", ":", ",", "tru", "null", " "];
    let maxlen = if quick { 3 } else { 4 };
    let mut idx = vec![0usize; 0];
    let n = crate::c19space::nstrings(jt.len() as u64, maxlen);
    for i in 0..n {
        crate::c19space::nth_symbols(jt.len() as u64, i, &mut idx);
        let text: String = idx.iter().map(|&k| jt[k]).collect();
        out.push(("strj0/0".to_string(), format!("{} | fromjson", lit(&text))));
        if idx.len() <= 3 {
            out.push(("strj1/0".to_string(), format!("{} | tonumber", lit(&text))));
            out.push(("strj2/0".to_string(), format!("[{}] | .[0] | fromjson?", lit(&text))));
        }
    }
    out
}

pub fn dump_spec(quick: bool) -> Value {
    let (cases, excl) = template_cases();
    json!({
        "inputs": INPUTS,
        "operands": OPS.iter().map(|o| o.0).collect::<Vec<_>>(),
        "templates": TEMPLATES.iter().map(|t| t.0).collect::<Vec<_>>(),
        "template_cases": cases.iter().map(|c| json!([c.program, c.template, OPS[c.n].0, OPS[c.m].0])).collect::<Vec<_>>(),
        "excluded": excl.iter().map(|e| json!({"reason": e.0, "count": e.1})).collect::<Vec<_>>(),
        "deep_value": deep_value_programs(quick).iter().map(|p| json!([p.0, p.1])).collect::<Vec<_>>(),
    })
}
