#!/usr/bin/env python3
"""Print a markdown table of all known findings (known_findings.json + known.d/*.json)."""
import json, glob, os
ROOT = os.path.dirname(os.path.dirname(os.path.abspath(__file__)))
rows = list(json.load(open(os.path.join(ROOT, "known_findings.json")))["findings"])
for f in sorted(glob.glob(os.path.join(ROOT, "known.d", "*.json"))):
    rows += json.load(open(f))["findings"]
rows.sort(key=lambda r: (r["property"], r["status"], r["signature"]))
print("| property | status | signature | what fails |")
print("|---|---|---|---|")
for r in rows:
    what = r["what"].replace("|", "\\|").replace("\n", " ")
    st = r["status"] + (" " + r["commit"] if r.get("commit") else "")
    print(f"| {r['property']} | {st} | `{r['signature']}` | {what[:400]} |")
print()
print(f"{len(rows)} entries: {sum(r['status']=='open' for r in rows)} open, {sum(r['status']=='fixed' for r in rows)} fixed")
