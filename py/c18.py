"""C18 (CLI side) — `yq --validate` accepts the well-formed documents of the C14 space.

The library side (all documents, token strings, mutations) runs in the Rust binary `c18`. This
module takes an evenly spread slice of the same generated documents (the binary's `--dump-only`
mode, selected by document hash), feeds each to `succinctly yq --validate -o json .` through the
`__verif-batch` hook and requires that none is answered with a validation error (exit 3 /
"validation error" on stderr). A slice is re-run as real processes; candidates are confirmed.
"""
import json, os
import batch, common

SLICE = {"quick": 600, "thorough": 400}


def job(doc):
    return (["yq", "--validate", "-o", "json", "."], doc)


def rejected(r):
    return r[0] == "3" or b"validation error" in r[2]


def dedent_to_compact_level(doc, line_no):
    """Python twin of the Rust classifier: the rejected line returns to the column of a compact collection
    entry opened on the nearest earlier less-indented line (only deeper lines in between)."""
    import re
    lines = re.split(rb"\r\n|\r|\n", doc)
    if line_no - 1 >= len(lines):
        return False
    d = len(lines[line_no - 1]) - len(lines[line_no - 1].lstrip(b" "))
    for ln in reversed(lines[:line_no - 1]):
        body = ln.lstrip(b" ")
        ind = len(ln) - len(body)
        if not body or body.startswith(b"#"):
            continue
        if ind == d:
            return False
        if ind < d:
            col = ind
            while ln[col:col + 2] == b"- ":
                col += 1
                while ln[col:col + 1] == b" ":
                    col += 1
                if col == d:
                    return True
            return False
    return False


def signature(r, doc=b""):
    import re
    err0 = r[2].decode("utf8", "replace")
    m = re.search(r"<stdin>:(\d+):(\d+)", err0)
    if "inconsistent indentation" in err0 and m and dedent_to_compact_level(doc, int(m.group(1))):
        return "cli:yq--validate:false-reject:BadIndentation:dedent-to-compact-collection-level"
    err = r[2].decode("utf8", "replace")
    first = err.split("\n")[0]
    kind = first.split("validation error:")[-1].strip().split("(")[0].strip().replace(" ", "-")[:40] if "validation error" in first else "exit-" + r[0]
    return "cli:yq--validate:false-reject:" + kind


def run(ctx):
    tier = ctx["tier"]
    rep = batch.Report()
    if ctx["replay"]:
        case = json.load(open(ctx["replay"]))["case"]
        doc = bytes.fromhex(case["stdin_hex"])
        rep.space("replay"); rep.input(); rep.trans(2)
        r1 = batch.spawn(*job(doc)); r2 = batch.spawn(*job(doc))
        if r1 != r2:
            raise common.Machinery("replay not deterministic")
        if rejected(r1):
            rep.fail(signature(r1, doc), 0, batch.job_example(job(doc), r1))
        elif batch.crashed(r1[0]):
            rep.fail("cli:yq--validate:crash", 0, batch.job_example(job(doc), r1))
        return rep.to_json()
    path = common.build_bin("c18")
    d = os.path.join(common.CACHE, "cases")
    os.makedirs(d, exist_ok=True)
    dump = os.path.join(d, f"c18-{tier}-{os.getpid()}.txt")
    try:
        common.run_bin(path, tier, extra_args=["--dump-cases", dump, "--dump-mod", str(SLICE[tier]), "--dump-only"], timeout=900)
        with open(dump) as f:
            docs = [bytes.fromhex(l) for l in f.read().split("\n") if l]
    finally:
        try:
            os.remove(dump)
        except OSError:
            pass
    docs = sorted(set(docs))
    jobs = [job(x) for x in docs]
    res = batch.runbatch(jobs, tag="c18")
    rep.traces_validated = batch.selftest(jobs, res, n=80)
    rep.extra["batch_jobs_confirmed_by_real_spawns"] = rep.traces_validated
    rep.space("cli/yq--validate", True, f"every generated document whose hash is 0 mod {SLICE[tier]} (an evenly spread slice of the C14 space) through the real yq runner with --validate")
    for j, r in zip(jobs, res):
        rep.input(); rep.trans(1); rep.seen(j[1])
        if rejected(r) or batch.crashed(r[0]):
            same, real = batch.confirm(j, r)
            if rejected(real):
                rep.fail(signature(real, j[1]), len(j[1]), batch.job_example(j, real))
            elif batch.crashed(real[0]):
                rep.fail("cli:yq--validate:crash", len(j[1]), batch.job_example(j, real))
    if docs:
        rep.sample({"argv": jobs[0][0], "stdin": docs[len(docs) // 2].decode("utf8", "replace"), "verdict": "must not be answered with a validation error"})
    return rep.to_json()
