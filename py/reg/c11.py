SPEC = dict(
    kind="py", module="c11", design_ref="§3-C11",
    technique="bounded-exhaustive enumeration of (document, option combination) pairs through the real CLI code path (batch hook), "
              "read back with an independent conforming JSON parser (S2 x configurations)",
    rule="documents: every scalar spelling of the number/string alphabets alone / in an array / in an object; objects over every ordered "
         "pair (and triples of a 6-key sub-alphabet) of the 17-key alphabet incl. duplicates and escaped duplicates; every tree with "
         "<= 3 (quick) / 4 (thorough) nodes over {1,\"a\"} leaves with keys up to renaming; whitespace family; nesting families "
         "{1..129} and {200,254..258,300,385,1000} x {array,object,mixed} x leaves. Every document x all 704 combinations of "
         "{default,-c,--tab,--indent 0..7} x {-S} x {-a} x {-,-r,-j,--raw-output0} x {--seq} x {plain, --arg zz 1} (the very deep "
         "documents x a 256-combination subset, the two deepest accepted ones x all 704). A case is distinct+non-trivial when its (document, stdout) pair is new",
    level_text="Every enumerated (document, option combination) is run through the same clap parser and run_jq as the executable; stdout is "
               "read with Python's json (NaN/Infinity rejected, duplicate keys and key order observed) and must equal the generator's value "
               "under jq's duplicate rule (first position, last value, numbers as doubles), keep the expected key order (sorted by code point "
               "with -S), be pure ASCII with -a, and honour the chosen indentation unit. Exhaustive over the stated alphabets.",
    level_note="Bounded to the stated document alphabets and <= 4-node trees; nesting is taken to both sides of the limit the CLI itself "
               "reports (read from its error message at run time): below it the value must read back, at/above it a non-zero exit whose "
               "message names the limit is accepted. The layout observation (indent unit / compactness) is stronger than the statement and has "
               "its own signature prefix `layout`. Batch results are tied to the executable by a 100-job spawn self-test and by re-judging "
               "every reported signature's example with real processes.",
    assumptions=["Python's json module is a conforming JSON reader; float() is correctly rounded",
                 "raw output (-r/-j/--raw-output0) of a *string* root is outside the statement; it is only required to be the string itself",
                 "documents larger than ~130-byte strings / 4 nodes / the listed nesting depths are out of scope"],
)
