SPEC = dict(
    kind="rust",
    bins=rust("c09"),
    design_ref="§3-C09",
    technique="bounded-exhaustive enumeration: every Unicode scalar value x 4 writers; chunk-alignment sweep of strings with two special characters; "
              "exhaustive (length, position, byte value, start) sweep of the escape scanner on the dispatching entry, both forced x86 tiers and the scalar fallback",
    rule="writers: all 1 112 064 scalar values alone and as a<c>a; strings of 15..70 characters over fillers {a, é, €, 😀} with a first special at every position and a second at "
         "p+{1,2,15,16,17,31,32,33} (14 specials x 6 quick / 14 thorough). scanner: every buffer length 0..=66 (quick) / 100 (thorough) x every position x every byte value x every "
         "start 0..=len+1, 12 class representatives x 4 fillers, two specials at all position pairs. A case is distinct+non-trivial by (escaped code point), "
         "(filler, length, positions, specials) or (length, byte value).",
    level_text="For every enumerated string the real writers' output is decoded by an own strict RFC 8259 string-body decoder: it must decode to the input, and each character "
               "must be written as an escape exactly when the convention requires it (jq: C0, DEL, quote, backslash; yq: C0, quote, backslash; ASCII modes additionally every "
               "non-ASCII character, and pure-ASCII output). For every (buffer, start) of the scanner space all four scanner entry points must return the first index >= start "
               "holding quote, backslash or a byte < 0x20, else len.",
    level_note="The statement's sets are checked, not a particular spelling of an escape (\\b vs \\u0008 is not judged). Scanner buffers up to 100 bytes cover every combination of "
               "32-byte AVX2 loop iterations (0..3), the 16-byte SSE2 tail and the scalar remainder for every start offset.",
    assumptions=["strings with more than two special characters, or longer than 70 characters / 100 bytes, are out of scope",
                 "only the x86-64 tiers present on this host (SSE2 always, AVX2 if detected) and the scalar fallback run; NEON is out of reach"],
)
