"""C27 — query output does not depend on the evaluation route (streamed vs materialised).

Routes: the default (cursor-streamed where the program is streamable) versus the materialised
(DOM) route. yq: forced by `--arg zz 1` (only makes `context.named` non-empty, which turns every
fast path off). jq: `--arg` does not change the route (it is substituted into the program), so the
forcer is `-a`, which disables the lazy cursor path and is neutral whenever the output is pure
ASCII (jq cases whose streamed output is not pure ASCII are skipped and counted).
Space (exhaustive): YAML corpus (every presentation of single leaves, two-leaf trees in several
presentations, special keys, hand-built anchor / merge / block-scalar / multi-document / tag /
comment documents; duplicate-key documents as a separate sub-space) and JSON documents
(scalars, key pairs, small trees, whitespace, multi-value streams) x 19 navigation programs x
formats (yq: `-o json -I0`, `-o json`, YAML default, `-S`, `--tab`, `-I 4`; jq: `-c`, pretty,
`-S`, `--tab`, `-r`) x {streamed, materialised}.

Oracle: byte-identical stdout and equal exit status. A difference is classified
  json / jq output     -> `json-value:*` (values differ) or `json-text-only:*` (same values)
  YAML output          -> both outputs are reloaded (`yq -o json -I0 .`) and compared with the
                          `-o json` answer of the same run:
        same values    -> `yaml-style-only:<feature>`, one signature per *kind of spelling
                          difference* found by a token-level diff of the two texts (key quoting,
                          string quoting, null/bool spelling, int radix, block scalar, alias kept
                          vs expanded, ...); a hunk no rule explains -> `yaml-style-only:unexplained`
        values differ / one does not reload -> `yaml-value:*` naming the wrong route and the
                          value classes
  document separators  -> `yaml-doc-separator:*`
"""
import difflib, json, re
import batch, common, cligen, c11
from cligen import Part, jlines, BadJson, jeq, jdiff, vclass, Need

PROGS = ['.', '.a', '.k', '.k.j', '.[0]', '.[-1]', '.[]', '.k[]', '.[1:]', '.[:1]', '.a?', '.[]?', 'first(.[])', 'last(.[])',
         'select(.k)', 'keys_unsorted', '.["k"]', '.k[0]', '.[0].k']
YQ_FMT = [("json-I0", ['-o', 'json', '-I0']), ("json", ['-o', 'json']), ("yaml", []), ("yaml-S", ['-S']), ("yaml-tab", ['--tab']),
          ("yaml-I4", ['-I', '4'])]
JQ_FMT = [("-c", ['-c']), ("pretty", []), ("-S", ['-S']), ("--tab", ['--tab']), ("-r", ['-r'])]
ROUTE = ['--arg', 'zz', '1']
RELOAD = ['yq', '-o', 'json', '-I0', '.']

# ------------------------------------------------------------- YAML text diff --

NULLS = {"null", "Null", "NULL", "~", ""}
BOOLS = {"true", "True", "TRUE", "false", "False", "FALSE"}
RX_RADIX = re.compile(r"[-+]?0[xo][0-9a-fA-F]+")
RX_NUM = re.compile(r"[-+]?(\.[0-9]+|[0-9][0-9_]*(\.[0-9]*)?)([eE][-+]?[0-9]+)?|[-+]?\.(inf|Inf|INF)|\.(nan|NaN|NAN)")


def scan_split(s, stops):
    """index of the first char of `stops` (with its follow-up rule) outside quotes and flow brackets, or -1"""
    q = None; depth = 0; i = 0
    while i < len(s):
        c = s[i]
        if q:
            if q == '"' and c == "\\":
                i += 1
            elif c == q:
                if q == "'" and i + 1 < len(s) and s[i + 1] == "'":
                    i += 1
                else:
                    q = None
        elif c in "\"'" and (i == 0 or s[i - 1] in " ,[{:-"):
            q = c
        elif c in "[{":
            depth += 1
        elif c in "]}":
            depth -= 1
        elif depth == 0:
            if stops == ":" and c == ":" and (i + 1 == len(s) or s[i + 1] == " "):
                return i
            if stops == "#" and c == "#" and i > 0 and s[i - 1] == " ":
                return i
        i += 1
    return -1


def parse_line(line):
    """-> (indent, dashes, key or None, value, comment)"""
    body = line.lstrip(" \t")
    ind = line[:len(line) - len(body)]
    dashes = 0
    while body.startswith("- ") or body == "-":
        dashes += 1
        body = body[2:].lstrip(" ") if len(body) > 1 else ""
    ci = scan_split(body, "#")
    comment = ""
    if body.startswith("#"):
        comment = body; body = ""
    elif ci >= 0:
        comment = body[ci:]; body = body[:ci].rstrip(" ")
    ki = scan_split(body, ":")
    if body.startswith("? "):
        return ind, dashes, body[2:], None, comment, True
    if ki >= 0 and not body.startswith(("{", "[")):
        return ind, dashes, body[:ki], body[ki + 1:].strip(" "), comment, False
    return ind, dashes, None, body, comment, False


def strip_props(t):
    """remove leading &anchor / !tag properties -> (token, set of props removed)"""
    props = set()
    while True:
        m = re.match(r"(&[^\s,\]}]+|![^\s]*)(\s+|$)", t)
        if not m:
            return t, props
        props.add("anchor" if m.group(1)[0] == "&" else "tag")
        t = t[m.end():]


def flow_tokens(t):
    toks = []; cur = ""; q = None; i = 0
    while i < len(t):
        c = t[i]
        if q:
            cur += c
            if q == '"' and c == "\\" and i + 1 < len(t):
                i += 1; cur += t[i]
            elif c == q:
                q = None
        elif c in "\"'" and cur.strip() == "":
            q = c; cur += c
        elif c in "[]{},":
            if cur.strip():
                toks.append(cur.strip())
            toks.append(c); cur = ""
        elif c == ":" and (i + 1 == len(t) or t[i + 1] in " ,]}"):
            toks.append(cur.strip() + "\x00key"); cur = ""
        else:
            cur += c
        i += 1
    if cur.strip():
        toks.append(cur.strip())
    return toks


def canon_tok(t):
    k = t.endswith("\x00key")
    if k:
        t = t[:-4]
    if len(t) >= 2 and t[0] == t[-1] and t[0] in "\"'":
        t = t[1:-1]
    return t + ("\x00key" if k else "")


def scalar_pair(s, d, where):
    """features explaining why scalar token s (streamed) differs from d (materialised); where = 'key' | 'value'"""
    if s == d:
        return set()
    f = set()
    s2, ps = strip_props(s)
    d2, pd = strip_props(d)
    for p in ps - pd:
        f.add(p + "-dropped")
    for p in pd - ps:
        f.add(p + "-added")
    if s2 == d2:
        return f
    s, d = s2, d2
    if s.startswith("*"):
        return f | {"alias-kept-vs-expanded"}
    fs, fd = s[:1] or "\x00", d[:1] or "\x00"
    if fs in "[{" and fd in "[{":
        if re.search(r"<<[\"']?\s*:", s) and not re.search(r"<<[\"']?\s*:", d):
            return f | {"merge-kept-vs-expanded"}
        ts, td = flow_tokens(s), flow_tokens(d)
        cs, cd = [canon_tok(x) for x in ts if x.endswith("\x00key")], [canon_tok(x) for x in td if x.endswith("\x00key")]
        if cs != cd and sorted(cs) == sorted(cd):
            return f | {"key-order"}
        if len(ts) != len(td):
            return f | {"alias-kept-vs-expanded"} if "*" in s else f | {"unexplained:flow-structure"}
        for a, b in zip(ts, td):
            ka, kb = a.endswith("\x00key"), b.endswith("\x00key")
            if ka != kb:
                return f | {"unexplained:flow-structure"}
            f |= scalar_pair(a[:-4] if ka else a, b[:-4] if kb else b, "key" if ka else "value")
        return f
    if fs in "|>" or fd in "|>":
        return f | {"block-scalar-vs-quoted"}
    qs, qd = fs in "\"'", fd in "\"'"
    pre = "key-" if where == "key" else ""
    if qs or qd:
        return f | {pre + "string-quoting"}
    if s in NULLS and d == "null":
        return f | {pre + "null-spelling"}
    if s in BOOLS and d in ("true", "false") and s.lower() == d:
        return f | {pre + "bool-spelling"}
    if RX_RADIX.fullmatch(s) and re.fullmatch(r"-?[0-9]+", d):
        return f | {pre + "int-radix"}
    if RX_NUM.fullmatch(s) and RX_NUM.fullmatch(d):
        return f | {pre + "number-spelling"}
    return f | {"unexplained:" + where + "-token"}


RX_BLOCK_HDR = re.compile(r"(?:^|.*[ :-])(?:[&!][^\s]*\s+)*[|>][-+0-9]*\s*(#.*)?$")


def logical_lines(text):
    """lines with block-scalar bodies and multi-line flow / quoted nodes folded into the line that starts them"""
    out = []; lines = text.split("\n"); i = 0
    while i < len(lines):
        l = lines[i]
        body = l.lstrip(" \t"); ind = len(l) - len(body)
        if RX_BLOCK_HDR.match(l) and not body.startswith("#"):
            j = i + 1
            root = body.startswith(("|", ">", "--- "))
            while j < len(lines) and (lines[j].strip() == "" or (len(lines[j]) - len(lines[j].lstrip(" \t")) > ind) or (root and not lines[j].startswith(("---", "...")))):
                j += 1
            while j > i + 1 and lines[j - 1].strip() == "" and j == len(lines):
                j -= 1
            out.append("\n".join(lines[i:j])); i = j; continue
        if scan_open(l):
            j = i + 1; acc = l
            while j < len(lines) and scan_open(acc):
                acc += "\n" + lines[j]; j += 1
            out.append(acc); i = j; continue
        out.append(l); i += 1
    return out


def scan_open(s):
    """does s end inside a quoted scalar or an unclosed flow collection?"""
    q = None; depth = 0; i = 0
    while i < len(s):
        c = s[i]
        if q:
            if q == '"' and c == "\\":
                i += 1
            elif c == q:
                if q == "'" and i + 1 < len(s) and s[i + 1] == "'":
                    i += 1
                else:
                    q = None
        elif c in "\"'" and (i == 0 or s[i - 1] in " ,[{:-\n"):
            q = c
        elif c == "#" and (i == 0 or s[i - 1] == " ") and depth == 0:
            while i < len(s) and s[i] != "\n":
                i += 1
        elif c in "[{" and (depth > 0 or i == 0 or s[i - 1] in " ,[{:-\n"):
            depth += 1
        elif c in "]}" and depth > 0:
            depth -= 1
        i += 1
    return q is not None or depth > 0


def dup_keys_in_text(text):
    seen = set()
    for l in logical_lines(text):
        ind, dashes, k, v, c, e = parse_line(l.split("\n")[0])
        if k is not None:
            if (ind, k) in seen and dashes == 0:
                return True
            if dashes:
                seen = {x for x in seen if len(x[0]) < len(ind)}
            seen.add((ind + "  " * dashes, k))
        for t in (v or "",):
            if t[:1] == "{":
                ks = [canon_tok(x) for x in flow_tokens(t) if x.endswith("\x00key")]
                if len(ks) != len(set(ks)):
                    return True
    return False


def style_features(S, D):
    """token-level explanation of the textual difference between two YAML outputs with equal values"""
    ls, ld = logical_lines(S), logical_lines(D)
    for l in (ls, ld):
        if l and l[-1] == "":
            l.pop()     # the element after the final newline would otherwise pair with a genuine empty line
    feats = set()
    sm = difflib.SequenceMatcher(None, ls, ld, autojunk=False)
    for op, i1, i2, j1, j2 in sm.get_opcodes():
        if op == "equal":
            continue
        a = [x for x in ls[i1:i2]]; b = [x for x in ld[j1:j2]]
        if len(a) == len(b) and all((x.strip() == "---") == (y.strip() == "---") for x, y in zip(a, b)):
            a = [x if x.strip() else "\x00empty" for x in a]; b = [y if y.strip() else "\x00empty" for y in b]
        a2 = [x for x in a if x.strip() != "---" and x.strip() != ""]; b2 = [x for x in b if x.strip() != "---" and x.strip() != ""]
        if len(a2) != len(a) or len(b2) != len(b):
            if [x for x in a if x.strip() == "---"] != [x for x in b if x.strip() == "---"]:
                feats.add("doc-separator")
            if [x for x in a if x.strip() == ""] != [x for x in b if x.strip() == ""]:
                feats.add("blank-line")
            a, b = a2, b2
        if a == b:
            continue
        if len(a) == len(b):
            for x, y in zip(a, b):
                if x == y:
                    continue
                if "\n" in x or "\n" in y:
                    hx, hy = x.split("\n")[0], y.split("\n")[0]
                    if RX_BLOCK_HDR.match(hx) or RX_BLOCK_HDR.match(hy):
                        feats.add("block-scalar-vs-quoted" if not (RX_BLOCK_HDR.match(hx) and RX_BLOCK_HDR.match(hy)) else "block-scalar-reflowed")
                    else:
                        feats.add("multi-line-flow-node")
                    x, y = hx, hy
                    if RX_BLOCK_HDR.match(hx) and RX_BLOCK_HDR.match(hy) and hx == hy:
                        continue
                x = "" if x == "\x00empty" else x; y = "" if y == "\x00empty" else y
                pi, pdash, pk, pv, pc, pe = parse_line(x)
                qi, qdash, qk, qv, qc, qe = parse_line(y)
                if pi != qi or pdash != qdash:
                    feats.add("indentation")
                if pc != qc:
                    feats.add("comment")
                if pe != qe:
                    feats.add("explicit-key")
                if (pk is None) != (qk is None):
                    feats.add("unexplained:line-shape"); continue
                if pk is not None:
                    feats |= scalar_pair(pk, qk, "key")
                if (pv is None) != (qv is None):
                    feats.add("explicit-key"); continue
                if pv is not None:
                    feats |= scalar_pair(pv, qv, "value")
            continue
        # different number of lines: name the construct of the streamed side that spans lines differently
        ja = "\n".join(a); jb = "\n".join(b)
        hit = False
        if re.search(r"(^|[ :-])[|>][-+0-9]*\s*($|\n)", ja) or re.search(r"(^|[ :-])[|>][-+0-9]*\s*($|\n)", jb):
            feats.add("block-scalar-vs-quoted"); hit = True
        if "!!merge" in ja or re.search(r"(^|[\s{,])[\"']?<<[\"']?\s*:", ja):
            feats.add("merge-kept-vs-expanded"); hit = True
        if re.search(r"(^|[\s\[,:-])\*[^\s,\]}]+", ja):
            feats.add("alias-kept-vs-expanded"); hit = True
        if any(l.lstrip().startswith("? ") for l in a) or any(l.lstrip().startswith(": ") for l in a):
            feats.add("explicit-key"); hit = True
        if any(l.lstrip().startswith("#") for l in a + b):
            feats.add("comment"); hit = True
        if not hit and (ja.count('"') % 2 == 1 or ja.count("'") % 2 == 1 or re.search(r"[\[{][^\]}]*$", a[0] if a else "")):
            feats.add("multi-line-flow-node"); hit = True
        if not hit:
            feats.add("unexplained:line-count")
    return feats


# ------------------------------------------------------------------- judging --

def progclass(p):
    return re.sub(r"[^A-Za-z_\[\]().?:-]", "", p)


JQ_ROUTE = ['-a']


def job(tool, fmtargs, route, prog, doc):
    # yq: `--arg zz 1` makes context.named non-empty, which disables every cursor-streaming fast path.
    # jq: `--arg` is substituted into the program before evaluation and does NOT change the route (checked in the source:
    # can_use_lazy_path does not look at it); `-a` does (ascii_output disables the lazy cursor path and the raw identity
    # path) and is semantically neutral whenever the streamed output is pure ASCII — other cases are skipped for jq.
    return ([tool] + fmtargs + ((ROUTE if tool == "yq" else JQ_ROUTE) if route else []) + [prog], doc)


def case_jobs(case):
    tool, doc, prog, fi, sub = case
    fmt = (YQ_FMT if tool == "yq" else JQ_FMT)[fi][1]
    return [job(tool, fmt, 0, prog, doc), job(tool, fmt, 1, prog, doc)]


def lines_wo_sep(b):
    return [l for l in b.split(b"\n") if l.strip() != b"---"]


def judge(case, run):
    """-> (list of (signature, info)) ; empty list = routes agree"""
    tool, doc, prog, fi, sub = case
    fname, fmt = (YQ_FMT if tool == "yq" else JQ_FMT)[fi]
    rs, rd = run.many(case_jobs(case))
    pre = (sub + ":" if sub else "") + tool + ":"
    if (rs[0], rs[1]) == (rd[0], rd[1]):
        return []
    if tool == "jq" and any(b > 0x7e for b in rs[1]):     # (-a also escapes DEL)
        return [("#info:jq-skipped-non-ascii-output", None)]
    if batch.crashed(rs[0]) or batch.crashed(rd[0]):
        return [(pre + "crash:" + ("streamed" if batch.crashed(rs[0]) else "materialised") + ":" + progclass(prog), None)]
    if rs[0] != rd[0]:
        return [(pre + f"status:streamed={rs[0]}:materialised={rd[0]}:" + progclass(prog), None)]
    is_yaml = tool == "yq" and not fname.startswith("json")
    if not is_yaml:
        if tool == "jq" and fname == "-r":
            return [(pre + "raw-output-differs:" + progclass(prog), None)]
        try:
            vs, vd = jlines_any(rs[1]), jlines_any(rd[1])
        except BadJson:
            return [(pre + "json-unparseable:" + fname, None)]
        ps, pd = dup_in_json(rs[1]), dup_in_json(rd[1])
        if ps != pd:
            return [(pre + "json-duplicate-keys:streamed=" + ("kept" if ps else "collapsed") + ":materialised=" + ("kept" if pd else "collapsed"), None)]
        d = jdiff(vs, vd)
        if d:
            return [(pre + f"json-value:streamed={vclass(d[1])}:materialised={vclass(d[2])}", None)]
        return [(pre + "json-text-only:" + text_only_feature(rs[1], rd[1]), None)]
    # YAML output
    if rs[0] != "0":
        if lines_wo_sep(rs[1]) == lines_wo_sep(rd[1]):
            return [(pre + "yaml-doc-separator:on-error-exit", None)]
        return [(pre + "yaml-error-path-stdout-differs:" + progclass(prog), None)]
    only_sep = lines_wo_sep(rs[1]) == lines_wo_sep(rd[1])
    ref = run(job("yq", YQ_FMT[0][1], 0, prog, doc)[0], doc)
    try:
        refv = jlines(ref[1]) if ref[0] == "0" else None
    except BadJson:
        refv = None
    S, D = rs[1].decode("utf8", "replace"), rd[1].decode("utf8", "replace")
    if only_sep:
        return [(pre + "yaml-doc-separator:leading-marker", None)]
    if refv is None or len(refv) != 1 or multi_doc_input(doc) or (fname == "yaml-tab" and (re.search(rb"(?m)^[ -]*\t", rs[1]) or re.search(rb"(?m)^[ -]*\t", rd[1]))):
        # (tab-indented YAML is not loadable at all, so for --tab only the token diff applies as well)
        # several results (or documents): the YAML stream of results is not separable, so only the token diff applies
        feats = style_features(S, D)
        if sub == "dupkeys" and dup_keys_in_text(S) != dup_keys_in_text(D):
            feats = {f for f in feats if not f.startswith("unexplained")} | {"duplicate-keys-kept-vs-collapsed"}
        bare = [l for l in S.split("\n") if re.fullmatch(r"\*[^\s]+", l)]
        out = []
        if bare and not any(re.fullmatch(r"\*[^\s]+", l) for l in D.split("\n")):
            out.append((pre + "yaml-value:streamed-prints-bare-alias-as-result", None))
            feats.discard("alias-kept-vs-expanded")
            feats = {f for f in feats if not f.startswith("unexplained")}
            # the expanded value occupies different lines than the bare `*x`, so line-structure features of the token
            # diff are a consequence of the same root cause here; keep them apart from a difference seen on its own
            feats = {(f + ":alongside-bare-alias-result" if f in ("indentation", "flow-vs-block", "line-count") else f) for f in feats}
        if "key-order" in feats:
            feats.discard("key-order"); out.append((pre + "yaml-key-order:" + fname, None))
        return out + [(pre + "yaml-style-only:" + f, None) for f in sorted(feats)] if (out or feats) else [(pre + "yaml-style-only:unexplained:no-feature", None)]
    ls, ld = run.many([(RELOAD, rs[1]), (RELOAD, rd[1])])
    vals = []
    for r in (ls, ld):
        try:
            vals.append(jlines(r[1]) if r[0] == "0" else None)
        except BadJson:
            vals.append(None)
    okS = vals[0] is not None and len(vals[0]) == 1 and jeq(vals[0][0], refv[0])
    okD = vals[1] is not None and len(vals[1]) == 1 and jeq(vals[1][0], refv[0])
    if okS and okD:
        if not jeq(vals[0][0], vals[1][0], ordered=True):
            return [(pre + "yaml-key-order:" + fname, None)]
        feats = style_features(S, D)
        feats.discard("key-order")
        if dup_keys_in_text(S) != dup_keys_in_text(D):
            feats = {f for f in feats if not f.startswith("unexplained")} | {"duplicate-keys-kept-vs-collapsed"}
        return [(pre + "yaml-style-only:" + f, None) for f in sorted(feats)] or [(pre + "yaml-style-only:unexplained:no-feature", None)]
    out = []
    for name, ok, v, r, text in (("streamed", okS, vals[0], ls, S), ("materialised", okD, vals[1], ld, D)):
        if ok:
            continue
        if re.fullmatch(r"\*[^\s]+\n?", text):
            out.append((pre + f"yaml-value:{name}-prints-bare-alias-as-result", None))
        elif isinstance(refv[0], str) and text == refv[0] + "\n":
            out.append((pre + f"yaml-value:{name}:root-string-printed-raw", None))   # C15's unwrapped root scalar, not a route matter
        elif v is None:
            out.append((pre + f"yaml-reload-fails:{name}:" + cligen.slug(r[2], 40), None))
        elif len(v) != 1:
            out.append((pre + f"yaml-value:{name}:document-count", None))
        else:
            d = jdiff(refv[0], v[0])
            out.append((pre + f"yaml-value:{name}-wrong:{d[3]}:{vclass(d[1])}->{vclass(d[2])}", None))
    return out


def multi_doc_input(doc):
    return doc.startswith(b"---") and b"\n---" in doc or b"\n---" in doc


def jlines_any(b):
    """JSON values of pretty or compact output (concatenated values)."""
    t = b.decode("utf8")
    dec = json.JSONDecoder(parse_constant=cligen._no_const)
    out = []; i = 0
    try:
        while True:
            while i < len(t) and t[i] in " \t\r\n":
                i += 1
            if i >= len(t):
                return out
            v, i = dec.raw_decode(t, i)
            out.append(v)
    except ValueError as e:
        raise BadJson(str(e)[:60])


def dup_in_json(b):
    found = []

    def hook(pairs):
        ks = [k for k, _ in pairs]
        if len(ks) != len(set(ks)):
            found.append(1)
        return dict(pairs)
    t = b.decode("utf8"); dec = json.JSONDecoder(object_pairs_hook=hook); i = 0
    try:
        while True:
            while i < len(t) and t[i] in " \t\r\n":
                i += 1
            if i >= len(t):
                break
            _, i = dec.raw_decode(t, i)
    except ValueError:
        pass
    return bool(found)


def text_only_feature(a, b):
    ta = re.findall(rb'"(?:[^"\\]|\\.)*"|[^\s,:\[\]{}"]+', a); tb = re.findall(rb'"(?:[^"\\]|\\.)*"|[^\s,:\[\]{}"]+', b)
    if len(ta) != len(tb):
        return "layout"
    for x, y in zip(ta, tb):
        if x != y:
            if x[:1] == b'"':
                return "string-escaping"
            return "number-spelling:" + c11.numfeat(float(x)) if re.fullmatch(rb"[-+0-9.eE]+", x) else "token"
    return "whitespace"


def case_example(case, sig):
    tool, doc, prog, fi, sub = case
    fname, fmt = (YQ_FMT if tool == "yq" else JQ_FMT)[fi]
    return {"kind": "c27", "tool": tool, "doc_hex": doc.hex(), "doc": cligen.short(doc, 200), "prog": prog, "fmt": fi, "fmt_name": fname, "sub": sub,
            "argv_streamed": [tool] + fmt + [prog], "argv_materialised": [tool] + fmt + (ROUTE if tool == "yq" else JQ_ROUTE) + [prog]}


def rejudge(ex, runner):
    case = (ex["tool"], bytes.fromhex(ex["doc_hex"]), ex["prog"], ex["fmt"], ex.get("sub", ""))
    return {s for s, _ in judge(case, runner) if not s.startswith("#info:")}


def work(shard):
    part = Part()
    cases = []
    for tool, doc, sub in shard:
        fmts = YQ_FMT if tool == "yq" else JQ_FMT
        for p in PROGS:
            for fi in range(len(fmts)):
                cases.append((tool, doc, p, fi, sub))
    verdicts, njobs = cligen.bulk_judge(cases, case_jobs, judge, "c27", part)
    space = {}
    for i, c in enumerate(cases):
        name = (c[4] + "-" if c[4] else "") + c[0]
        space[name] = space.get(name, 0) + 1
        real = [sig for sig, _ in verdicts[i] if not sig.startswith("#info:")]
        for sig, _ in verdicts[i]:
            if sig.startswith("#info:"):
                part.bump(sig[6:])
        for sig in real:
            part.fail(sig, len(c[1]) * 100 + len(c[2]), case_example(c, sig))
        part.distinct.add(hash((c[0], c[1], c[2], c[3], bool(real))))
        if real:
            part.bump("cases_with_route_dependent_stdout")
    for tool, doc, sub in shard:
        part.count((sub + "-" if sub else "") + tool, inputs=1)
    for name, n in space.items():
        part.count(name, trans=2 * n)
    part.bump("batch_jobs", njobs)
    return part


def json_docs(tier):
    docs = []
    for fam, cset, ds in c11.documents(tier):
        if fam in ("scalars", "keys", "trees", "whitespace") or (fam == "nesting-moderate"):
            docs += [d[0] for d in ds if len(d[0]) < 2000]
    docs += [b'{"a":1,"k":{"j":[1,2,{"k":3}]},"b":[{"k":1},{"k":null}]}', b'[{"k":1,"a":2},[1,2,3],"x",null]', b'{"k":[1,2,3],"a":{"k":false}}',
             b'1 2 [3]', b'{"a":1}{"a":2}\n[1]', b'{"k":{"j":-0},"a":[-0.0,1e2,1E+2,0.10]}', b'[{"k":{"j":1.0}},{"k":{"j":100000000000000000000}}]',
             b'{"k":"\\u00e9\\ud83d\\ude00\\u0000","a":"\\/"}', b'[]', b'{}', b'null']
    seen = set(); out = []
    for d in docs:
        if d not in seen:
            seen.add(d); out.append(d)
    return out


def wide_dup_docs(tier):
    """Objects with more than 16 fields and one repeated key (k0..k(n-1): many keys share length, first and last
    character), the duplicate at the end / right after the original / midway, bare and inside an array. jq's two
    routes must agree on them (both collapse to first position, last value); the streaming printer decides with a
    duplicate-key probe that works differently for small and for wide objects."""
    out = []
    for n in ((17, 21) if tier == "quick" else (15, 16, 17, 18, 21, 33, 40)):
        for i in range(n):
            for j in ([n] if tier == "quick" else sorted({i + 1, (i + n) // 2 + 1, n})):
                items = [("k%d" % x, x) for x in range(n)]
                items.insert(j, ("k%d" % i, 999))
                body = "{" + ",".join('"%s":%d' % kv for kv in items) + "}"
                out.append(body.encode())
                if i % 7 == 0:
                    out.append(('[%s,{"a":1}]' % body).encode())
    return out


def run(ctx):
    tier = ctx["tier"]
    rep = batch.Report()
    if ctx["replay"]:
        return cligen.replay_sets(rep, ctx, rejudge)
    ydocs = [d[0] for d in (cligen.ycorpus(tier, strs=cligen.YSTR_QUICK[:19], keys=cligen.YKEYS_QUICK[:15]) if tier == "quick" else cligen.ycorpus(tier))]
    items = [("yq", d, "") for d in ydocs] + [("yq", d, "dupkeys") for d, _ in cligen.YDUP] + [("jq", d, "") for d in json_docs(tier)]
    items += [("jq", d, "dupkeys") for d in (b'{"a":1,"a":2}', b'{"k":{"j":1,"j":2},"a":3,"k":4}', b'[{"a":1,"a":2},{"k":1,"k":[2]}]')]
    items += [("jq", d, "dupkeys") for d in wide_dup_docs(tier)]
    parts = cligen.shard_run(work, items, nshards=min(len(items), 64))
    fails, info, jobsample = cligen.merge_parts(rep, parts)
    for name in rep.subspaces:
        rep.subspaces[name]["note"] = "every document x 19 navigation programs x every format x {streamed, materialised}"
    cligen.selftest_sample(rep, jobsample, n=100)
    cligen.confirm_and_report_sets(rep, fails, rejudge)
    rep.extra.update({"programs": PROGS, "yq_formats": [f[0] for f in YQ_FMT], "jq_formats": [f[0] for f in JQ_FMT], "info": info,
                      "route_forcer": {"yq": "--arg zz 1", "jq": "-a (cases whose streamed output is not pure ASCII are skipped)"}})
    rep.sample({"document": "k: 0o7\n", "program": ".k", "streamed": "0o7", "materialised": "7", "class": "yaml-style-only:int-radix"})
    return rep.to_json()
