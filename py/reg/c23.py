SPEC = dict(
    kind="rust",
    bins=rust("c23", (("regex", ("regex",)),)),
    design_ref="§3-C23",
    technique="bounded-exhaustive enumeration of a jq program grammar x 19 inputs, differential between the two evaluators (S5), "
              "disagreements attributed to the minimal sub-program before a signature is computed",
    rule="programs: B = ~1060 base terms (every nullary builtin, every builtin with argument templates, operators over ./literal pairs, paths, slices, "
         "construction, as-patterns, reduce/foreach, if, try/catch, label/break, optional, alternative, assignment forms, literal-fed edge cases); "
         "depth 1 = B; depth 2 = 17 unary contexts ([a], (a)?, try (a) catch ., [.[]|a], first(a), [limit(2;a)], map(a), {a:(a)}, (a)//1, if (a).., "
         "reduce (a).., path(a), (a)=1, (a)|=1, del(a), [(a),1], select(a)) around every judged term + pipes a|b (quick: primary x primary ~450^2; thorough: "
         "every judged term x every term that reads its input); thorough adds depth 3 over 82 core terms (a|b|c, ctx(a|b), ctx(a)|b, a|ctx(b), ctx(ctx(a))). "
         "x 19 inputs (the 18 of the design: all scalar kinds, nested, duplicate key, edge numbers; plus one object with keys out of order). A case is the (program, input) pair; distinct+non-trivial counts distinct agreed "
         "observations (outputs, terminal) other than 'no output, normal end'.",
    level_text="Every program of the bounded grammar is parsed once and run on every input through jq::eval::<_, JqSemantics> and "
               "jq::eval_generic::eval_with_cursor on the same cursor; outputs (as JSON values) and terminal (end / error message / break label / halt code) "
               "must be equal. Lazy results (LazySeq, LazyKeys, LazyIndexRange) are materialised through their public materialize_atomic / collect_owned "
               "paths, so a deferred error is observed. Exhaustive within the grammar; no sampling.",
    level_note="Built with the `regex` feature (the CLI's configuration). Environment-dependent builtins (input, inputs, now, env, $ENV, halt*, "
               "input_line_number, $__loc__, localtime, mktime, strptime, strflocaltime, builtins, ...) are run at depth 1 only and never judged; debug/stderr/"
               "halt_error are left out because they write to the harness's own stderr. Unbounded generators appear only under limit/first and at depth 1 "
               "(both evaluators run them eagerly to an internal cap, 20-400 ms each). Programs whose text the parser rejects or on which it panics, and "
               "pairs on which both evaluators panic with the same message, are counted in the evidence and not judged (C19/C30 cover crashes). Outputs "
               "that are equal as JSON values but differ in number spelling or key order are counted separately, not failed (none occurred).",
    assumptions=["value equality is JSON value equality (numbers numerically, object key order irrelevant)",
                 "composite base terms (a|b written as one term) are split at their first top-level pipe for attribution", "attribution re-serialises intermediate outputs, so a duplicate-key cause is tested on the minimal (sub-program, input) pair by collapsing duplicates"],
)
