//! C07 — interest-bit rank/select (+ hinted select for every hint) and node
//! positions / cursor_at_offset / cursor_at_position.
//!
//! Inputs: (a) every J(n) document with whitespace variants, (b) every byte
//! string of length <= L over the 27-byte class alphabet, placed at word
//! boundaries, (c) scale families: sparse-IB arrays (1..20, 33, 70 all-zero IB
//! words between ones: the gallop doubles several times in both directions),
//! dense arrays to 100 000 elements, deep nesting, > 1 MiB documents.
//! Queries: ib_rank1(p) for every p <= len+2 (+ far beyond), ib_select1(k) for
//! every k <= ones+2 and k in {2^32-1, 2^32, 2^32+1, 2^33+1, MAX-1, MAX},
//! ib_select1_from(k, h) for the same k and EVERY hint h in 0..=words+10 and
//! usize::MAX; text_position of every node; cursor_at_offset(o) for every
//! o <= len+1; cursor_at_position(l, c) for the naive (line, column) of every
//! offset, plus out-of-range pairs.
//! Oracle: naive scan of the IB words for rank/select; generator spans for the
//! positions (the set IB bits must be exactly the token starts).
use engine::*;
use serde_json::{json, Value};
use succinctly::json::JsonIndex;

#[path = "../jgen.rs"]
mod jgen;
#[path = "../jnav.rs"]
mod jnav;

use jgen::{Alphabet, Doc, Space, Ws, WS};

/// 27-byte class alphabet of C05 (representatives and range-edge neighbours).
pub const ALPHA27: [u8; 27] = [
    b'{', b'}', b'[', b']', b',', b':', b'"', b'\\', b' ', b'\n', b'0', b'9', b'a', b'z', b'A', b'Z', b'-', b'+', b'.', b'/', b'@', b'`', b'~', 0x00, 0x7f, 0x80, 0xff,
];

fn check_doc(doc: &Doc, rep: &mut Report, full_k_limit: usize, big: bool) {
    let size = doc.text.len();
    guard(rep, "PANIC:doc", size, || doc.case(), |rep| {
        let ix = JsonIndex::build(&doc.text);
        let hint_budget = if big { 30_000_000 } else { u64::MAX };
        let ones = jnav::check_rank_select(rep, "", &ix, doc.text.len(), full_k_limit, hint_budget, &|| doc.case());
        if ones.len() >= 2 {
            rep.distinct(&(ones.len(), ones[1] - ones[0], ones[ones.len() - 1] / 64));
        }
        let mut ck = jnav::Ck::new(rep, doc, "", big);
        jnav::check_positions(&mut ck, &ix, &ones);
    });
}

fn bytes_case(t: &[u8]) -> Value {
    json!({"kind": "bytes", "hex": hex(t), "text": show(t)})
}

fn check_bytes(t: &[u8], rep: &mut Report) {
    guard(rep, "PANIC:bytes", t.len(), || bytes_case(t), |rep| {
        let ix = JsonIndex::build(t);
        let ones = jnav::check_rank_select(rep, "", &ix, t.len(), 1 << 20, u64::MAX, &|| bytes_case(t));
        rep.distinct(&ones);
    });
}

fn explore(ctx: &Ctx, rep: &mut Report) {
    for a in [Alphabet::full(), Alphabet::reduced(), Alphabet::tiny()] {
        a.selftest();
    }
    let kl = 1usize << 20;
    let f = |d: &Doc, rep: &mut Report| check_doc(d, rep, kl, false);
    let all: &[&str] = &WS;
    let two: &[&str] = &["", " \n\t\r "];
    let plans: Vec<(&str, Alphabet, usize, &[&str], bool)> = if ctx.quick() {
        vec![
            ("docs/J3/full/uniform-ws", Alphabet::full(), 3, two, false),
            ("docs/J3/reduced/single-gap-ws", Alphabet::reduced(), 3, &[][..], true),
            ("docs/J4/reduced/uniform-ws", Alphabet::reduced(), 4, &["\r\n"][..], false),
        ]
    } else {
        vec![
            ("docs/J3/full/uniform-ws", Alphabet::full(), 3, all, false),
            ("docs/J3/full/single-gap-ws", Alphabet::full(), 3, &[][..], true),
            ("docs/J4/reduced/uniform-ws", Alphabet::reduced(), 4, all, false),
            ("docs/J4/reduced/single-gap-ws", Alphabet::reduced(), 4, &[][..], true),
            ("docs/J5/tiny/uniform-ws", Alphabet::tiny(), 5, two, false),
        ]
    };
    for (name, alpha, n, uni, single) in plans {
        if ctx.over_budget() {
            rep.caps.push(format!("wall cap reached before sub-space {name}"));
            continue;
        }
        let sp = Space::new(alpha, n);
        let r = jgen::for_each_doc(ctx, name, &sp, uni, single, 11, &f);
        rep.merge(r);
    }
    // (b) arbitrary byte strings over the class alphabet, at word-boundary placements
    let maxlen = ctx.pick(3, 4);
    let alpha: Vec<&[u8]> = ALPHA27.iter().map(std::slice::from_ref).collect();
    let pads: &[usize] = &[0, 62, 63, 64, 126];
    let r = par_strings(ctx, "bytes/class-alphabet", &alpha, maxlen, |s, _idx, rep| {
        let mut buf = Vec::with_capacity(140);
        for &p in pads {
            if p > 0 && s.is_empty() {
                continue;
            }
            for fill in [b' ', b'1'] {
                if p == 0 && fill != b' ' {
                    continue;
                }
                buf.clear();
                // filler: spaces (no interest bits) or "1 1 1 …" (an interest bit every other byte)
                for i in 0..p {
                    buf.push(if fill == b'1' && i % 2 == 0 { b'1' } else { b' ' });
                }
                buf.extend_from_slice(s);
                rep.input();
                check_bytes(&buf, rep);
            }
        }
    });
    let mut r = r;
    let n = count_strings(27, maxlen);
    r.mark_exhaustive("bytes/class-alphabet", &format!("all {n} strings of length 0..={maxlen} over the 27-byte class alphabet x 9 placements (after 0/62/63/64/126 bytes of blank or '1 1 …' filler); every rank, every k, every hint"));
    rep.merge(r);
    // (c) scale families
    let fams = jgen::family_list(ctx.quick());
    let wss = [Ws::Uniform(String::new()), Ws::Uniform("\n".into())];
    let fk = ctx.pick(300, 6000);
    let r = par_range_in(ctx, "families", (fams.len() * wss.len()) as u64, 1, |i, rep| {
        let (name, p) = fams[i as usize / wss.len()];
        let d = jgen::family(name, p, &wss[i as usize % wss.len()]);
        rep.input();
        check_doc(&d, rep, fk, true);
        if name == "sparse" && p == 20 && i % 2 == 0 {
            rep.sample(|| json!({"family": name, "param": p, "bytes": d.text.len(), "ib_words": d.text.len().div_ceil(64), "ones": d.nodes.len(), "hints": "0..=words+10, usize::MAX"}));
        }
    });
    let mut r = r;
    r.mark_exhaustive("families", &format!("every (family, parameter) x 2 whitespace patterns; every k when ones <= {fk} else boundary ranks; every hint 0..=words+10 when (words+12) x |k set| <= 3e7 (else boundary hints); every offset when len <= 5000 else boundary offsets + stride 53"));
    rep.merge(r);
    rep.sample(|| {
        let sp = Space::new(Alphabet::reduced(), 3);
        let d = sp.doc(sp.total() - 9, &Ws::Uniform("\r\n".into()));
        json!({"doc": show(&d.text), "token_starts": d.nodes.iter().map(|n| n.start).collect::<Vec<_>>(), "queries": "rank all p, select all k, select_from all (k,h), cursor_at_offset all o, cursor_at_position all (l,c)"})
    });
    rep.extra.insert("huge_k".into(), json!(jnav::HUGE_K.iter().map(|k| k.to_string()).collect::<Vec<_>>()));
    rep.extra.insert("families".into(), json!(fams.iter().map(|(n, p)| format!("{n}({p})")).collect::<Vec<_>>()));
    rep.extra.insert("byte_alphabet".into(), json!(show(&ALPHA27)));
}

fn replay(case: &Value, rep: &mut Report) {
    if case.get("doc").is_some() {
        let d = jgen::regen(&case["doc"]);
        let big = case["doc"].get("family").is_some();
        let r = std::thread::scope(|s| {
            std::thread::Builder::new()
                .stack_size(256 << 20)
                .spawn_scoped(s, || {
                    let mut r = Report::new();
                    check_doc(&d, &mut r, 6000, big);
                    r
                })
                .unwrap()
                .join()
                .unwrap()
        });
        rep.merge(r);
    } else {
        let t = unhex(case["hex"].as_str().unwrap());
        check_bytes(&t, rep);
    }
}

fn main() {
    drive("C07", explore, replay);
}
