//! C31 — index serialisation round-trips and tolerates any byte alignment.
//!
//! (A) every word vector of length 0..=L over W8: `words_to_bytes` gives the
//!     little-endian bytes (own encoder) and `bytes_to_words`,
//!     `bytes_to_words_vec`, `try_bytes_to_words` give the words back.
//! (B) byte slices at EVERY alignment offset 0..=7 of an 8-aligned buffer,
//!     lengths {0, 8, 16, 64, 72} (good) and {1, 4, 7, 9, 12, 60, 63} (bad), several
//!     contents, through `bytes_to_words`, `bytes_to_words_vec`,
//!     `try_bytes_to_words`, `standard::SemiIndex::from_bytes`,
//!     `simple::SemiIndex::from_bytes` under `catch_unwind`. Good length must
//!     succeed with the little-endian words at every offset; the fallible form
//!     must return None exactly for a bad length and never panic. (The
//!     infallible forms are documented to panic on a bad length; that panic is
//!     accepted.)
//! (C) every J(n) document: the index parts are serialised with
//!     `words_to_bytes`, copied to fresh buffers, read back and passed to
//!     `JsonIndex::from_parts` (owned Vec<u64> and borrowed &[u64]); the rebuilt
//!     indexes must pass the complete C06 navigation check and the C07
//!     rank/select/position check against the generator's tree (hence answer
//!     as the originals do). `SemiIndex::from_bytes`, `SimpleJsonIndex::
//!     from_parts`, `BalancedParens::from_words`, `BitVec::from_words` rebuilt
//!     from serialised words are compared query-by-query with the originals.
use engine::*;
use serde_json::{json, Value};
use succinctly::binary::{bytes_to_words, bytes_to_words_vec, try_bytes_to_words, words_to_bytes};
use succinctly::bits::BitVec;
use succinctly::json::{simple, standard, JsonIndex, SimpleJsonIndex};
use succinctly::trees::BalancedParens;

#[path = "../jgen.rs"]
mod jgen;
#[path = "../jnav.rs"]
mod jnav;

use jgen::{Alphabet, Doc, Space, Ws, WS};

fn le_bytes(w: &[u64]) -> Vec<u8> {
    let mut out = Vec::with_capacity(w.len() * 8);
    for x in w {
        for k in 0..8 {
            out.push((x >> (8 * k)) as u8);
        }
    }
    out
}

fn le_words(b: &[u8]) -> Vec<u64> {
    b.chunks(8).map(|c| c.iter().enumerate().fold(0u64, |a, (k, &x)| a | (x as u64) << (8 * k))).collect()
}

/// A byte buffer whose slice `[..]` starts exactly `off` bytes after an 8-byte boundary.
struct Aligned {
    buf: Vec<u8>,
    start: usize,
    len: usize,
}
impl Aligned {
    fn new(content: &[u8], off: usize) -> Self {
        let mut buf = vec![0xEEu8; content.len() + 24];
        let base = (8 - (buf.as_ptr() as usize % 8)) % 8;
        let start = base + off;
        buf[start..start + content.len()].copy_from_slice(content);
        let a = Aligned { buf, start, len: content.len() };
        assert_eq!(a.get().as_ptr() as usize % 8, off % 8, "harness: alignment construction failed");
        a
    }
    fn get(&self) -> &[u8] {
        &self.buf[self.start..self.start + self.len]
    }
}

// ------------------------------------------------------------------ part A --

fn part_a(ctx: &Ctx, rep: &mut Report) {
    let maxlen = ctx.pick(6u32, 9u32);
    let n = count_strings(8, maxlen);
    let mut r = par_range_in(ctx, "roundtrip/W8-vectors", n, 8192, |i, rep| {
        let mut idx = vec![];
        nth_string(8, maxlen, i, &mut idx);
        let w: Vec<u64> = idx.iter().map(|&k| gen::W8[k]).collect();
        rep.input();
        let case = || json!({"kind": "words", "words": w.iter().map(|x| format!("{x:#x}")).collect::<Vec<_>>()});
        guard(rep, "PANIC:roundtrip-aligned", w.len(), case, |rep| {
            rep.trans(4);
            let b = words_to_bytes(&w);
            if b != &le_bytes(&w)[..] {
                rep.fail("words_to_bytes:not-little-endian-bytes", w.len(), case);
            }
            if bytes_to_words(b) != &w[..] {
                rep.fail("bytes_to_words:roundtrip", w.len(), case);
            }
            if bytes_to_words_vec(b) != w {
                rep.fail("bytes_to_words_vec:roundtrip", w.len(), case);
            }
            if try_bytes_to_words(b) != Some(&w[..]) {
                rep.fail("try_bytes_to_words:roundtrip", w.len(), case);
            }
        });
        if i % 9973 == 0 {
            rep.distinct(&w);
        }
    });
    r.mark_exhaustive("roundtrip/W8-vectors", &format!("all {n} word vectors of length 0..={maxlen} over the 8-word alphabet W8"));
    rep.merge(r);
}

// ------------------------------------------------------------------ part B --

fn part_b_case(off: usize, len: usize, content: usize) -> Value {
    json!({"kind": "aligned-bytes", "offset": off, "len": len, "content": content})
}

fn content_bytes(which: usize, len: usize) -> Vec<u8> {
    match which {
        0 => (0..len).map(|i| (i as u8).wrapping_mul(37).wrapping_add(1)).collect(),
        1 => vec![0xFF; len],
        2 => vec![0x00; len],
        _ => (0..len).map(|i| if i % 8 == 7 { 0x80 } else { 0x01 }).collect(),
    }
}

fn check_aligned(off: usize, len: usize, content: usize, rep: &mut Report) {
    let bytes = content_bytes(content, len);
    let a = Aligned::new(&bytes, off);
    let s = a.get();
    let good = len % 8 == 0;
    let exp: Option<Vec<u64>> = if good { Some(le_words(s)) } else { None };
    let al = if off == 0 { "aligned" } else { "unaligned" };
    let case = || part_b_case(off, len, content);
    let size = off * 1000 + len;
    // infallible forms
    let results: Vec<(&str, Result<Vec<u64>, String>)> = vec![
        ("bytes_to_words", catch(|| bytes_to_words(s).to_vec())),
        ("bytes_to_words_vec", catch(|| bytes_to_words_vec(s))),
        ("standard::SemiIndex::from_bytes", catch(|| {
            let x = standard::SemiIndex::from_bytes(s, s);
            assert!(x.ib == x.bp, "from_bytes read the same bytes differently");
            x.ib
        })),
        ("simple::SemiIndex::from_bytes", catch(|| {
            let x = simple::SemiIndex::from_bytes(s, s);
            assert!(x.ib == x.bp, "from_bytes read the same bytes differently");
            x.ib
        })),
    ];
    for (name, r) in results {
        rep.trans(1);
        match (r, &exp) {
            (Ok(w), Some(e)) => {
                if &w != e {
                    rep.fail(&format!("{name}:wrong-words:{al}"), size, case);
                }
            }
            (Err(msg), Some(_)) => {
                let name = if name.ends_with("from_bytes") { "SemiIndex::from_bytes" } else { name };
                rep.fail(&format!("{name}:panic:{al}"), size, || {
                    let mut c = case();
                    c["panic"] = json!(msg);
                    c
                })
            }
            // bad length: documented panic for the infallible forms; returning is not demanded either way
            (_, None) => {}
        }
    }
    rep.trans(1);
    match (catch(|| try_bytes_to_words(s).map(|w| w.to_vec())), &exp) {
        (Ok(Some(w)), Some(e)) => {
            if &w != e {
                rep.fail(&format!("try_bytes_to_words:wrong-words:{al}"), size, case);
            }
        }
        (Ok(None), None) => {}
        (Ok(None), Some(_)) => rep.fail(&format!("try_bytes_to_words:none-for-good-length:{al}"), size, case),
        (Ok(Some(_)), None) => rep.fail(&format!("try_bytes_to_words:some-for-bad-length:{al}"), size, case),
        (Err(msg), _) => rep.fail(&format!("try_bytes_to_words:panic:{al}"), size, || {
            let mut c = case();
            c["panic"] = json!(msg);
            c
        }),
    }
}

fn part_b(rep: &mut Report) {
    rep.space("alignment/offsets-0..7");
    let lens = [0usize, 8, 16, 64, 72, 1, 4, 7, 9, 12, 60, 63];
    for off in 0..8 {
        for &len in &lens {
            for content in 0..4 {
                rep.input();
                rep.distinct(&(off, len, content));
                check_aligned(off, len, content, rep);
            }
        }
    }
    rep.mark_exhaustive("alignment/offsets-0..7", "alignment offsets 0..=7 x lengths {0,8,16,64,72 | 1,4,7,9,12,60,63} x 4 contents x 5 functions");
    rep.sample(|| json!({"alignment_offset": 3, "len": 16, "functions": ["bytes_to_words", "bytes_to_words_vec", "try_bytes_to_words", "standard::SemiIndex::from_bytes", "simple::SemiIndex::from_bytes"]}));
}

// ------------------------------------------------------------------ part C --

/// serialise -> fresh aligned buffer -> read back (owned)
fn through_bytes(words: &[u64]) -> (Aligned, Vec<u64>) {
    let a = Aligned::new(words_to_bytes(words), 0);
    let v = bytes_to_words_vec(a.get());
    (a, v)
}

fn simple_dump<W: AsRef<[u64]>>(si: &SimpleJsonIndex<W>, t: &[u8]) -> Vec<Option<usize>> {
    let mut out = vec![Some(si.structural_count())];
    out.extend(si.structural_positions(t).map(Some));
    out.push(None);
    for p in 0..t.len() + 2 {
        out.push(si.structural_index(p));
        out.push(si.find_close(t, p));
        out.push(si.skip_value(t, p));
    }
    for k in 0..si.structural_count() + 2 {
        out.push(si.structural_pos(k));
    }
    out
}

fn bp_dump<W: AsRef<[u64]>>(bp: &BalancedParens<W>) -> Vec<Option<usize>> {
    let mut out = vec![Some(bp.len()), Some(bp.total_ones())];
    for p in 0..bp.len() + 2 {
        out.push(Some(bp.rank1(p)));
        if p < bp.len() {
            out.push(bp.find_close(p));
            out.push(bp.first_child(p));
            out.push(bp.next_sibling(p));
            out.push(bp.parent(p));
            out.push(Some(bp.is_open(p) as usize));
        }
    }
    out
}

fn check_doc(doc: &Doc, rep: &mut Report, big: bool) {
    let t = &doc.text[..];
    let size = t.len();
    guard(rep, "PANIC:from_parts", size, || doc.case(), |rep| {
        let orig = JsonIndex::build(t);
        let ib_len = orig.ib_len();
        let bp_len = orig.bp().len();
        let (ib_buf, ib_v) = through_bytes(orig.ib());
        let (bp_buf, bp_v) = through_bytes(orig.bp().words());
        rep.trans(2);
        if ib_v != orig.ib() || bp_v != orig.bp().words() {
            rep.fail("serialise:index-words-changed", size, || doc.case());
        }
        let fk = (if big { 300 } else { 1 << 20 }) | jnav::NO_HUGE_K;
        let hb = if big { 2_000_000 } else { u64::MAX };
        // owned
        {
            let ix = JsonIndex::from_parts(ib_v.clone(), ib_len, bp_v.clone(), bp_len);
            let mut ck = jnav::Ck::new(rep, doc, "from_parts-owned:", big);
            jnav::check_nav(&mut ck, &ix);
            let ones = jnav::check_rank_select(rep, "from_parts-owned:", &ix, t.len(), fk, hb, &|| doc.case());
            let mut ck = jnav::Ck::new(rep, doc, "from_parts-owned:", big);
            jnav::check_positions(&mut ck, &ix, &ones);
        }
        // borrowed (zero-copy view of the serialised bytes)
        {
            let ibw: &[u64] = bytes_to_words(ib_buf.get());
            let bpw: &[u64] = bytes_to_words(bp_buf.get());
            let ix: JsonIndex<&[u64]> = JsonIndex::from_parts(ibw, ib_len, bpw, bp_len);
            let mut ck = jnav::Ck::new(rep, doc, "from_parts-borrowed:", big);
            jnav::check_nav(&mut ck, &ix);
            let ones = jnav::check_rank_select(rep, "from_parts-borrowed:", &ix, t.len(), fk, hb, &|| doc.case());
            let mut ck = jnav::Ck::new(rep, doc, "from_parts-borrowed:", big);
            jnav::check_positions(&mut ck, &ix, &ones);
            if !big {
                // BalancedParens::from_words on the borrowed words answers as the original BP
                rep.trans(1);
                let b2 = BalancedParens::from_words(bpw, bp_len);
                if bp_dump(&b2) != bp_dump(orig.bp()) {
                    rep.fail("BalancedParens::from_words:differs-from-original", size, || doc.case());
                }
            }
        }
        // SemiIndex::from_bytes
        {
            rep.trans(2);
            let semi = standard::build_semi_index(t);
            let ia = Aligned::new(semi.ib_as_bytes(), 0);
            let ba = Aligned::new(semi.bp_as_bytes(), 0);
            let back = standard::SemiIndex::from_bytes(ia.get(), ba.get());
            if back.ib != semi.ib || back.bp != semi.bp {
                rep.fail("standard::SemiIndex::from_bytes:roundtrip", size, || doc.case());
            }
            let semi = simple::build_semi_index(t);
            let ia = Aligned::new(semi.ib_as_bytes(), 0);
            let ba = Aligned::new(semi.bp_as_bytes(), 0);
            let back = simple::SemiIndex::from_bytes(ia.get(), ba.get());
            if back.ib != semi.ib || back.bp != semi.bp {
                rep.fail("simple::SemiIndex::from_bytes:roundtrip", size, || doc.case());
            }
        }
        // SimpleJsonIndex::from_parts
        if !big {
            rep.trans(1);
            let so = SimpleJsonIndex::build(t);
            let (_a, ibv) = through_bytes(so.ib());
            let (_b, bpv) = through_bytes(so.bp().words());
            let s2 = SimpleJsonIndex::from_parts(ibv, so.ib_len(), bpv, so.bp().len());
            if simple_dump(&s2, t) != simple_dump(&so, t) {
                rep.fail("SimpleJsonIndex::from_parts:differs-from-original", size, || doc.case());
            }
        }
    });
}

fn part_bitvec(ctx: &Ctx, rep: &mut Report) {
    let maxlen = ctx.pick(3u32, 4u32);
    let n = count_strings(8, maxlen);
    let mut r = par_range_in(ctx, "bitvec/from-serialised-words", n, 64, |i, rep| {
        let mut idx = vec![];
        nth_string(8, maxlen, i, &mut idx);
        let w: Vec<u64> = idx.iter().map(|&k| gen::W8[k]).collect();
        for len in gen::boundaries(&[0, 64, 128, 192, 256], w.len() * 64) {
            rep.input();
            let case = || json!({"kind": "bitvec", "words": w.iter().map(|x| format!("{x:#x}")).collect::<Vec<_>>(), "len": len});
            guard(rep, "PANIC:bitvec", w.len(), case, |rep| {
                rep.trans(1);
                let (_a, back) = through_bytes(&w);
                let b1 = BitVec::from_words(w.clone(), len);
                let b2 = BitVec::from_words(back, len);
                let naive_ones = (0..len).filter(|&i| gen::bit(&w, i)).count();
                let same = b1.words() == b2.words() && b1.len() == b2.len() && b2.count_ones() == naive_ones && (0..len).all(|i| b2.get(i) == gen::bit(&w, i));
                if !same {
                    rep.fail("BitVec::from_words:serialised-differs", w.len(), case);
                }
            });
        }
    });
    r.mark_exhaustive("bitvec/from-serialised-words", &format!("all word vectors of length 0..={maxlen} over W8 x boundary bit lengths"));
    rep.merge(r);
}

fn explore(ctx: &Ctx, rep: &mut Report) {
    for a in [Alphabet::full(), Alphabet::reduced()] {
        a.selftest();
    }
    assert_eq!(le_words(&le_bytes(&gen::W8)), gen::W8.to_vec(), "harness: own LE codec");
    part_a(ctx, rep);
    part_b(rep);
    part_bitvec(ctx, rep);
    let f = |d: &Doc, rep: &mut Report| check_doc(d, rep, false);
    let all: &[&str] = &WS;
    let two: &[&str] = &["", " \n\t\r "];
    let plans: Vec<(&str, Alphabet, usize, &[&str], bool)> = if ctx.quick() {
        vec![("from_parts/J3/full/uniform-ws", Alphabet::full(), 3, two, false), ("from_parts/J4/reduced/uniform-ws", Alphabet::reduced(), 4, &[" "][..], false)]
    } else {
        vec![
            ("from_parts/J3/full/uniform-ws", Alphabet::full(), 3, all, false),
            ("from_parts/J3/reduced/single-gap-ws", Alphabet::reduced(), 3, &[][..], true),
            ("from_parts/J4/reduced/uniform-ws", Alphabet::reduced(), 4, all, false),
            ("from_parts/J5/tiny/uniform-ws", Alphabet::tiny(), 5, two, false),
        ]
    };
    for (name, alpha, n, uni, single) in plans {
        if ctx.over_budget() {
            rep.caps.push(format!("wall cap reached before sub-space {name}"));
            continue;
        }
        let sp = Space::new(alpha, n);
        let r = jgen::for_each_doc(ctx, name, &sp, uni, single, 0, &f);
        rep.merge(r);
    }
    let fams: Vec<(&str, usize)> = jgen::family_list(true).into_iter().filter(|(n, p)| !(*n == "repeat" || *n == "bigstring") || *p <= 100_000).collect();
    let wss = [Ws::Uniform(String::new()), Ws::Uniform("\n".into())];
    let mut r = par_range_in(ctx, "from_parts/families", (fams.len() * wss.len()) as u64, 1, |i, rep| {
        let (name, p) = fams[i as usize / wss.len()];
        let d = jgen::family(name, p, &wss[i as usize % wss.len()]);
        rep.input();
        check_doc(&d, rep, true);
    });
    r.mark_exhaustive("from_parts/families", "quick-tier family list x 2 whitespace patterns (multi-word IB/BP, deep nesting, sparse IB)");
    rep.merge(r);
    rep.extra.insert("W8".into(), json!(gen::W8.iter().map(|x| format!("{x:#018x}")).collect::<Vec<_>>()));
}

fn replay(case: &Value, rep: &mut Report) {
    match case["kind"].as_str() {
        Some("aligned-bytes") => check_aligned(case["offset"].as_u64().unwrap() as usize, case["len"].as_u64().unwrap() as usize, case["content"].as_u64().unwrap() as usize, rep),
        Some("words") | Some("bitvec") => {
            let w: Vec<u64> = case["words"].as_array().unwrap().iter().map(|x| u64::from_str_radix(x.as_str().unwrap().trim_start_matches("0x"), 16).unwrap()).collect();
            let b = words_to_bytes(&w);
            if b != &le_bytes(&w)[..] {
                rep.fail("words_to_bytes:not-little-endian-bytes", w.len(), || case.clone());
            }
            if bytes_to_words(b) != &w[..] {
                rep.fail("bytes_to_words:roundtrip", w.len(), || case.clone());
            }
            if bytes_to_words_vec(b) != w {
                rep.fail("bytes_to_words_vec:roundtrip", w.len(), || case.clone());
            }
            if try_bytes_to_words(b) != Some(&w[..]) {
                rep.fail("try_bytes_to_words:roundtrip", w.len(), || case.clone());
            }
            if let Some(len) = case.get("len").and_then(|l| l.as_u64()) {
                let len = len as usize;
                let (_a, back) = through_bytes(&w);
                let b2 = BitVec::from_words(back, len);
                let b1 = BitVec::from_words(w.clone(), len);
                let naive_ones = (0..len).filter(|&i| gen::bit(&w, i)).count();
                if !(b1.words() == b2.words() && b2.count_ones() == naive_ones && (0..len).all(|i| b2.get(i) == gen::bit(&w, i))) {
                    rep.fail("BitVec::from_words:serialised-differs", w.len(), || case.clone());
                }
            }
        }
        _ => {
            let d = jgen::regen(&case["doc"]);
            let big = case["doc"].get("family").is_some();
            let r = std::thread::scope(|s| {
                std::thread::Builder::new()
                    .stack_size(256 << 20)
                    .spawn_scoped(s, || {
                        let mut r = Report::new();
                        check_doc(&d, &mut r, big);
                        r
                    })
                    .unwrap()
                    .join()
                    .unwrap()
            });
            rep.merge(r);
        }
    }
}

fn main() {
    drive("C31", explore, replay);
}
