#!/bin/sh
# Run every registered check at the given tier (default quick), sequentially, with timing.
cd "$(dirname "$0")/.."
tier=${1:-quick}
for id in $(python3 -c "
import json
for c in json.load(open('MANIFEST.json'))['checks']: print(c['property_id'])"); do
  s=$(date +%s)
  ./check $id --tier $tier > .cache/run_all_$id.log 2>&1; rc=$?
  e=$(date +%s)
  echo "$id rc=$rc $((e-s))s $(grep -c '^VIOLATION' .cache/run_all_$id.log) violations, $(grep -c '^KNOWN-FINDING' .cache/run_all_$id.log) known"
done
