//! Enumerators shared by several properties.

/// Word alphabet W8 (DESIGN §2).
pub const W8: [u64; 8] = [
    0,
    1,
    1 << 63,
    u64::MAX,
    0xAAAA_AAAA_AAAA_AAAA,
    0x5555_5555_5555_5555,
    0x8000_0000_0000_0001,
    0x0000_FFFF_0000_FFFF,
];

/// `{b-2 … b+2}` clipped at 0.
pub fn boundary(b: usize) -> Vec<usize> {
    let mut v = Vec::new();
    for d in -2i64..=2 {
        let x = b as i64 + d;
        if x >= 0 {
            v.push(x as usize);
        }
    }
    v
}

/// Union of boundary sets, sorted, deduplicated, filtered to `<= max`.
pub fn boundaries(bs: &[usize], max: usize) -> Vec<usize> {
    let mut v: Vec<usize> = bs.iter().flat_map(|&b| boundary(b)).filter(|&x| x <= max).collect();
    v.sort_unstable();
    v.dedup();
    v
}

/// Select sample rates R (DESIGN §2).
pub const RATES: [u32; 14] = [0, 1, 2, 3, 7, 8, 63, 64, 65, 255, 256, 257, 512, 4096];

/// Chunk-alignment offsets: quick = ±2 around 0/16/32/48/64 plus 7, 8; thorough = 0..=65.
pub fn align_offsets(quick: bool) -> Vec<usize> {
    if quick {
        let mut v = boundaries(&[0, 16, 32, 48, 64], 66);
        v.extend([7, 8]);
        v.sort_unstable();
        v.dedup();
        v
    } else {
        (0..=65).collect()
    }
}

/// All non-decreasing sequences of length `0..=maxlen` over `alpha` (sorted ascending).
pub fn nondecreasing<T: Copy>(alpha: &[T], maxlen: usize) -> Vec<Vec<T>> {
    fn rec<T: Copy>(alpha: &[T], start: usize, cur: &mut Vec<T>, out: &mut Vec<Vec<T>>, max: usize) {
        if cur.len() == max {
            return;
        }
        for i in start..alpha.len() {
            cur.push(alpha[i]);
            out.push(cur.clone());
            rec(alpha, i, cur, out, max);
            cur.pop();
        }
    }
    let mut out = vec![vec![]];
    rec(alpha, 0, &mut Vec::new(), &mut out, maxlen);
    out
}

/// All sequences of length `0..=maxlen` over `alpha`.
pub fn sequences<T: Copy>(alpha: &[T], maxlen: usize) -> Vec<Vec<T>> {
    let mut out: Vec<Vec<T>> = vec![vec![]];
    let mut frontier: Vec<Vec<T>> = vec![vec![]];
    for _ in 0..maxlen {
        let mut nx = Vec::with_capacity(frontier.len() * alpha.len());
        for s in &frontier {
            for &a in alpha {
                let mut u = s.clone();
                u.push(a);
                nx.push(u);
            }
        }
        out.extend(nx.iter().cloned());
        frontier = nx;
    }
    out
}

/// Get bit `i` of a word slice (false beyond the slice).
pub fn bit(words: &[u64], i: usize) -> bool {
    words.get(i / 64).map_or(false, |w| (w >> (i % 64)) & 1 == 1)
}
