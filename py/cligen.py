"""Shared helpers of the CLI-batch checks C11 / C15 / C26 / C27.

* strict JSON reading of CLI output (Python `json`, NaN/Infinity rejected), value comparison with
  numbers compared as doubles, first-difference location (`jdiff`) and value/string classes used by
  the classifiers (a signature names the *class* of the offending scalar, never the input);
* a sharded driver: the document list is cut into shards, every shard is processed by a forked
  worker (build jobs -> batch.runbatch -> judge) so that the Python side of the check is as
  parallel as the batch workers; workers return small picklable partial reports;
* confirmation of every reported signature's kept example by real process spawns, and the
  batch/spawn equivalence self-test over job samples taken from every shard.
"""
import json, multiprocessing, os, re, sys, time
import batch, common

sys.setrecursionlimit(20000)

# ------------------------------------------------------------------ JSON side --


class BadJson(Exception):
    pass


def _no_const(x):
    raise ValueError("non-JSON constant " + x)


def jloads(text, pairs=False):
    """Strict JSON -> Python value. pairs=True keeps objects as ('O', [(k, v), ...]) so that
    duplicate keys and textual key order stay visible."""
    try:
        if pairs:
            return json.loads(text, object_pairs_hook=lambda p: ("O", p), parse_constant=_no_const)
        return json.loads(text, parse_constant=_no_const)
    except (ValueError, RecursionError) as e:
        raise BadJson(str(e)[:80])


def jlines(b, pairs=False):
    """Values of a JSON-lines output (one compact value per line)."""
    try:
        t = b.decode("utf8")
    except UnicodeDecodeError as e:
        raise BadJson("not utf-8")
    return [jloads(l, pairs) for l in t.split("\n") if l.strip()]


def isnum(v):
    return isinstance(v, (int, float)) and not isinstance(v, bool)


def numeq(a, b):
    try:
        return float(a) == float(b)
    except OverflowError:
        return a == b


def jeq(a, b, ordered=False):
    """Equality of JSON values: numbers as doubles, everything else by type and content."""
    if isinstance(a, bool) or isinstance(b, bool):
        return a is b
    if isnum(a) and isnum(b):
        return numeq(a, b)
    if isinstance(a, str) and isinstance(b, str):
        return a == b
    if isinstance(a, list) and isinstance(b, list):
        return len(a) == len(b) and all(jeq(x, y, ordered) for x, y in zip(a, b))
    if isinstance(a, dict) and isinstance(b, dict):
        if ordered:
            if list(a.keys()) != list(b.keys()):
                return False
        elif a.keys() != b.keys():
            return False
        return all(jeq(a[k], b[k], ordered) for k in a)
    return a is None and b is None


def jdiff(a, b, path=()):
    """First difference (expected a, got b): (path, sub_a, sub_b, what) or None.
    what: 'value' | 'missing-key' | 'extra-key' | 'length'."""
    if jeq(a, b):
        return None
    if isinstance(a, list) and isinstance(b, list):
        for i, (x, y) in enumerate(zip(a, b)):
            d = jdiff(x, y, path + (i,))
            if d:
                return d
        return (path, a, b, "length")
    if isinstance(a, dict) and isinstance(b, dict):
        for k in a:
            if k not in b:
                return (path + (k,), a[k], b, "missing-key")
        for k in b:
            if k not in a:
                return (path + (k,), a, b[k], "extra-key")
        for k in a:
            d = jdiff(a[k], b[k], path + (k,))
            if d:
                return d
    return (path, a, b, "value")


_RX = [
    ("hex-int", re.compile(r"[-+]?0x[0-9a-fA-F]+")),
    ("octal-int", re.compile(r"[-+]?0o[0-7]+")),
    ("binary-int", re.compile(r"[-+]?0b[01]+")),
    ("dec-int", re.compile(r"[-+]?[0-9]+")),
    ("underscore-num", re.compile(r"[-+]?[0-9][0-9_]*")),
    ("float", re.compile(r"[-+]?(\.[0-9]+|[0-9]+(\.[0-9]*)?)([eE][-+]?[0-9]+)?")),
    ("inf-nan", re.compile(r"[-+]?\.(inf|Inf|INF)|\.(nan|NaN|NAN)")),
    ("bool-word", re.compile(r"true|True|TRUE|false|False|FALSE")),
    ("null-word", re.compile(r"null|Null|NULL|~")),
    ("yaml11-bool", re.compile(r"(?i:yes|no|on|off|y|n)")),
    ("date", re.compile(r"[0-9]{4}-[0-9]{2}-[0-9]{2}.*")),
    ("merge-key", re.compile(r"<<")),
    ("doc-marker", re.compile(r"---|\.\.\.")),
]
_FIRST = {"*": "alias-like", "&": "anchor-like", "!": "tag-like", "#": "comment-like", "|": "literal-indicator",
          ">": "folded-indicator", "%": "directive-like", "@": "reserved-at", "`": "reserved-backtick",
          "'": "single-quote-first", '"': "double-quote-first", "[": "flow-open-first", "{": "flow-open-first",
          "]": "flow-close-first", "}": "flow-close-first", ",": "comma-first", "=": "equals"}


def strclass(s):
    """One structural class per string (first match in a fixed order)."""
    if s == "":
        return "empty"
    if "\n" in s or "\r" in s:
        return "line-break"
    if "\t" in s:
        return "tab"
    if any(ord(c) < 0x20 or ord(c) == 0x7f for c in s):
        return "control"
    if any(c in "\x85\u2028\u2029\ufeff" for c in s):
        return "unicode-break"
    if s[0] == " ":
        return "lead-space"
    if s[-1] == " ":
        return "trail-space"
    for name, rx in _RX:
        if rx.fullmatch(s):
            return name
    if s[0] in "-?:" and (len(s) == 1 or s[1] == " "):
        return "block-indicator-" + {"-": "dash", "?": "question", ":": "colon"}[s[0]]
    if s[0] in _FIRST:
        return _FIRST[s[0]]
    if ": " in s:
        return "colon-space"
    if " #" in s:
        return "space-hash"
    if s[-1] == ":":
        return "trail-colon"
    if any(c in s for c in ",[]{}"):
        return "flow-indicator-inside"
    if any(c in s for c in "'\"\\"):
        return "quote-or-backslash-inside"
    if any(ord(c) > 0x7f for c in s):
        return "non-ascii"
    return "plain"


def vclass(v):
    if v is None:
        return "null"
    if isinstance(v, bool):
        return "bool"
    if isinstance(v, int):
        return "int"
    if isinstance(v, float):
        return "float"
    if isinstance(v, str):
        return "str(" + strclass(v) + ")"
    if isinstance(v, list):
        return "seq" if v else "empty-seq"
    if isinstance(v, dict):
        return "map" if v else "empty-map"
    if isinstance(v, tuple):
        return "map"
    return type(v).__name__


def slug(b, n=60):
    """Error line -> stable slug: first 'Error'/'error' line, digits and quoted text removed."""
    t = b.decode("utf8", "replace")
    line = ""
    for l in t.split("\n"):
        if l.strip():
            line = l.strip()
            break
    line = re.sub(r"'[^']*'|\"[^\"]*\"|`[^`]*`", "_", line)
    line = re.sub(r"[0-9]+", "N", line)
    line = re.sub(r"[^A-Za-z_N]+", "-", line).strip("-")
    return line[:n]


def short(b, n=300):
    return b.decode("utf8", "replace")[:n]


# ------------------------------------------------------------ partial reports --


class Part:
    """Picklable partial report produced by one shard."""

    def __init__(self):
        self.spaces = {}      # name -> [inputs, transitions, evaluations]
        self.fails = {}       # sig -> [count, size, example]
        self.distinct = set()
        self.samples = []
        self.info = {}        # counter name -> int
        self.jobsample = []   # (job, result) pairs for the batch/spawn equivalence self-test
        self.notes = set()

    def count(self, space, inputs=0, trans=0, evals=0):
        s = self.spaces.setdefault(space, [0, 0, 0])
        s[0] += inputs; s[1] += trans; s[2] += evals

    def fail(self, sig, size, example, n=1):
        f = self.fails.get(sig)
        if f is None:
            self.fails[sig] = [n, size, example]
        else:
            f[0] += n
            if size < f[1]:
                f[1] = size; f[2] = example

    def bump(self, k, n=1):
        self.info[k] = self.info.get(k, 0) + n

    def keep_jobs(self, jobs, results, n=6):
        if not jobs:
            return
        step = max(1, len(jobs) // n)
        for i in list(range(0, len(jobs), step))[:n]:
            if len(results[i][1]) < 200000:
                self.jobsample.append((jobs[i], results[i]))


def merge_parts(rep, parts, notes_for=None):
    """Fold shard parts into a batch.Report; returns (fails, info, jobsample)."""
    fails = {}; info = {}; jobsample = []
    for p in parts:
        for name, (i, t, e) in p.spaces.items():
            rep.space(name)
            rep.input(i); rep.trans(t); rep.evals(e)
        rep.distinct |= p.distinct
        for s in p.samples:
            rep.sample(s)
        for sig, (n, size, ex) in p.fails.items():
            f = fails.get(sig)
            if f is None:
                fails[sig] = [n, size, ex]
            else:
                f[0] += n
                if size < f[1]:
                    f[1] = size; f[2] = ex
        for k, v in p.info.items():
            info[k] = info.get(k, 0) + v
        jobsample += p.jobsample
        for n in p.notes:
            if n not in rep.notes:
                rep.notes.append(n)
    return fails, info, jobsample


def _call(args):
    fn, shard, extra = args
    try:
        return fn(shard, *extra)
    except common.Machinery as e:
        return ("MACHINERY", str(e))


def shard_run(fn, items, extra=(), nshards=None, nworkers=None):
    """Run fn(shard_items, *extra) -> Part over shards of items in forked workers."""
    batch.cli()  # build once, before forking
    nworkers = nworkers or min(16, common.nproc())
    nshards = nshards or max(1, min(len(items), nworkers * 3))
    shards = [items[i::nshards] for i in range(nshards)]
    shards = [s for s in shards if s]
    if nworkers == 1 or len(shards) == 1:
        out = [_call((fn, s, extra)) for s in shards]
    else:
        ctx = multiprocessing.get_context("fork")
        with ctx.Pool(min(nworkers, len(shards))) as pool:
            out = pool.map(_call, [(fn, s, extra) for s in shards], chunksize=1)
    for o in out:
        if isinstance(o, tuple) and o and o[0] == "MACHINERY":
            raise common.Machinery(o[1])
    return out


def run1(jobs, tag):
    """All jobs of one shard through one batch worker process."""
    return batch.runbatch(jobs, nproc=1, tag=tag)


def spawn_runner(argv, stdin):
    return batch.spawn(argv, stdin)


def selftest_sample(rep, jobsample, n=120):
    """batch/spawn equivalence over the job samples returned by the shards."""
    if not jobsample:
        return 0
    step = max(1, len(jobsample) // n)
    sel = jobsample[::step][:n]
    k = batch.selftest([j for j, _ in sel], [r for _, r in sel], n=len(sel))
    rep.traces_validated += k
    rep.extra["batch_jobs_confirmed_by_real_spawns"] = rep.extra.get("batch_jobs_confirmed_by_real_spawns", 0) + k
    return k


def confirm_and_report(rep, fails, rejudge):
    """Every signature's kept example is re-judged with real process spawns; it is reported only
    if the same signature comes back. A candidate that real processes do not reproduce means the
    batch hook and the executable disagree -> machinery error, never a verdict."""
    for sig, (n, size, ex) in sorted(fails.items()):
        sigs = rejudge(ex, spawn_runner)
        if sig not in sigs:
            raise common.Machinery(f"violation candidate {sig!r} not reproduced by real process spawns (got {sorted(sigs)!r}); example {json.dumps(ex, ensure_ascii=False)[:300]}")
        rep.fail(sig, size, ex)
        rep.failures[sig]["count"] = n
    rep.extra["signatures_confirmed_by_real_spawns"] = len(fails)


def replay(rep, ctx, rejudge):
    """Replay protocol: the recorded case is re-judged twice with real process spawns."""
    case = json.load(open(ctx["replay"]))["case"]
    rep.space("replay")
    a = rejudge(case, spawn_runner)
    b = rejudge(case, spawn_runner)
    rep.input(); rep.trans(2)
    if sorted(a) != sorted(b):
        raise common.Machinery(f"replay not deterministic: {sorted(a)} vs {sorted(b)}")
    for sig in sorted(a):
        rep.fail(sig, 0, case)
    return rep.to_json()


def hexs(b):
    return b.hex()


def unhex(s):
    return bytes.fromhex(s)
