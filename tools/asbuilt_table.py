#!/usr/bin/env python3
"""Markdown table: per property, kind / variants / measured counts of the last evidence."""
import json, os, sys
ROOT = os.path.dirname(os.path.dirname(os.path.abspath(__file__)))
sys.path.insert(0, os.path.join(ROOT, "py"))
import registry
print("| id | kind | builds / module | tier | states | transitions | distinct | exhaustive | known | wall s |")
print("|---|---|---|---|---|---|---|---|---|---|")
for pid in sorted(registry.CHECKS):
    s = registry.CHECKS[pid]
    b = ", ".join(sorted({v for (_, v, _) in s.get("bins", [])})) or "-"
    if s.get("module"):
        b += (" + " if b != "-" else "") + "py/" + s["module"] + ".py"
        b = b.replace("- + ", "")
    ev = os.path.join(ROOT, "evidence", pid + ".json")
    if os.path.exists(ev):
        e = json.load(open(ev)); c = e["coverage"]
        print(f"| {pid} | {s['kind']} | {b} | {e['tier']} | {c['states']:,} | {c['transitions']:,} | {c['distinct_nontrivial']:,} | {c.get('exhaustive')} | {len(c.get('known_findings_reproduced', []))} | {e['wall_s']:.0f} |")
    else:
        print(f"| {pid} | {s['kind']} | {b} | - | | | | | | |")
