"""C22 — `@csv` / `@dsv(d)` output reads back through `--input-dsv d`.

Space (exhaustive): arrays of length 1..3 over an 18-string alphabet (+ the
delimiter itself), length-20 arrays, and a scale family of long fields (lengths
around the 16/32/64/128-byte chunk sizes of the vectorised index builders) before,
after and between short fields, × `@csv` and `@dsv(d)` for every
printable ASCII delimiter d != '"'. Per delimiter one batch job formats all
arrays with -r, a second feeds those bytes to `--input-dsv d -c .`; rows must
equal the arrays. A mismatching batch is re-run array by array to localise and
each localised case is confirmed by real process spawns.
"""
import json
import batch, common

S = ["", "a", " ", "a b", ",", "\"", "\"\"", "a\"b", "\n", "\r", "\r\n", "a\nb", "é", "😀", "|", ";", "\t", "'"]


def arrays_for(d, tier):
    al = list(S)
    if d not in al:
        al.append(d)
    k = 9 if tier == "quick" else 12
    arrs = [[a] for a in al] + [[a, b] for a in al for b in al]
    arrs += [[a, b, c] for a in al[:k] for b in al[:k] for c in al[:k]]
    arrs += [[s] * 20 for s in al]
    if tier == "thorough":
        arrs += [[d, a, d] for a in al] + [[a + d + b] for a in al[:9] for b in al[:9]]
    # Scale family: rows longer than the 16/32/64-byte chunks of the vectorised DSV index builders, with long
    # stretches free of delimiter / quote / low bytes (a 64-byte block holding an odd number of quotes and nothing
    # else special is what a chunk-skipping engine gets wrong), placed before, after and between short fields.
    ns = (62, 63, 64, 70, 127, 193, 256, 300, 513) if tier == "quick" else (15, 16, 17, 31, 32, 33, 61, 62, 63, 64, 65, 66, 70, 126, 127, 128, 129, 130,
                                                                              190, 193, 200, 250, 255, 256, 257, 260, 300, 319, 320, 321, 400, 513, 1025)
    longs = ["a" * n for n in ns] + ["é" * 33, "a" * 62 + '"', 'a"' * 35, "a" * 63 + d, "a" * 70 + "\n" + "b" * 70]
    shorts = al[:k]
    arrs += [[L] for L in longs] + [[L, b] for L in longs for b in shorts] + [[b, L] for L in longs for b in shorts]
    arrs += [[L, M] for L in longs[:5] for M in longs[:5]] + [[b, L, c] for L in longs[:3] for b in shorts[:6] for c in shorts[:6]]
    return arrs


def prog(d, csv):
    return "@csv" if csv else "@dsv(%s)" % json.dumps(d)


def fmt_job(d, csv, arrs):
    inp = "\n".join(json.dumps(a, ensure_ascii=False) for a in arrs).encode()
    return (["jq", "-r", prog(d, csv)], inp)


def read_job(d, data):
    return (["jq", "--input-dsv", d, "-c", "."], data)


def one(d, csv, arr):
    """Format + read back one array with real processes. Returns (ok, detail)."""
    r1 = batch.spawn(*fmt_job(d, csv, [arr]))
    if r1[0] != "0":
        return False, {"stage": "format", "status": r1[0], "stderr": r1[2].decode("utf8", "replace")[:200]}
    r2 = batch.spawn(*read_job(d, r1[1]))
    if r2[0] != "0":
        return False, {"stage": "read", "status": r2[0], "line": r1[1].decode("utf8", "replace"), "stderr": r2[2].decode("utf8", "replace")[:200]}
    try:
        rows = [json.loads(l) for l in r2[1].decode().split("\n") if l]
    except Exception as e:  # noqa
        return False, {"stage": "parse", "stdout": r2[1].decode("utf8", "replace")[:200]}
    if rows != [arr]:
        return False, {"stage": "compare", "line": r1[1].decode("utf8", "replace"), "rows": rows}
    return True, None


def classify(arr, detail):
    feats = []
    joined = "".join(arr)
    if any(x == "" for x in arr): feats.append("empty-field")
    if "\n" in joined: feats.append("lf")
    if "\r" in joined: feats.append("cr")
    if '"' in joined: feats.append("quote")
    return detail["stage"] + ":" + ("+".join(feats) or "plain")


def run(ctx):
    tier = ctx["tier"]
    rep = batch.Report()
    if ctx["replay"]:
        case = json.load(open(ctx["replay"]))["case"]
        rep.space("replay")
        rep.input(); rep.trans(2)
        ok, detail = one(case["delim"], case.get("csv", False), case["array"])
        ok2, detail2 = one(case["delim"], case.get("csv", False), case["array"])
        if ok != ok2:
            raise common.Machinery("replay not deterministic")
        if not ok:
            rep.fail(case.get("signature_hint") or classify(case["array"], detail), 0, dict(case, detail=detail))
        return rep.to_json()
    delims = [(",", True)] + [(chr(c), False) for c in range(0x21, 0x7f) if chr(c) != '"']
    sets = {d: arrays_for(d, tier) for d, _ in delims}
    jobs = [fmt_job(d, csv, sets[d]) for d, csv in delims]
    res = batch.runbatch(jobs, tag="c22a")
    jobs2 = []
    for (d, csv), r in zip(delims, res):
        jobs2.append(read_job(d, r[1]) if r[0] == "0" else (["jq", "-n", "1"], b""))
    res2 = batch.runbatch(jobs2, tag="c22b")
    confirmed = batch.selftest(jobs + jobs2, res + res2, n=60)
    rep.traces_validated = confirmed
    rep.extra["batch_jobs_confirmed_by_real_spawns"] = confirmed
    suspects = []
    for (d, csv), r1, r2 in zip(delims, res, res2):
        name = "csv" if csv else "dsv"
        rep.space(name, True, "every array of the bounded family for every admissible delimiter")
        arrs = sets[d]
        rep.input(len(arrs)); rep.trans(2 * len(arrs))
        for a in arrs:
            rep.seen((d, tuple(a)))
        rows = None
        if r1[0] == "0" and r2[0] == "0":
            try:
                rows = [json.loads(l) for l in r2[1].decode().split("\n") if l]
            except Exception:  # noqa
                rows = None
        if rows != arrs:
            suspects.append((d, csv, arrs, (r1[0], r2[0])))
    # localise: one batch job per array (format, then read back) for every delimiter whose whole-set run mismatched;
    # candidates are then confirmed with real processes (three per signature)
    if suspects:
        idx = [(si, ai) for si, (d, csv, arrs, _) in enumerate(suspects) for ai in range(len(arrs))]
        j1 = [fmt_job(suspects[si][0], suspects[si][1], [suspects[si][2][ai]]) for si, ai in idx]
        o1 = batch.runbatch(j1, tag="c22c")
        j2 = [read_job(suspects[si][0], r[1]) if r[0] == "0" else (["jq", "-n", "1"], b"") for (si, ai), r in zip(idx, o1)]
        o2 = batch.runbatch(j2, tag="c22d")
        found = {si: 0 for si in range(len(suspects))}
        confirmed_per_sig = {}
        for (si, ai), a1, a2 in zip(idx, o1, o2):
            d, csv, arrs, _ = suspects[si]
            a = arrs[ai]
            ok = False
            if a1[0] == "0" and a2[0] == "0":
                try:
                    ok = [json.loads(l) for l in a2[1].decode().split("\n") if l] == [a]
                except Exception:  # noqa
                    ok = False
            if ok:
                continue
            name = "csv" if csv else "dsv"
            stage = "format" if a1[0] != "0" else "read" if a2[0] != "0" else "compare"
            detail = {"stage": stage, "status": [a1[0], a2[0]], "line": a1[1].decode("utf8", "replace")[:400], "stdout": a2[1].decode("utf8", "replace")[:400]}
            sig = f"{name}:{classify(a, detail)}" + (":long-field" if any(len(x.encode()) >= 60 for x in a) else "")
            if confirmed_per_sig.get(sig, 0) < 3:
                okr, dr = one(d, csv, a)
                confirmed_per_sig[sig] = confirmed_per_sig.get(sig, 0) + 1
                if okr:
                    rep.fail(f"{name}:batch-only-mismatch", 0, {"kind": "c22", "delim": d, "csv": csv, "array": a, "note": "batch result not reproduced by real processes", "detail": detail})
                    continue
                detail = dr
            found[si] += 1
            rep.fail(sig, sum(len(x) for x in a) + len(a), {"kind": "c22", "delim": d, "csv": csv, "array": a, "detail": detail, "signature_hint": sig})
        for si, (d, csv, arrs, st) in enumerate(suspects):
            if found[si] == 0:
                rep.fail(("csv" if csv else "dsv") + ":batch-only-mismatch", 0, {"kind": "c22", "delim": d, "csv": csv, "note": "whole-set mismatch not reproduced array by array", "status": list(st)})
    rep.sample({"delimiter": ";", "program": prog(";", False), "array": ["a;b", "", "x\"y"], "method": "format with -r, read back with --input-dsv"})
    rep.extra["delimiters"] = len(delims)
    return rep.to_json()
