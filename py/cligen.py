"""Shared helpers of the CLI-batch checks C11 / C15 / C26 / C27.

* strict JSON reading of CLI output (Python `json`, NaN/Infinity rejected), value comparison with
  numbers compared as doubles, first-difference location (`jdiff`) and value/string classes used by
  the classifiers (a signature names the *class* of the offending scalar, never the input);
* a sharded driver: the document list is cut into shards, every shard is processed by a forked
  worker (build jobs -> batch.runbatch -> judge) so that the Python side of the check is as
  parallel as the batch workers; workers return small picklable partial reports;
* confirmation of every reported signature's kept example by real process spawns, and the
  batch/spawn equivalence self-test over job samples taken from every shard.
"""
import json, multiprocessing, os, re, sys, time
import batch, common

sys.setrecursionlimit(20000)

# ------------------------------------------------------------------ JSON side --


class BadJson(Exception):
    pass


def _no_const(x):
    raise ValueError("non-JSON constant " + x)


def jloads(text, pairs=False):
    """Strict JSON -> Python value. pairs=True keeps objects as ('O', [(k, v), ...]) so that
    duplicate keys and textual key order stay visible."""
    try:
        if pairs:
            return json.loads(text, object_pairs_hook=lambda p: ("O", p), parse_constant=_no_const)
        return json.loads(text, parse_constant=_no_const)
    except (ValueError, RecursionError) as e:
        raise BadJson(str(e)[:80])


def jlines(b, pairs=False):
    """Values of a JSON-lines output (one compact value per line)."""
    try:
        t = b.decode("utf8")
    except UnicodeDecodeError as e:
        raise BadJson("not utf-8")
    return [jloads(l, pairs) for l in t.split("\n") if l.strip()]


def isnum(v):
    return isinstance(v, (int, float)) and not isinstance(v, bool)


def numeq(a, b):
    try:
        return float(a) == float(b)
    except OverflowError:
        return a == b


def jeq(a, b, ordered=False):
    """Equality of JSON values: numbers as doubles, everything else by type and content."""
    if isinstance(a, bool) or isinstance(b, bool):
        return a is b
    if isnum(a) and isnum(b):
        return numeq(a, b)
    if isinstance(a, str) and isinstance(b, str):
        return a == b
    if isinstance(a, list) and isinstance(b, list):
        return len(a) == len(b) and all(jeq(x, y, ordered) for x, y in zip(a, b))
    if isinstance(a, dict) and isinstance(b, dict):
        if ordered:
            if list(a.keys()) != list(b.keys()):
                return False
        elif a.keys() != b.keys():
            return False
        return all(jeq(a[k], b[k], ordered) for k in a)
    return a is None and b is None


def jdiff(a, b, path=()):
    """First difference (expected a, got b): (path, sub_a, sub_b, what) or None.
    what: 'value' | 'missing-key' | 'extra-key' | 'length'."""
    if jeq(a, b):
        return None
    if isinstance(a, list) and isinstance(b, list):
        for i, (x, y) in enumerate(zip(a, b)):
            d = jdiff(x, y, path + (i,))
            if d:
                return d
        return (path, a, b, "length")
    if isinstance(a, dict) and isinstance(b, dict):
        for k in a:
            if k not in b:
                return (path + (k,), a[k], b, "missing-key")
        for k in b:
            if k not in a:
                return (path + (k,), a, b[k], "extra-key")
        for k in a:
            d = jdiff(a[k], b[k], path + (k,))
            if d:
                return d
    return (path, a, b, "value")


_RX = [
    ("hex-int", re.compile(r"[-+]?0x[0-9a-fA-F]+")),
    ("octal-int", re.compile(r"[-+]?0o[0-7]+")),
    ("binary-int", re.compile(r"[-+]?0b[01]+")),
    ("dec-int", re.compile(r"[-+]?[0-9]+")),
    ("underscore-num", re.compile(r"[-+]?[0-9][0-9_]*")),
    ("float", re.compile(r"[-+]?(\.[0-9]+|[0-9]+(\.[0-9]*)?)([eE][-+]?[0-9]+)?")),
    ("inf-nan", re.compile(r"[-+]?\.(inf|Inf|INF)|\.(nan|NaN|NAN)")),
    ("bool-word", re.compile(r"true|True|TRUE|false|False|FALSE")),
    ("null-word", re.compile(r"null|Null|NULL|~")),
    ("yaml11-bool", re.compile(r"(?i:yes|no|on|off|y|n)")),
    ("date", re.compile(r"[0-9]{4}-[0-9]{2}-[0-9]{2}.*")),
    ("merge-key", re.compile(r"<<")),
    ("doc-marker", re.compile(r"---|\.\.\.")),
]
_FIRST = {"*": "alias-like", "&": "anchor-like", "!": "tag-like", "#": "comment-like", "|": "literal-indicator",
          ">": "folded-indicator", "%": "directive-like", "@": "reserved-at", "`": "reserved-backtick",
          "'": "single-quote-first", '"': "double-quote-first", "[": "flow-open-first", "{": "flow-open-first",
          "]": "flow-close-first", "}": "flow-close-first", ",": "comma-first", "=": "equals"}


def strclass(s):
    """One structural class per string (first match in a fixed order)."""
    if s == "":
        return "empty"
    if "\n" in s or "\r" in s:
        return "line-break"
    if "\t" in s:
        return "tab"
    if any(ord(c) < 0x20 or ord(c) == 0x7f for c in s):
        return "control"
    if any(c in "\x85\u2028\u2029\ufeff" for c in s):
        return "unicode-break"
    if s[0] == " ":
        return "lead-space"
    if s[-1] == " ":
        return "trail-space"
    for name, rx in _RX:
        if rx.fullmatch(s):
            return name
    if s[0] in "-?:" and (len(s) == 1 or s[1] == " "):
        return "block-indicator-" + {"-": "dash", "?": "question", ":": "colon"}[s[0]]
    if s[0] in _FIRST:
        return _FIRST[s[0]]
    if ": " in s:
        return "colon-space"
    if " #" in s:
        return "space-hash"
    if s[-1] == ":":
        return "trail-colon"
    if any(c in s for c in ",[]{}"):
        return "flow-indicator-inside"
    if any(c in s for c in "'\"\\"):
        return "quote-or-backslash-inside"
    if any(ord(c) > 0x7f for c in s):
        return "non-ascii"
    return "plain"


def vclass(v):
    if v is None:
        return "null"
    if isinstance(v, bool):
        return "bool"
    if isinstance(v, int):
        return "int"
    if isinstance(v, float):
        return "float"
    if isinstance(v, str):
        return "str(" + strclass(v) + ")"
    if isinstance(v, list):
        return "seq" if v else "empty-seq"
    if isinstance(v, dict):
        return "map" if v else "empty-map"
    if isinstance(v, tuple):
        return "map"
    return type(v).__name__


def slug(b, n=60):
    """Error line -> stable slug: first 'Error'/'error' line, digits and quoted text removed."""
    t = b.decode("utf8", "replace")
    line = ""
    for l in t.split("\n"):
        if l.strip():
            line = l.strip()
            break
    line = re.sub(r"'[^']*'|\"[^\"]*\"|`[^`]*`", "_", line)
    line = re.sub(r"[0-9]+", "N", line)
    line = re.sub(r"[^A-Za-z_N]+", "-", line).strip("-")
    return line[:n]


def short(b, n=300):
    return b.decode("utf8", "replace")[:n]


# ------------------------------------------------------------ partial reports --


class Part:
    """Picklable partial report produced by one shard."""

    def __init__(self):
        self.spaces = {}      # name -> [inputs, transitions, evaluations]
        self.fails = {}       # sig -> [count, size, example]
        self.distinct = set()
        self.samples = []
        self.info = {}        # counter name -> int
        self.jobsample = []   # (job, result) pairs for the batch/spawn equivalence self-test
        self.notes = set()

    def count(self, space, inputs=0, trans=0, evals=0):
        s = self.spaces.setdefault(space, [0, 0, 0])
        s[0] += inputs; s[1] += trans; s[2] += evals

    def fail(self, sig, size, example, n=1):
        f = self.fails.get(sig)
        if f is None:
            self.fails[sig] = [n, size, example]
        else:
            f[0] += n
            if size < f[1]:
                f[1] = size; f[2] = example

    def bump(self, k, n=1):
        self.info[k] = self.info.get(k, 0) + n

    def keep_jobs(self, jobs, results, n=6):
        if not jobs:
            return
        step = max(1, len(jobs) // n)
        for i in list(range(0, len(jobs), step))[:n]:
            if len(results[i][1]) < 200000:
                self.jobsample.append((jobs[i], results[i]))


def merge_parts(rep, parts, notes_for=None):
    """Fold shard parts into a batch.Report; returns (fails, info, jobsample)."""
    fails = {}; info = {}; jobsample = []
    for p in parts:
        for name, (i, t, e) in p.spaces.items():
            rep.space(name)
            rep.input(i); rep.trans(t); rep.evals(e)
        rep.distinct |= p.distinct
        for s in p.samples:
            rep.sample(s)
        for sig, (n, size, ex) in p.fails.items():
            f = fails.get(sig)
            if f is None:
                fails[sig] = [n, size, ex]
            else:
                f[0] += n
                if size < f[1]:
                    f[1] = size; f[2] = ex
        for k, v in p.info.items():
            info[k] = info.get(k, 0) + v
        jobsample += p.jobsample
        for n in p.notes:
            if n not in rep.notes:
                rep.notes.append(n)
    return fails, info, jobsample


def _call(args):
    fn, shard, extra = args
    try:
        return fn(shard, *extra)
    except common.Machinery as e:
        return ("MACHINERY", str(e))


def shard_run(fn, items, extra=(), nshards=None, nworkers=None):
    """Run fn(shard_items, *extra) -> Part over shards of items in forked workers."""
    batch.cli()  # build once, before forking
    nworkers = nworkers or min(16, common.nproc())
    nshards = nshards or max(1, min(len(items), nworkers * 3))
    shards = [items[i::nshards] for i in range(nshards)]
    shards = [s for s in shards if s]
    if nworkers == 1 or len(shards) == 1:
        out = [_call((fn, s, extra)) for s in shards]
    else:
        ctx = multiprocessing.get_context("fork")
        with ctx.Pool(min(nworkers, len(shards))) as pool:
            out = pool.map(_call, [(fn, s, extra) for s in shards], chunksize=1)
    for o in out:
        if isinstance(o, tuple) and o and o[0] == "MACHINERY":
            raise common.Machinery(o[1])
    return out


def run1(jobs, tag):
    """All jobs of one shard through one batch worker process."""
    return batch.runbatch(jobs, nproc=1, tag=tag)


def spawn_runner(argv, stdin):
    return batch.spawn(argv, stdin)


def selftest_sample(rep, jobsample, n=120):
    """batch/spawn equivalence over the job samples returned by the shards."""
    if not jobsample:
        return 0
    step = max(1, len(jobsample) // n)
    sel = jobsample[::step][:n]
    k = batch.selftest([j for j, _ in sel], [r for _, r in sel], n=len(sel))
    rep.traces_validated += k
    rep.extra["batch_jobs_confirmed_by_real_spawns"] = rep.extra.get("batch_jobs_confirmed_by_real_spawns", 0) + k
    return k


def confirm_and_report(rep, fails, rejudge):
    """Every signature's kept example is re-judged with real process spawns; it is reported only
    if the same signature comes back. A candidate that real processes do not reproduce means the
    batch hook and the executable disagree -> machinery error, never a verdict."""
    from concurrent.futures import ThreadPoolExecutor
    items = sorted(fails.items())
    with ThreadPoolExecutor(8) as pool:      # spawns are slow under load; a few in flight keeps confirmation time bounded
        results = list(pool.map(lambda it: rejudge(it[1][2], spawn_runner), items))
    for (sig, (n, size, ex)), sigs in zip(items, results):
        if sig not in sigs:
            raise common.Machinery(f"violation candidate {sig!r} not reproduced by real process spawns (got {sorted(sigs)!r}); example {json.dumps(ex, ensure_ascii=False)[:300]}")
        rep.fail(sig, size, ex)
        rep.failures[sig]["count"] = n
    rep.extra["signatures_confirmed_by_real_spawns"] = len(fails)


def replay(rep, ctx, rejudge):
    """Replay protocol: the recorded case is re-judged twice with real process spawns."""
    try:
        case = json.load(open(ctx["replay"]))["case"]
    except (OSError, ValueError, KeyError) as e:
        raise common.Machinery(f"cannot read replay file {ctx['replay']}: {e}")
    rep.space("replay")
    a = rejudge(case, spawn_runner)
    b = rejudge(case, spawn_runner)
    rep.input(); rep.trans(2)
    if sorted(a) != sorted(b):
        raise common.Machinery(f"replay not deterministic: {sorted(a)} vs {sorted(b)}")
    for sig in sorted(a):
        rep.fail(sig, 0, case)
    return rep.to_json()


def hexs(b):
    return b.hex()


def unhex(s):
    return bytes.fromhex(s)


# ---------------------------------------------------------------- YAML corpus --

import ygen

YSTR = ["a", "a b", "", " a", "a ", "a: b", "- a", "#a", "a #b", "true", "null", "~", "12", "0x1F", "0o7", "1e3", "yes", "no",
        "é", "😀", "a\nb", "a\n", "a\n\n", "a\n b", " a\nb", "a\n\nb", "\ta", "x\x01y", "x\x85y", "x\u2028y", "'", "\"", "\\",
        "a'b\"c", "C:\\x", "*a", "&a", "!a", "[a]", "{a}", "a,b", "a, b", "a]", "|", ">", "%a", "@a", "`a", "---", "...", "-", "?",
        ":", "a:", "? a", "1.5", ".5", "+1", "-0", "1_000", "0b1", "TRUE", "Null", ".inf", ".NaN", "2001-01-01", "<<", "=",
        "x" * 90]
YSTR_QUICK = ["a", "a b", "", " a", "a: b", "- a", "#a", "true", "~", "12", "0x1F", "é", "😀", "a\nb", "a\n", "\ta", "x\x01y", "x\x85y",
              "'", "\"", "*a", "[a]", "a,b", "|", "%a", "---"]
YKEYS = ["k", "a b", "", "true", "null", "~", "12", "0x1F", "a: b", "é", "- a", "#a", "a #b", "'", "k\"", "*a", "&a", "!a", "? a", "a\nb",
         " a", "a ", "[a]", "{a}", "a,b", "|", ">", "%a", "@a", "`a", "-", "?", "a:", "---", "<<", "1.5", "a\tb", "\\"]
YKEYS_QUICK = ["k", "a b", "", "true", "12", "a: b", "é", "- a", "#a", "'", "*a", "a\nb", " a", "a ", "[a]", "a,b", "|", "%a", "@a", "-", "<<"]


def yleaves(quick, strs=None):
    ls = [("str", s) for s in (strs if strs is not None else YSTR_QUICK if quick else YSTR)]
    ls += [("int", 0), ("int", 7), ("int", -3), ("int", 123456789), ("bool", True), ("bool", False), ("null",)]
    return ls


def _lines(ls, brk="\n"):
    return (brk.join(ls) + brk).encode("utf8")


def ydocs_single(quick, strs=None):
    """presentations of a single leaf: as root, under key k, as sequence item, in flow collections.
    -> (text, value, tag, canonical?)  canonical = the first (double-quoted / decimal) presentation of that shape"""
    out = []
    for leaf in yleaves(quick, strs):
        py = ygen.to_py(leaf)
        vforms = ygen.inline_scalar_forms(leaf, "blockval")
        fforms = ygen.inline_scalar_forms(leaf, "flow")
        blocks = ygen.block_scalar_forms(leaf[1]) if leaf[0] == "str" else []
        if quick:
            blocks = blocks[:2]
        for i, f in enumerate(fforms if not quick else [fforms[0], fforms[-1]]):
            out.append((_lines([f]), py, "root-scalar", i == 0))
        for hdr, lines, chomp in blocks:
            # content indented by 2: with unindented content (`--- |-\na`) the loader reports two documents — a loader matter (C14), kept out of here
            out.append((_lines(["--- " + hdr.replace("%IND%", "2")] + [("  " + l if l else "") for l in lines]), py, "root-block-scalar", False))
        # under a key: every value form with a plain key; every key form with the first value form; one comment; explicit key
        for i, f in enumerate(vforms):
            out.append((_lines(["k:" + (" " + f if f else "")]), {"k": py}, "map1", i == 0))
        for hdr, lines, chomp in blocks:
            out.append((_lines(["k: " + hdr.replace("%IND%", "2")] + [("  " + l if l else "") for l in lines]), {"k": py}, "map1", False))
        for kf in ygen.key_forms("k")[:2]:
            out.append((_lines([kf + ": " + vforms[0]]), {"k": py}, "map1", False))
        out.append((_lines(["? k", ": " + fforms[0]]), {"k": py}, "map1", False))
        out.append((_lines(["k: " + vforms[-1 if vforms[-1] else 0] + " # c"]), {"k": py}, "map1", False))
        # sequence item
        for i, f in enumerate(vforms if not quick else [vforms[0], vforms[-1]]):
            out.append((_lines(["-" + (" " + f if f else "")]), [py], "seq1", i == 0))
        for hdr, lines, chomp in blocks:
            out.append((_lines(["- " + hdr.replace("%IND%", "2")] + [("  " + l if l else "") for l in lines]), [py], "seq1", False))
        # flow collections
        for i, f in enumerate(fforms if not quick else [fforms[0], fforms[-1]]):
            out.append((_lines(["{k: [" + f + "]}"]), {"k": [py]}, "flow1", i == 0))
            out.append((_lines(["[{k: " + f + "}]"]), [{"k": py}], "flow1", i == 0))
    return out


YSMALL = [("str", "a"), ("str", "a: b"), ("int", 7), ("null",), ("str", "x\ny\n"), ("bool", True)]


def ytrees2(quick):
    small = [YSMALL[0], YSMALL[2], YSMALL[3]] if quick else YSMALL
    ts = []
    for a in small:
        for b in small:
            ts += [("map", [("k", a), ("j", b)]), ("seq", [a, b]), ("map", [("k", ("seq", [a, b]))]),
                   ("map", [("k", ("map", [("j", a), ("i", b)]))]), ("seq", [("map", [("k", a), ("j", b)]), a]),
                   ("seq", [("seq", [a]), b]), ("map", [("k", ("map", [("j", a)])), ("a", b)]),
                   ("map", [("a", a), ("k", ("seq", [("map", [("j", b)])]))])]
    ts += [("map", []), ("seq", []), ("map", [("a", ("map", [])), ("k", ("seq", []))]), ("seq", [("seq", []), ("map", [])])]
    return ts


def _last(it):
    x = None
    for x in it:
        pass
    return x


def ydocs_trees(quick):
    """two-leaf trees: first (double-quoted) and last (plainest) block presentation, first and last flow form;
    thorough adds indentation 4, CRLF, document markers, a leading comment"""
    out = []
    for t in ytrees2(quick):
        py = ygen.to_py(t)
        first = next(ygen.block(t, 0))
        variants = [_lines(first), _lines([ygen.flow(t)[0]])]
        if not quick:
            variants += [_lines([ygen.flow(t)[-1]]), _lines(_last(ygen.block(t, 0))), _lines(next(ygen.block(t, 0, 4))),
                         _lines(["---"] + first + ["..."]), _lines(first, "\r\n"), _lines(["# lead", ""] + first)]
        seen = set()
        for i, d in enumerate(variants):
            if d not in seen:
                seen.add(d); out.append((d, py, "tree2", i == 0))
    return out


def ydocs_keys(quick, keys=None):
    out = []
    for k in (keys if keys is not None else YKEYS_QUICK if quick else YKEYS):
        t = ("map", [(k, ("int", 1)), ("z", ("str", "v"))])
        py = ygen.to_py(t)
        seen = set()
        for i, kf in enumerate(ygen.key_forms(k)):
            for j, d in enumerate((_lines([kf + ": 1", "z: v"]), _lines(["{" + kf + ": 1, z: v}"]), _lines(["? " + kf, ": 1", "z: v"]))):
                if quick and (i, j) not in ((0, 0), (0, 1)) and not (j == 0 and i == len(ygen.key_forms(k)) - 1):
                    continue
                if d not in seen:
                    seen.add(d); out.append((d, py, "keys", i == 0 and j == 0))
    return out


YHAND = [
    (b"a: &x 1\nb: *x\n", "anchor"),
    (b"a: &x\n  k: 1\n  j: [1, 2]\nb: *x\nc:\n  - *x\n", "anchor"),
    (b"base: &b {p: 1, q: 2}\nd:\n  <<: *b\n  r: 3\n", "merge"),
    (b"a: &x hello\nb: *x\nc: [*x, *x]\n", "anchor"),
    (b"- &a [1, 2]\n- *a\n- k: *a\n", "anchor"),
    (b"k: &x 'q'\n# comment\nj: *x # t\n", "anchor"),
    (b"a: &x [1]\nb:\n  c: *x\n  d: &y {e: *x}\n  f: *y\n", "anchor"),
    (b"k: &x\n  j: 1\na: *x\n", "anchor"),
    (b"- &x a\n- *x\n", "anchor"),
    (b"k: &x {j: 1}\na: {<<: *x, i: 2}\n", "merge"),
    # an anchor nested inside another anchored container, aliases to both: a write through the outer alias makes
    # the expanded copy (which carries its own copy of the inner anchor mark) differ from the original
    (b"a: &x {p: &y 1}\nb: *x\nc: *y\n", "nested-anchor"),
    (b"a: &x\n  p: &y 1\n  q: *y\nb: *x\nc: *y\n", "nested-anchor"),
    (b"- &x {p: &y [1]}\n- *x\n- *y\n", "nested-anchor"),
    (b"l:\n  - &x {p: &y 1}\n  - *x\nc: *y\n", "nested-anchor"),
    (b"a: &x {p: &y {r: &z 1}}\nb: *x\nc: *y\nd: *z\n", "nested-anchor"),
    (b"a: |\n  l1\n  l2\nb: >-\n  f1\n  f2\n# c\nc: 'x: y'\n", "block-scalar"),
    (b"k: |+\n  a\n\nj: |-\n  a\na: >\n  x\n  y\n\n  z\n", "block-scalar"),
    (b"- |\n  a\n  b\n- >-\n  c\n  d\n", "block-scalar"),
    (b"k:\n  j: |2\n     x\n    y\n", "block-scalar"),
    (b"---\na: 1\n---\nb: &z {k: v}\nc: *z\n", "multi-doc"),
    (b"a: 1\n---\nk: 2\n...\n---\n- 3\n", "multi-doc"),
    (b"--- 1\n--- a\n", "multi-doc"),
    (b"# head\nk: 1 # one\n# mid\na: # akey\n  - x # ix\n  # inner\n  - y\n# tail\n", "comments"),
    (b"k:   1\na:    [ 1 ,  2 ]\nj:  {  x :  1  }\n", "spacing"),
    (b"k:\n- 1\n- 2\na:\n    j: 1\n    i:\n        - x\n", "indentation"),
    (b"- - 1\n  - 2\n- - k: 1\n    j: 2\n", "compact-nesting"),
    (b"? k\n: 1\n? [a, b]\n: 2\n", "explicit-key"),
    (b"k: !!str 12\na: !!int '7'\nj: !custom x\n", "tags"),
    (b"k: \"a\\\n  b\"\na: 'x\n  y'\nj: p\n  q\n", "multi-line-flow-scalar"),
    (b"k: [1, [2, {j: 3}], {a: [4]}]\na: {j: {i: [5, 6]}}\n", "nested-flow"),
    (b"{k: 1,\n a: [1,\n  2],\n j: x}\n", "multi-line-flow"),
    (b"k: 0x1F\na: 0o17\nj: 1e3\ni: .5\nm: -0\nn: +1\no: 1_000\n", "numbers"),
    (b"k: 1.0\na: 1.50\nj: 1E3\ni: -0.0\nm: 100000000000000000000\nn: .inf\n", "numbers"),
    (b"k: ~\na: Null\nj:\ni: NULL\n- x\n", "invalid-mix"),
    (b"k: True\na: FALSE\nj: yes\ni: No\n", "bools"),
    (b"k: 'a\tb'\na: x\ty\nj: |\n  p\tq\ni: \"c\\td\"\n", "interior-tab"),
    (b"- 'it''s'\n- \"q\\\"d\"\n- a\\b\n- 'a\\b'\n", "quote-escapes"),
    (b"k: 1\r\na:\r\n  - x\r\n", "crlf"),
    (b"\xef\xbb\xbfk: 1\n", "bom"),
    (b"k: 1", "no-final-newline"),
    (b"", "empty"),
    (b"# only a comment\n", "empty"),
    (b"---\n", "empty"),
]
YDUP = [(b"a: 1\na: 2\n", "dup-keys"), (b"k: {j: 1, j: 2}\na: 3\nk: 4\n", "dup-keys"), (b"- {a: 1, a: 2}\n- k: 1\n  k: [2]\n", "dup-keys"),
        (b"{\"a\": 1, a: 2, 'a': 3}\n", "dup-keys"), (b"k: 1\nj: 2\nk:\n  j: 3\n", "dup-keys")]


def ycorpus(tier, parts=("single", "trees", "keys", "hand"), strs=None, keys=None):
    """-> list of (text bytes, expected py value or None, tag, canonical presentation?)"""
    quick = tier == "quick"
    out = []
    if "single" in parts:
        out += ydocs_single(quick, strs)
    if "trees" in parts:
        out += ydocs_trees(quick)
    if "keys" in parts:
        out += ydocs_keys(quick, keys)
    if "hand" in parts:
        out += [(d, None, t, True) for d, t in YHAND]
    seen = set(); res = []
    for d in out:
        if d[0] not in seen:
            seen.add(d[0]); res.append(d)
    return res


# ------------------------------------------------ memoising runner / bulk judging --

class Need(Exception):
    pass


class MemoRunner:
    """runner(argv, stdin) -> result from the batch results gathered so far; unknown jobs are queued and Need is raised,
    so a judge can be written once against `runner` and used both in bulk (batch) and in replay (real spawns)."""

    def __init__(self):
        self.res = {}
        self.missing = {}
        self.njobs = 0

    def fill(self, jobs, results):
        for (argv, stdin), r in zip(jobs, results):
            self.res[(tuple(argv), stdin)] = r

    def many(self, jobs):
        out = []; miss = False
        for argv, stdin in jobs:
            k = (tuple(argv), stdin)
            r = self.res.get(k)
            if r is None:
                self.missing[k] = None; miss = True
            out.append(r)
        if miss:
            raise Need()
        return out

    def __call__(self, argv, stdin):
        return self.many([(argv, stdin)])[0]


class SpawnRunner:
    """The same interface backed by real process spawns (confirmation and replay)."""

    def __init__(self):
        self.res = {}

    def many(self, jobs):
        out = []
        for argv, stdin in jobs:
            k = (tuple(argv), stdin)
            if k not in self.res:
                self.res[k] = batch.spawn(list(argv), stdin)
            out.append(self.res[k])
        return out

    def __call__(self, argv, stdin):
        return self.many([(argv, stdin)])[0]


def bulk_judge(cases, jobs_of, judge, tag, part, rounds=5):
    """Run every primary job of every case through the batch hook, judge each case; jobs a judge asks for that were
    not primary (reload phases) are batched in further rounds. -> {case index: judge result}"""
    memo = MemoRunner()
    jobs = []; seen = set()
    for c in cases:
        for argv, stdin in jobs_of(c):
            k = (tuple(argv), stdin)
            if k not in seen:
                seen.add(k); jobs.append((list(argv), stdin))
    res = run1(jobs, tag)
    memo.fill(jobs, res)
    part.keep_jobs(jobs, res, 4)
    njobs = len(jobs)
    verdicts = {}
    pending = list(range(len(cases)))
    for rnd in range(rounds):
        memo.missing = {}
        nxt = []
        for i in pending:
            try:
                verdicts[i] = judge(cases[i], memo)
            except Need:
                nxt.append(i)
        if not nxt:
            break
        more = [(list(a), s) for (a, s) in memo.missing]
        r2 = run1(more, tag + "r%d" % rnd)
        memo.fill(more, r2)
        part.keep_jobs(more, r2, 2)
        njobs += len(more)
        pending = nxt
    else:
        raise common.Machinery("bulk_judge: judges kept asking for new jobs")
    return verdicts, njobs


def confirm_and_report_sets(rep, fails, rejudge):
    """rejudge(example, SpawnRunner()) -> set of signatures; see confirm_and_report."""
    confirm_and_report(rep, fails, lambda ex, _r: rejudge(ex, SpawnRunner()))


def replay_sets(rep, ctx, rejudge):
    return replay(rep, ctx, lambda ex, _r: rejudge(ex, SpawnRunner()))
