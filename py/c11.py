"""C11 — `succinctly jq .` output of every valid JSON document reads back to the input's value.

Space (exhaustive within the alphabets below, no sampling):
  documents  D = scalars (every number / string spelling alone, in an array, in an object)
               ∪ objects over every ordered pair (and triples of a sub-alphabet) of the key
                 alphabet (duplicates, escaped duplicates, code-point vs UTF-16 order witnesses)
               ∪ J(n): every tree with <= n nodes over {1,"a"} leaves, keys up to renaming
               ∪ whitespace family ∪ nesting families on both sides of the limit the CLI reports
  options    O = {default,-c,--tab,--indent 0..7} x {-S} x {-a} x {none,-r,-j,--raw-output0}
                 x {--seq} x {route: plain | --arg zz 1}                       (704 combinations)
Every (document, option combination) is one CLI job through the batch hook.
(In jq mode `--arg zz 1` is substituted into the program and does not by itself change the printing
route; the three printers — raw identity / lazy cursor printer / materialised printer — are reached
through the option combinations: plain `.`, `-S`, `-a`, `--seq` select different ones.)

Oracle: Python `json` (NaN/Infinity rejected, object_pairs_hook) on stdout after removing the
framing the options ask for; value == generator value under jq's duplicate rule (first position,
last value; numbers as doubles; strings identical); textual key order == expected order, with -S
non-decreasing by code point at every object; no duplicate key printed; -a output pure ASCII;
raw output of a string root is the string. Above the nesting limit a reported error naming the
limit is the accepted answer. An additional observation (own signature prefix `layout:`) checks
that the chosen indentation unit / compactness is what the line structure of the output shows.
"""
import json, re
import batch, common, cligen
from cligen import Part, jloads, BadJson, jeq, jdiff, vclass

# ---------------------------------------------------------------- documents --

NUMS = ["0", "-0", "1", "-1", "10", "1.5", "0.10", "1e2", "1E+2", "-1.5e-3", "1e-7", "0.0", "-0.0", "1.0",
        "100000000000000000000", "9007199254740993", "123456789012345678901234567890", "1.7976931348623157e308",
        "5e-324", "1e1000", "-1e1000", "1e-400", "0e10", "3.141592653589793238462643383279"]
LITS = [("null", None), ("true", True), ("false", False)]
STRS = [('""', ''), ('"a"', 'a'), ('" a "', ' a '), ('"\\""', '"'), ('"\\\\"', '\\'), ('"\\/"', '/'),
        ('"\\b\\f\\n\\r\\t"', '\b\f\n\r\t'), ('"\\u0041"', 'A'), ('"\\u00e9"', 'é'), ('"\\ud83d\\ude00"', '😀'),
        ('"é"', 'é'), ('"😀"', '😀'), ('"a\\u0000b"', 'a\x00b'), ('"\\u007f"', '\x7f'), ('"\x7f"', '\x7f'),
        ('"\\u001f"', '\x1f'), ('"\\uffff"', '\uffff'), ('"\\u2028"', '\u2028'), ('"\\ud7ff\\ue000"', '\ud7ff\ue000'),
        ('"' + 'x' * 70 + '"', 'x' * 70), ('"' + 'é' * 65 + '"', 'é' * 65), ('"</script>"', '</script>'),
        # escaped surrogate pairs outside plane 1 (plane 1 = emoji is what every test corpus uses): an even plane,
        # the last plane, the first and last code point reachable by a pair, and the same characters unescaped
        ('"\\ud840\\udc0b"', '\U0002000b'), ('"\\ud869\\uded6"', '\U0002a6d6'), ('"\\udbff\\udffd"', '\U0010fffd'),
        ('"\\ud800\\udc00"', '\U00010000'), ('"\\udbff\\udfff"', '\U0010ffff'), ('"\\uD87E\\uDC04x"', '\U0002f804x'),
        ('"\U0002000b"', '\U0002000b'), ('"\U0010fffd"', '\U0010fffd')]
KEYS = [('"a"', 'a'), ('"b"', 'b'), ('""', ''), ('"a b"', 'a b'), ('"\\u0061"', 'a'), ('"1x"', '1x'), ('"é"', 'é'),
        ('"a\\"b"', 'a"b'), ('"a.b"', 'a.b'), ('"A"', 'A'), ('"ab"', 'ab'), ('"～"', '～'), ('"😀"', '😀'),
        ('"\\uff5e"', '～'), ('"\\ud83d\\ude00"', '😀'), ('"a\\u0000"', 'a\x00'), ('"\\ue000"', '\ue000'),
        ('"\\ud840\\udc0b"', '\U0002000b'), ('"\\udbff\\udffd"', '\U0010fffd')]


def S(src, val):
    return ("s", src, val)


def num(src):
    f = float(src)
    if re.fullmatch(r"-?[0-9]+", src):
        return S(src, int(src))
    return S(src, f)


def render(n, ws=""):
    if n[0] == "s":
        return n[1]
    if n[0] == "a":
        return "[" + ws + ("," + ws).join(render(k, ws) for k in n[1]) + ws + "]" if n[1] else "[" + ws + "]"
    return "{" + ws + ("," + ws).join(k[0] + ws + ":" + ws + render(v, ws) for k, v in n[1]) + ws + "}" if n[1] else "{" + ws + "}"


def value(n):
    """Expected value under jq's duplicate-key rule: first position, last value."""
    if n[0] == "s":
        return n[2]
    if n[0] == "a":
        return [value(k) for k in n[1]]
    d = {}
    for k, v in n[1]:
        d[k[1]] = value(v)
    return d


def level(n, l=0):
    if n[0] == "s" or not n[1]:
        return l
    if n[0] == "a":
        return max(level(k, l + 1) for k in n[1])
    return max(level(v, l + 1) for _, v in n[1])


def nest(shape, depth, leaf):
    """depth containers around leaf; built iteratively, rendered iteratively (no recursion)."""
    open_, close = [], []
    for i in range(depth):
        obj = shape == "obj" or (shape == "mixed" and i % 2 == 1)
        open_.append('{"a":' if obj else "[")
        close.append("}" if obj else "]")
    text = "".join(open_) + leaf[0] + "".join(reversed(close))
    v = leaf[1]
    for i in reversed(range(depth)):
        obj = shape == "obj" or (shape == "mixed" and i % 2 == 1)
        v = {"a": v} if obj else [v]
    return text, v, depth   # a scalar or empty container inside `depth` containers sits at level `depth`


def restricted_growth(n):
    """key sequences up to renaming: a, aa ab, aaa aab aba abb abc, ..."""
    out = [[0]]
    for _ in range(n - 1):
        out = [s + [k] for s in out for k in range(max(s) + 2)]
    return out if n else [[]]


def jtrees(maxn):
    leaves = [S("1", 1), S('"a"', "a")]
    names = [('"a"', 'a'), ('"b"', 'b'), ('"c"', 'c'), ('"d"', 'd')]
    memo = {}

    def comps(n):
        if n == 0:
            yield ()
            return
        for f in range(1, n + 1):
            for r in comps(n - f):
                yield (f,) + r

    def gen(n):
        if n in memo:
            return memo[n]
        res = []
        if n == 1:
            res = leaves + [("a", []), ("o", [])]
        else:
            import itertools
            for parts in comps(n - 1):
                for kids in itertools.product(*[gen(p) for p in parts]):
                    res.append(("a", list(kids)))
                    for rg in restricted_growth(len(kids)):
                        res.append(("o", [(names[i], k) for i, k in zip(rg, kids)]))
        memo[n] = res
        return res
    out = []
    for n in range(1, maxn + 1):
        out += gen(n)
    return out


def documents(tier):
    """-> list of families: (family name, combo set name, [ (text bytes, expected value, level, tag) ])"""
    quick = tier == "quick"
    fams = []
    sc = [num(x) for x in NUMS] + [S(a, b) for a, b in LITS] + [S(a, b) for a, b in STRS]
    docs = []
    for s in sc:
        isnum_ = s[1][0] in "-0123456789"
        shapes = [s, ("a", [s]), ("o", [(KEYS[0], s)])]
        if quick:
            shapes = [s] if isnum_ else [s, ("o", [(KEYS[0], s)])]
        else:
            shapes.append(("a", [S("1", 1), s, ("o", [(KEYS[1], s)])]))
        for t in shapes:
            docs.append(t)
    fams.append(("scalars", "all", [mk(t) for t in docs]))
    keys = [KEYS[i] for i in (0, 1, 2, 4, 6, 11, 12)] if quick else KEYS
    docs = [("o", [(k1, S("1", 1)), (k2, S("2", 2))]) for k1 in keys for k2 in keys]
    sub = [KEYS[0], KEYS[4], KEYS[1], KEYS[2], KEYS[11], KEYS[12]]
    if not quick:
        docs += [("o", [(k1, S("1", 1)), (k2, S("2", 2)), (k3, S("3", 3))]) for k1 in sub for k2 in sub for k3 in sub]
    docs += [("o", [(KEYS[0], ("o", [(KEYS[1], S("1", 1)), (KEYS[1], S("2", 2))])), (KEYS[0], S("3", 3))]),
             ("a", [("o", [(KEYS[1], S("1", 1)), (KEYS[0], S("2", 2)), (KEYS[1], ("a", []))])]),
             ("o", [(KEYS[1], ("o", [(KEYS[12], S("1", 1)), (KEYS[11], S("2", 2)), (KEYS[0], S("3", 3))])), (KEYS[0], ("a", [("o", [(KEYS[1], S("1", 1)), (KEYS[0], S("2", 2))])]))])]
    fams.append(("keys", "all", [mk(t) for t in docs]))
    fams.append(("trees", "all", [mk(t) for t in jtrees(3 if quick else 4)]))
    wsdocs = []
    base = ("o", [(KEYS[0], ("a", [S("1", 1), ("o", [(KEYS[1], S('"x"', "x"))]), ("a", [])])), (KEYS[1], ("o", []))])
    for ws in ([" ", "\r\n", " \n\t\r "] if quick else [" ", "\n", "\r\n", "\t", " \n\t\r "]):
        wsdocs.append(mk(base, ws, ws))
        wsdocs.append(mk(S("1", 1), "", ws))
    fams.append(("whitespace", "all", wsdocs))
    # wide objects with one repeated key: the printers probe for repeated keys differently for small and for wide
    # objects (pairwise scan vs sort / fingerprint); keys k0..k(n-1) give many keys of equal length with the same first
    # and last character (k10, k20, k30 ...), and the duplicate is put at the end, right after the original, and midway
    wide = []
    for n in ((17, 21) if quick else (15, 16, 17, 18, 21, 33, 40)):
        ks = [('"k%d"' % i, "k%d" % i) for i in range(n)]
        for i in range(n):
            for j in ([n] if quick else sorted({i + 1, (i + n) // 2 + 1, n})):
                items = [(k, S(str(idx), idx)) for idx, k in enumerate(ks)]
                items.insert(j, (ks[i], S("999", 999)))
                wide.append(mk(("o", items)))
                if not quick and i % 5 == 0:
                    wide.append(mk(("a", [("o", items), S("1", 1)])))
    fams.append(("wide-objects-with-repeated-key", "limit-quick" if quick else "limit", wide))
    # nesting families
    leafs = [("1", 1, True), ('"é"', "é", True), ("[]", [], True), ("{}", {}, True)]
    mid = []
    for d in ([1, 2, 3, 64] if quick else [1, 2, 3, 63, 64, 65, 127, 128, 129]):
        for shape in ("arr", "obj") if quick or d > 100 else ("arr", "obj", "mixed"):
            for leaf in leafs[:1] if quick or d > 100 else leafs[:2]:
                t, v, l = nest(shape, d, leaf)
                mid.append((t.encode(), v, l, f"nest:{shape}:{d}"))
    fams.append(("nesting-moderate", "all", mid))
    lim = []
    for d in ([129, 255, 256, 257] if quick else [200, 254, 255, 256, 257, 258, 300, 385, 1000]):
        shapes = (("arr", "obj") if d in (255, 256) else ("arr",)) if quick else ("arr", "obj", "mixed") if d in (255, 256, 257) else ("arr",)
        for shape in shapes:
            lv = [leafs[0]] if quick and d != 256 else [leafs[0], leafs[3] if shape == "obj" else leafs[2]]
            for leaf in lv:
                t, v, l = nest(shape, d, leaf)
                lim.append((t.encode(), v, l, f"nest:{shape}:{d}"))
    fams.append(("nesting-limit", "limit-quick" if quick else "limit", lim))
    if not quick:
        full = []
        for shape in ("arr", "obj"):
            t, v, l = nest(shape, 255, leafs[0])     # the deepest document the CLI accepts (scalar at level 255)
            full.append((t.encode(), v, l, f"nest:{shape}:255"))
        fams.append(("nesting-limit-all-options", "all", full))
    return fams


def mk(t, ws="", outer=""):
    return ((outer + render(t, ws) + outer).encode(), value(t), level(t), "tree")


# ------------------------------------------------------------------ options --

FMT = [("default", []), ("-c", ["-c"]), ("--tab", ["--tab"])] + [("--indent%d" % i, ["--indent", str(i)]) for i in range(8)]
UNIT = {"default": "  ", "-c": None, "--tab": "\t"}
UNIT.update({"--indent%d" % i: " " * i for i in range(8)})
RAW = [("", []), ("-r", ["-r"]), ("-j", ["-j"]), ("--raw-output0", ["--raw-output0"])]


def combos(which):
    fm = FMT
    if which == "limit":
        fm = [f for f in FMT if f[0] in ("-c", "--tab", "--indent0", "--indent1")]
    elif which == "limit-quick":
        fm = [f for f in FMT if f[0] in ("-c", "--indent1")]
    out = []
    for f in fm:
        for s in (0, 1):
            for a in (0, 1):
                for r in RAW:
                    for q in (0, 1):
                        for route in (0, 1):
                            toks = ([f[0]] if f[0] != "default" else []) + (["-S"] if s else []) + (["-a"] if a else []) + ([r[0]] if r[0] else []) + \
                                   (["--seq"] if q else []) + (["route=arg"] if route else [])
                            argv = ["jq"] + f[1] + (["-S"] if s else []) + (["-a"] if a else []) + r[1] + (["--seq"] if q else []) + \
                                   (["--arg", "zz", "1"] if route else []) + ["."]
                            out.append({"fmt": f[0], "S": s, "a": a, "raw": r[0], "seq": q, "route": route, "toks": toks, "argv": argv})
    return out


# ------------------------------------------------------------------- oracle --

LIMIT_MSG = b"nesting depth exceeds limit"


def keyclass(k):
    if k == "":
        return "empty"
    m = max(ord(c) for c in k)
    return "ascii" if m < 0x80 else "bmp-low" if m < 0xd800 else "bmp-high" if m < 0x10000 else "astral"


def to_plain(v):
    """('O', pairs) form -> dict; raises on duplicate keys."""
    if isinstance(v, tuple):
        d = {}
        for k, x in v[1]:
            if k in d:
                raise KeyError(k)
            d[k] = to_plain(x)
        return d
    if isinstance(v, list):
        return [to_plain(x) for x in v]
    return v


def first_unsorted(v):
    if isinstance(v, tuple):
        ks = [k for k, _ in v[1]]
        for a, b in zip(ks, ks[1:]):
            if a > b:
                return (a, b)
        for _, x in v[1]:
            r = first_unsorted(x)
            if r:
                return r
    elif isinstance(v, list):
        for x in v:
            r = first_unsorted(x)
            if r:
                return r
    return None


_STR = re.compile(r'"(?:[^"\\]|\\.)*"')


def layout_problem(text, unit):
    """Line structure of a printed value against the chosen indentation unit (None = compact)."""
    if unit is None:
        return "newline-in-compact" if "\n" in text else None
    depth = 0
    for line in text.split("\n"):
        body = line.lstrip(" \t")
        if not body:
            return "blank-line"
        want = depth - 1 if body[0] in "]}" else depth
        if len(line) - len(body) != len(unit) * max(want, 0) or not line.startswith(unit * max(want, 0)):
            return "indent-unit"
        if '"' in body:
            body = _STR.sub("", body)
        depth += body.count("[") + body.count("{") - body.count("]") - body.count("}")
    return None


def judge_output(doc, cb, res, limit=256):
    """-> None (ok) | 'accepted-error' | 'accepted-panic' | (kind, feature)"""
    text, exp, lvl, tag = doc
    code, out, err = res
    if code != "0":
        if lvl >= limit and code == "P" and err == b"":
            return "accepted-panic"      # batch hook: message silenced; verified by real spawns (verify_panics)
        if lvl >= limit and LIMIT_MSG in err:
            return "accepted-panic" if batch.crashed(code) else "accepted-error"
        return ("exit=" + ("crash" if batch.crashed(code) else code), ("above-limit:" if lvl >= limit else "") + cligen.slug(err, 40))
    body = out
    if cb["seq"] and body.startswith(b"\x1e"):
        body = body[1:]
    if cb["raw"] == "--raw-output0":
        if body.endswith(b"\x00"):
            body = body[:-1]
    elif cb["raw"] != "-j" and body.endswith(b"\n"):
        body = body[:-1]
    if cb["raw"] and isinstance(exp, str):
        if body == exp.encode("utf8", "surrogatepass"):
            return None
        try:
            if jloads(body.decode("utf8")) == exp and (not cb["a"] or all(b < 0x80 for b in body)):
                return None
        except (BadJson, UnicodeDecodeError):
            pass
        return ("raw-string-root", vclass(exp))
    if body.strip() == b"":
        return ("no-output", "level<=128" if lvl <= 128 else "level>=129")
    try:
        txt = body.decode("utf8")
        v = jloads(txt, pairs=True)
    except UnicodeDecodeError:
        return ("unparseable", "not-utf8")
    except BadJson as e:
        return ("unparseable", vclass(exp) if not isinstance(exp, (list, dict)) else "container")
    try:
        pv = to_plain(v)
    except KeyError:
        return ("dup-key-in-output", "")
    d = jdiff(exp, pv)
    if d:
        path, a, b, what = d
        return ("value", f"{what}:{numfeat(a) if cligen.isnum(a) else vclass(a)}->{vclass(b)}")
    if cb["S"]:
        u = first_unsorted(v)
        if u:
            return ("unsorted-keys", keyclass(u[0]) + ">" + keyclass(u[1]))
    elif not jeq(exp, pv, ordered=True):
        return ("key-order", "")
    if cb["a"] and any(b > 0x7f for b in out):
        return ("non-ascii-with--a", "")
    lp = layout_problem(txt, UNIT[cb["fmt"]])
    if lp:
        return ("layout", lp)
    return None


def numfeat(x):
    if isinstance(x, int):
        return "int" if abs(x) < 2 ** 53 else "bigint"
    if x != x or x in (float("inf"), float("-inf")):
        return "float-overflow"
    if x == 0:
        return "zero"
    return "float"


def sig_of(kind, feature, toks):
    return f"{kind}|{feature}|opts=" + (",".join(toks) or "none")


# -------------------------------------------------------------------- shard --

def work(shard, combosets, limit):
    part = Part()
    part.panics = []
    for fam, cset, docs in shard:
        cbs = combosets[cset]
        jobs = [(cb["argv"], d[0]) for d in docs for cb in cbs]
        res = cligen.run1(jobs, "c11")
        part.keep_jobs(jobs, res, 3)
        part.count(fam, inputs=len(docs), trans=len(jobs))
        n = len(cbs)
        for di, d in enumerate(docs):
            groups = {}
            outs = set()
            for ci, cb in enumerate(cbs):
                r = res[di * n + ci]
                outs.add(r[1])
                j = judge_output(d, cb, r, limit)
                if j is None:
                    continue
                if isinstance(j, str):
                    part.bump(j)
                    if j == "accepted-panic" and r[0] == "P" and not any(x[1] == d[0] for x in part.panics):
                        part.panics.append((cb["argv"], d[0]))
                    continue
                groups.setdefault(j, []).append(ci)
            part.distinct |= {hash((d[0], o)) for o in outs}
            for (kind, feat), cis in groups.items():
                ci = min(cis, key=lambda i: (len(cbs[i]["toks"]), i))
                cb = dict(cbs[ci])
                # the format token is dropped from the signature when the failure does not depend on the format: every
                # format of this combination set fails with the same other flags (the very deep documents run on a
                # reduced format set that lacks the default format)
                rest = lambda c: (c["S"], c["a"], c["raw"], c["seq"], c["route"])
                same = [i for i, c in enumerate(cbs) if rest(c) == rest(cb)]
                if cb["fmt"] != "default" and all(i in cis for i in same):
                    cb["toks"] = [t for t in cb["toks"] if t != cb["fmt"]]
                r = res[di * n + ci]
                part.fail(sig_of(kind, feat, cb["toks"]), len(d[0]) * 1000 + len(cb["toks"]),
                          {"kind": "c11", "doc_hex": d[0].hex() if len(d[0]) < 3000 else None, "doc": cligen.short(d[0], 200),
                           "tag": d[3], "level": d[2], "combo": {k: cb[k] for k in ("fmt", "S", "a", "raw", "seq", "route", "toks")},
                           "argv": cb["argv"], "got": {"status": r[0], "stdout": cligen.short(r[1], 300), "stderr": cligen.short(r[2], 200)},
                           "failing_combinations_for_this_document": len(cis)}, n=len(cis))
    return part


def regen(ex):
    """doc tuple for a recorded example (deep documents are regenerated from their tag)."""
    tag = ex["tag"]
    if tag.startswith("nest:"):
        _, shape, d = tag.split(":")
        for leaf in [("1", 1, True), ('"é"', "é", True), ("[]", [], True), ("{}", {}, True)]:
            t, v, l = nest(shape, int(d), leaf)
            if cligen.short(t.encode(), 200) == ex["doc"] and (ex.get("doc_hex") is None or bytes.fromhex(ex["doc_hex"]) == t.encode()):
                return (t.encode(), v, l, tag)
        raise common.Machinery("cannot regenerate nesting document " + tag)
    text = bytes.fromhex(ex["doc_hex"])
    return (text, expected_from_text(text), ex["level"], tag)


def expected_from_text(text):
    """jq's duplicate rule applied by an own reader of the recorded text (replay only)."""
    def conv(v):
        if isinstance(v, tuple):
            d = {}
            for k, x in v[1]:
                d[k] = conv(x)
            return d
        if isinstance(v, list):
            return [conv(x) for x in v]
        return v
    return conv(json.loads(text.decode("utf8"), object_pairs_hook=lambda p: ("O", p)))


def rejudge(ex, runner, limit=256):
    d = regen(ex)
    cb = dict(ex["combo"]); cb["argv"] = ex["argv"]
    j = judge_output(d, cb, runner(ex["argv"], d[0]), limit)
    if j is None or isinstance(j, str):
        return set()
    return {sig_of(j[0], j[1], cb["toks"])}


def reported_limit():
    r = batch.spawn(["jq", "-c", "."], b"[" * 2000 + b"]" * 2000)
    m = re.search(rb"nesting depth exceeds limit of ([0-9]+)", r[2])
    if not m or r[0] == "0":
        raise common.Machinery(f"the CLI did not report a nesting limit on a 2000-deep document: {r[0]} {r[2][:120]!r}")
    return int(m.group(1))


def run(ctx):
    tier = ctx["tier"]
    rep = batch.Report()
    limit = reported_limit()
    if ctx["replay"]:
        return cligen.replay(rep, ctx, lambda ex, runner: rejudge(ex, runner, limit))
    combosets = {k: combos(k) for k in ("all", "limit", "limit-quick")}
    fams = documents(tier)
    # oracle self-test: the generator's value agrees with an independent reading of its own text
    for fam, cset, docs in fams:
        for d in docs:
            if not fam.startswith("nesting") and not jeq(expected_from_text(d[0]), d[1], ordered=True):
                raise common.Machinery("generator self-test failed on " + repr(d[0][:80]))
    items = []
    for fam, cset, docs in fams:
        per = 2 if fam.startswith("nesting") else 12
        for i in range(0, len(docs), per):
            items.append((fam, cset, docs[i:i + per]))
    # spread the heavy (nesting) items: shard_run deals items round-robin
    parts = cligen.shard_run(work, items, extra=(combosets, limit), nshards=min(len(items), 48))
    fails, info, jobsample = cligen.merge_parts(rep, parts)
    nver = 0
    for p in parts:
        for argv, text in p.panics:
            r = batch.spawn(argv, text)
            nver += 1
            if not (batch.crashed(r[0]) and LIMIT_MSG in r[2]):
                fails.setdefault("exit=crash|above-limit:panic-without-limit-message|opts=" + ",".join(a for a in argv[1:-1]), [1, 0,
                    {"kind": "c11", "doc_hex": None if len(text) > 3000 else text.hex(), "doc": cligen.short(text, 200), "tag": "panic", "level": limit,
                     "argv": argv, "combo": {"fmt": "default", "S": 0, "a": 0, "raw": "", "seq": 0, "route": 0, "toks": argv[1:-1]}}])
    rep.extra["above_limit_panics_verified_by_real_spawns"] = nver
    for name in rep.subspaces:
        rep.subspaces[name]["note"] = "every document of the family x every option combination of its combination set"
    cligen.selftest_sample(rep, jobsample, n=100)
    cligen.confirm_and_report(rep, fails, lambda ex, runner: rejudge(ex, runner, limit))
    rep.extra.update({"nesting_limit_reported_by_cli": limit, "option_combinations": {k: len(v) for k, v in combosets.items()},
                      "above_limit_answers": {k: v for k, v in info.items()},
                      "families": {fam: {"documents": len(docs), "combination_set": cset} for fam, cset, docs in fams}})
    if info.get("accepted-panic"):
        rep.notes.append(f"{info['accepted-panic']} jobs above the nesting limit ended in the deliberate panic of eval_generic::assert_nesting_depth "
                         "(exit 101, message names the limit) instead of the clean error of print_json — outside C11's quantifier (documents above the limit)")
    rep.notes.append("a scalar with exactly `limit` enclosing containers is rejected although `limit` nested empty containers are accepted "
                     "(print_json counts the scalar as a level); both are treated as 'at/above the limit'")
    rep.sample({"document": '{"a":1,"\\u0061":2}', "options": ["-S", "--indent", "7", "-a", "--seq"], "expected": {"a": 2}})
    return rep.to_json()
