SPEC = dict(
    kind="py", module="c15", design_ref="§3-C15",
    technique="bounded-exhaustive enumeration of (document, write-fragment program, output configuration) triples through the real CLI code "
              "path, composed print -> reload, compared with the same run's `-o json` answer (S2 x programs x configurations)",
    rule="documents: every presentation (double/single-quoted, plain, literal, folded; plain/quoted/explicit key; comment) of each leaf of the "
         "string alphabet (69 strings thorough / 14 quick) + ints, bools, nulls as root, mapping value, sequence item and in flow collections; "
         "two-leaf trees in 8 shapes; special-key mappings; 36 hand-built anchor/alias/merge/comment/block-scalar/multi-document documents. "
         "Programs: 11 (quick 6) navigation programs on every document, 67 (quick 23) assignment/update/deletion/merge programs on the canonical "
         "presentation of every tree and the hand-built documents. Configurations: -I 0..7 x {default,-S} + --tab x {default,-S}. "
         "A case is (document, program, configuration); distinct+non-trivial = distinct case together with its verdict class",
    level_text="For every enumerated case the YAML the real CLI prints is fed back to the real loader and must give the JSON values that the "
               "same program prints with -o json; exit classes must agree. Exhaustive over the stated alphabets.",
    level_note="The reader is the CLI's own loader, as the statement defines the property through it (its own defects are C14's matter; one was "
               "kept out of the corpus: root block scalars with unindented content). Failures are classified by a JSON tree diff into narrow "
               "signatures (scalar/key class, flattened nesting, bare alias, raw root string) with the minimal failing option set. Batch results "
               "are tied to the executable by a spawn self-test and by re-judging every reported signature's example with real processes.",
    assumptions=["programs outside the listed write fragment and documents outside the alphabets are out of scope",
                 "`--tab` is treated as a further indentation setting (the statement says 'every indentation setting')"],
)
