SPEC = dict(
    kind="rust",
    bins=rust("c04", (("default", ()), ("simd", ("simd",)))),
    design_ref="§3-C04",
    technique="bounded-exhaustive enumeration of bit strings (S2) + scale families across the structural constants 64 / 512 / 2048 / 65536 bits "
              "and the i16 excess range (S3), every constructor x storage variant x position x operation against a stack matcher, "
              "in the default and simd builds (S5)",
    rule="inputs: ALL bit strings of length <=12 (quick) / <=16 (thorough); all vectors of <=2 (quick) / <=3 (thorough) words over W8 at every "
         "word-boundary len; block families (special word s at position p in filler f, 9 and 33 (quick) or 7,8,9,31,32,33,65 (thorough) words); scale families "
         "(nest 1^a0^b, flat (10)^m, wrapped 1(10)^m0, nestflat 1^a(10)^b0^a, prefixes = unbalanced tails, leading closes, closes-first, valleys with the bottom in every word of an L1 block and every L1 block of an L2 block, "
         "period-7 word-cyclic content) at every length in the boundary sets {c-2..c+2} of 64,128,512,2048,4096,65536,131072 and depths across "
         "32767/32768/49152/65536/98304, each also with single-bit flips at the boundary positions. Each input is built by every constructor "
         "(new, from_words(&/Vec), new_with_select, from_words_with_select, new_with_cspoppy(_config), from_words_with_cspoppy(_config); "
         "CS-Poppy rates {0,1,2,3,64,256,4096}) over clean storage / all bits >= len set / one surplus MAX word / one surplus 0 word "
         "(reduced constructor sets on flipped and on long inputs, stated per sub-space), and every operation is called at every position "
         "0..=len+2, usize::MAX-1, usize::MAX (select: every k <= count+2, count+64, usize::MAX). Distinct non-trivial = a new (len, bits) "
         "input containing at least one matched pair",
    level_text="Every operation of BalancedParens (find_close, find_open, enclose/parent, first_child, next_sibling, excess, depth, "
               "subtree_size, rank1/rank0, select1/select0, is_open/is_close, totals) and the free find_close/find_open/enclose are run at "
               "every position of every enumerated input, for every constructor / select support / sample rate / owned+borrowed / "
               "stray-bit variant, and compared with a stack matcher plus prefix sums over the first len bits; identical exploration in "
               "the default and simd builds.",
    level_note="Oracle: one stack pass (self-tested against the literal forward/backward excess scans at every position of every input of <= 320 "
               "bits). On inputs longer than 4096 bits the implementation's linear-time backward scans (find_open, enclose, parent, and the free "
               "functions) are asked where the defined answer lies within 2048 bits (free find_close: 16384 bits) and at all positions within "
               "±3 of the structural boundaries and of a flipped bit; all other operations at every position. Oracle decisions: depth(p) is "
               "compared only where the excess is >= 0; excess(p) for p >= len only must not panic; NoSelect::select1 is documented to "
               "return None and is required to. While the surplus-word defect is open, a free function's sweep over one input stops at its "
               "first panic (unwinding is serialised by the runtime).",
    assumptions=["inputs longer than 196 610 bits (3 L2 blocks) and more than u32::MAX bits are not explored",
                 "long inputs carry uniform or period-7 content plus single-bit flips; arbitrary long content is outside the space"],
)
