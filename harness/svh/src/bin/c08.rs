//! C08 — strict JSON validation == RFC 8259 (+ nesting <= 128); the error
//! offset is never beyond the longest viable prefix; line/column are those of
//! the reported offset.
//!
//! S4: the reference is an iterative RFC 8259 pushdown recogniser written here
//! (explicit stack, UTF-8 by Unicode Table 3-7, `\u` surrogate pairing decided
//! hex digit by hex digit, depth cap 128). The automaton is trim — from every
//! non-error configuration some continuation is accepted — so a prefix is
//! *viable* iff no error transition was taken, and `d(x)` = index of the first
//! byte that takes one (or `len`). The explorer walks the prefix tree of that
//! automaton depth-first over a byte-class alphabet from a set of start
//! contexts: at every viable prefix verdict == reference; every dead one-symbol
//! extension (alone and with ~40 one-to-five-symbol continuations that complete
//! pending tokens and close strings) must be rejected with
//! `offset <= d` and the naive (LF | CR | CRLF) line/column of `offset`.
//! Plus: the mutation closure of a small document grammar (every offset x
//! {delete, insert b, replace by b} for all 256 b) and nesting families.
use engine::*;
use serde_json::{json, Value};
use succinctly::json::validate::{validate, ValidationError, ValidationErrorKind};

const MAX_DEPTH: usize = 128;

// ------------------------------------------------------------------ reference PDA

#[derive(Clone, Copy, PartialEq, Eq, Debug, Hash)]
enum St {
    Start,
    End,
    ArrFirst,
    ArrNext,
    ArrAfter,
    ObjFirst,
    ObjKeyNext,
    ObjColon,
    ObjVal,
    ObjAfter,
    Str { key: bool },
    Esc { key: bool },
    /// inside the first `\uXXXX` of an escape: n digits read, value so far
    U { key: bool, n: u8, acc: u16 },
    /// after a complete high surrogate: need `\`
    HsBs { key: bool },
    /// after high surrogate + `\`: need `u`
    HsU { key: bool },
    /// low surrogate digits: n read
    Lo { key: bool, n: u8 },
    /// UTF-8 continuation: `rem` bytes still needed, next one in lo..=hi
    Cont { key: bool, rem: u8, lo: u8, hi: u8 },
    NumMinus,
    NumZero,
    NumInt,
    NumDot,
    NumFrac,
    NumE,
    NumESign,
    NumExp,
    Kw { word: u8, i: u8 },
}

const WORDS: [&[u8]; 3] = [b"true", b"false", b"null"];

#[derive(Clone)]
struct Pda {
    st: St,
    stack: Vec<u8>,
}

fn is_ws(c: u8) -> bool {
    matches!(c, b' ' | b'\t' | b'\n' | b'\r')
}
fn hexv(c: u8) -> Option<u16> {
    match c {
        b'0'..=b'9' => Some((c - b'0') as u16),
        b'a'..=b'f' => Some((c - b'a' + 10) as u16),
        b'A'..=b'F' => Some((c - b'A' + 10) as u16),
        _ => None,
    }
}

impl Pda {
    fn new() -> Self {
        Pda { st: St::Start, stack: Vec::new() }
    }
    fn after_value(&mut self) {
        self.st = match self.stack.last() {
            None => St::End,
            Some(b'[') => St::ArrAfter,
            _ => St::ObjAfter,
        };
    }
    fn begin_value(&mut self, c: u8) -> bool {
        match c {
            b'{' | b'[' => {
                if self.stack.len() >= MAX_DEPTH {
                    return false;
                }
                self.stack.push(c);
                self.st = if c == b'{' { St::ObjFirst } else { St::ArrFirst };
            }
            b'"' => self.st = St::Str { key: false },
            b'-' => self.st = St::NumMinus,
            b'0' => self.st = St::NumZero,
            b'1'..=b'9' => self.st = St::NumInt,
            b't' => self.st = St::Kw { word: 0, i: 1 },
            b'f' => self.st = St::Kw { word: 1, i: 1 },
            b'n' => self.st = St::Kw { word: 2, i: 1 },
            _ => return false,
        }
        true
    }
    fn close(&mut self, c: u8) -> bool {
        let want = if c == b']' { b'[' } else { b'{' };
        if self.stack.last() == Some(&want) {
            self.stack.pop();
            self.after_value();
            true
        } else {
            false
        }
    }
    fn end_string(&mut self, key: bool) {
        if key {
            self.st = St::ObjColon;
        } else {
            self.after_value();
        }
    }
    /// One input byte. `false` = error transition (the configuration is left unchanged).
    fn step(&mut self, c: u8) -> bool {
        use St::*;
        match self.st {
            Start => is_ws(c) || self.begin_value(c),
            End => is_ws(c),
            ArrFirst => is_ws(c) || (c == b']' && self.close(c)) || (c != b']' && self.begin_value(c)),
            ArrNext => is_ws(c) || self.begin_value(c),
            ArrAfter => {
                if is_ws(c) {
                    true
                } else if c == b',' {
                    self.st = ArrNext;
                    true
                } else if c == b']' {
                    self.close(c)
                } else {
                    false
                }
            }
            ObjFirst => {
                if is_ws(c) {
                    true
                } else if c == b'}' {
                    self.close(c)
                } else if c == b'"' {
                    self.st = Str { key: true };
                    true
                } else {
                    false
                }
            }
            ObjKeyNext => {
                if is_ws(c) {
                    true
                } else if c == b'"' {
                    self.st = Str { key: true };
                    true
                } else {
                    false
                }
            }
            ObjColon => {
                if is_ws(c) {
                    true
                } else if c == b':' {
                    self.st = ObjVal;
                    true
                } else {
                    false
                }
            }
            ObjVal => is_ws(c) || self.begin_value(c),
            ObjAfter => {
                if is_ws(c) {
                    true
                } else if c == b',' {
                    self.st = ObjKeyNext;
                    true
                } else if c == b'}' {
                    self.close(c)
                } else {
                    false
                }
            }
            Str { key } => match c {
                b'"' => {
                    self.end_string(key);
                    true
                }
                b'\\' => {
                    self.st = Esc { key };
                    true
                }
                0x00..=0x1f => false,
                0x20..=0x7f => true,
                0xc2..=0xdf => {
                    self.st = Cont { key, rem: 1, lo: 0x80, hi: 0xbf };
                    true
                }
                0xe0 => {
                    self.st = Cont { key, rem: 2, lo: 0xa0, hi: 0xbf };
                    true
                }
                0xe1..=0xec | 0xee..=0xef => {
                    self.st = Cont { key, rem: 2, lo: 0x80, hi: 0xbf };
                    true
                }
                0xed => {
                    self.st = Cont { key, rem: 2, lo: 0x80, hi: 0x9f };
                    true
                }
                0xf0 => {
                    self.st = Cont { key, rem: 3, lo: 0x90, hi: 0xbf };
                    true
                }
                0xf1..=0xf3 => {
                    self.st = Cont { key, rem: 3, lo: 0x80, hi: 0xbf };
                    true
                }
                0xf4 => {
                    self.st = Cont { key, rem: 3, lo: 0x80, hi: 0x8f };
                    true
                }
                _ => false,
            },
            Cont { key, rem, lo, hi } => {
                if c >= lo && c <= hi {
                    self.st = if rem == 1 { Str { key } } else { Cont { key, rem: rem - 1, lo: 0x80, hi: 0xbf } };
                    true
                } else {
                    false
                }
            }
            Esc { key } => match c {
                b'"' | b'\\' | b'/' | b'b' | b'f' | b'n' | b'r' | b't' => {
                    self.st = Str { key };
                    true
                }
                b'u' => {
                    self.st = U { key, n: 0, acc: 0 };
                    true
                }
                _ => false,
            },
            U { key, n, acc } => match hexv(c) {
                None => false,
                Some(h) => {
                    let acc2 = acc * 16 + h;
                    let n2 = n + 1;
                    if n2 == 2 && (0xdc..=0xdf).contains(&acc2) {
                        // \uDC.. – \uDF..: a low surrogate that no high surrogate precedes; no continuation can repair it
                        false
                    } else if n2 == 4 {
                        self.st = if (0xd800..=0xdbff).contains(&acc2) { HsBs { key } } else { Str { key } };
                        true
                    } else {
                        self.st = U { key, n: n2, acc: acc2 };
                        true
                    }
                }
            },
            HsBs { key } => {
                if c == b'\\' {
                    self.st = HsU { key };
                    true
                } else {
                    false
                }
            }
            HsU { key } => {
                if c == b'u' {
                    self.st = Lo { key, n: 0 };
                    true
                } else {
                    false
                }
            }
            Lo { key, n } => match hexv(c) {
                None => false,
                Some(h) => {
                    let ok = match n {
                        0 => h == 0xd,
                        1 => h >= 0xc,
                        _ => true,
                    };
                    if ok {
                        self.st = if n == 3 { Str { key } } else { Lo { key, n: n + 1 } };
                    }
                    ok
                }
            },
            NumMinus => match c {
                b'0' => {
                    self.st = NumZero;
                    true
                }
                b'1'..=b'9' => {
                    self.st = NumInt;
                    true
                }
                _ => false,
            },
            NumZero | NumInt | NumFrac | NumExp => {
                let st = self.st;
                if c.is_ascii_digit() && st != NumZero {
                    true
                } else if c == b'.' && (st == NumZero || st == NumInt) {
                    self.st = NumDot;
                    true
                } else if (c == b'e' || c == b'E') && st != NumExp {
                    self.st = NumE;
                    true
                } else {
                    // the number ends here; the byte is judged in the after-value configuration
                    let saved = self.clone();
                    self.after_value();
                    if self.step(c) {
                        true
                    } else {
                        *self = saved;
                        false
                    }
                }
            }
            NumDot => {
                if c.is_ascii_digit() {
                    self.st = NumFrac;
                    true
                } else {
                    false
                }
            }
            NumE => match c {
                b'+' | b'-' => {
                    self.st = NumESign;
                    true
                }
                b'0'..=b'9' => {
                    self.st = NumExp;
                    true
                }
                _ => false,
            },
            NumESign => {
                if c.is_ascii_digit() {
                    self.st = NumExp;
                    true
                } else {
                    false
                }
            }
            Kw { word, i } => {
                let w = WORDS[word as usize];
                if w[i as usize] == c {
                    if i as usize + 1 == w.len() {
                        self.after_value();
                    } else {
                        self.st = Kw { word, i: i + 1 };
                    }
                    true
                } else {
                    false
                }
            }
        }
    }
    fn accepting(&self) -> bool {
        match self.st {
            St::End => true,
            St::NumZero | St::NumInt | St::NumFrac | St::NumExp => self.stack.is_empty(),
            _ => false,
        }
    }
}

fn st_class(s: St) -> String {
    use St::*;
    match s {
        Start => "start".into(),
        End => "after-root".into(),
        ArrFirst => "array-first".into(),
        ArrNext => "array-after-comma".into(),
        ArrAfter => "array-after-value".into(),
        ObjFirst => "object-first".into(),
        ObjKeyNext => "object-after-comma".into(),
        ObjColon => "object-after-key".into(),
        ObjVal => "object-after-colon".into(),
        ObjAfter => "object-after-value".into(),
        Str { .. } => "string".into(),
        Esc { .. } => "escape".into(),
        U { n, acc, .. } => {
            if n >= 1 && (acc >> (4 * (n - 1))) == 0xd {
                format!("u-escape-digit{}-after-D", n + 1)
            } else {
                format!("u-escape-digit{}", n + 1)
            }
        }
        HsBs { .. } => "after-high-surrogate".into(),
        HsU { .. } => "after-high-surrogate-backslash".into(),
        Lo { n, .. } => format!("low-surrogate-digit{}", n + 1),
        Cont { rem, .. } => format!("utf8-continuation-{rem}-left"),
        NumMinus => "number-minus".into(),
        NumZero => "number-zero".into(),
        NumInt => "number-int".into(),
        NumDot => "number-dot".into(),
        NumFrac => "number-frac".into(),
        NumE => "number-e".into(),
        NumESign => "number-e-sign".into(),
        NumExp => "number-exp".into(),
        Kw { .. } => "keyword".into(),
    }
}

struct Analysis {
    valid: bool,
    /// index of the first byte that takes an error transition, or len
    d: usize,
    /// configuration in which the input died (state before the failing byte) or ended
    last: St,
    depth: usize,
}

fn analyse(t: &[u8]) -> Analysis {
    let mut p = Pda::new();
    for (i, &c) in t.iter().enumerate() {
        if !p.step(c) {
            return Analysis { valid: false, d: i, last: p.st, depth: p.stack.len() };
        }
    }
    Analysis { valid: p.accepting(), d: t.len(), last: p.st, depth: p.stack.len() }
}

/// Naive position: LF, CR and CRLF are single breaks; columns count bytes from 1.
fn naive_line_col(t: &[u8], off: usize) -> (usize, usize, &'static str) {
    let mut line = 1usize;
    let mut ls = 0usize;
    let mut last = "no-break";
    let mut i = 0usize;
    let lim = off.min(t.len());
    while i < lim {
        if t[i] == b'\n' {
            i += 1;
            line += 1;
            ls = i;
            last = "after-LF";
        } else if t[i] == b'\r' {
            if i + 1 < t.len() && t[i + 1] == b'\n' {
                if i + 2 > lim {
                    break; // offset between CR and LF: still on the old line
                }
                i += 2;
                last = "after-CRLF";
            } else {
                i += 1;
                last = "after-CR";
            }
            line += 1;
            ls = i;
        } else {
            i += 1;
        }
    }
    (line, off - ls + 1, last)
}

fn kind_name(k: &ValidationErrorKind) -> &'static str {
    use ValidationErrorKind::*;
    match k {
        UnexpectedCharacter { .. } => "UnexpectedCharacter",
        UnexpectedEof { .. } => "UnexpectedEof",
        TrailingContent => "TrailingContent",
        UnclosedString => "UnclosedString",
        InvalidEscape { .. } => "InvalidEscape",
        InvalidUnicodeEscape { .. } => "InvalidUnicodeEscape",
        UnpairedSurrogate { .. } => "UnpairedSurrogate",
        ControlCharacter { .. } => "ControlCharacter",
        LeadingZero => "LeadingZero",
        LeadingPlus => "LeadingPlus",
        InvalidNumber { .. } => "InvalidNumber",
        InvalidKeyword { .. } => "InvalidKeyword",
        InvalidUtf8 => "InvalidUtf8",
        NestingTooDeep { .. } => "NestingTooDeep",
    }
}

/// Why the reference stops accepting `t`: one name per root cause (error kinds of the validator are not part of it).
fn death_class(t: &[u8], a: &Analysis) -> String {
    if a.d < t.len() {
        let b = t[a.d];
        if (b == b'[' || b == b'{') && a.depth >= MAX_DEPTH && matches!(a.last, St::Start | St::ArrFirst | St::ArrNext | St::ObjVal) {
            "nesting>128".to_string()
        } else {
            format!("dead-in-{}", st_class(a.last))
        }
    } else {
        format!("incomplete-in-{}", st_class(a.last))
    }
}

/// Compare the real validator with the reference on `t` (analysis `a` of `t` by the PDA).
fn judge(t: &[u8], a: &Analysis, rep: &mut Report) {
    rep.trans(1);
    let size = t.len();
    let case = || json!({"kind":"doc","input":hex(t),"shown":show(t)});
    let r: Result<(), ValidationError> = match catch(|| validate(t)) {
        Ok(r) => r,
        Err(m) => {
            rep.fail(&format!("panic:in-{}", st_class(a.last)), size, || json!({"kind":"doc","input":hex(t),"shown":show(t),"panic":m}));
            return;
        }
    };
    match r {
        Ok(()) => {
            rep.distinct(&(0u8, a.last, a.valid));
            if !a.valid {
                rep.fail(&format!("verdict:accepts-invalid:{}", death_class(t, a)), size, case);
            }
        }
        Err(e) => {
            let k = kind_name(&e.kind);
            let off = e.position.offset;
            rep.distinct(&(1u8, a.last, a.valid, k, (off as i64 - a.d as i64).clamp(-4, 4)));
            if a.valid {
                rep.fail(&format!("verdict:rejects-valid:{k}:in-{}", st_class(a.last)), size, || {
                    let mut c = case();
                    c["error"] = json!(format!("{e}"));
                    c
                });
                return;
            }
            rep.evals(2);
            if off > a.d {
                let late = off - a.d;
                // the \uXXXX surrogate decision is the one class the prototypes found: name it by the automaton state that died
                let sig = match a.last {
                    St::U { n: 1, acc: 0xd, .. } if late <= 3 && off <= a.d + 3 && hexv(t[a.d]).is_some() => "late-offset:lone-low-surrogate-escape:decided-after-4th-hex-digit".to_string(),
                    St::Lo { n, .. } if n <= 1 && late <= 4 - n as usize && hexv(t[a.d]).is_some() => "late-offset:high-surrogate-then-non-low-escape:decided-after-4th-hex-digit".to_string(),
                    _ => format!("late-offset:{}", death_class(t, a)),
                };
                rep.fail(&sig, size, || {
                    let mut c = case();
                    c["reported_offset"] = json!(off);
                    c["longest_viable_prefix"] = json!(a.d);
                    c["error"] = json!(format!("{e}"));
                    c
                });
            }
            if off > t.len() {
                rep.fail(&format!("offset-beyond-input:{k}"), size, case);
                return;
            }
            let (l, c, brk) = naive_line_col(t, off);
            if (e.position.line, e.position.column) != (l, c) {
                let w = if e.position.line != l { "wrong-line" } else { "wrong-column" };
                rep.fail(&format!("linecol:{w}:{brk}"), size, || {
                    let mut cs = case();
                    cs["reported"] = json!([e.position.line, e.position.column]);
                    cs["expected"] = json!([l, c]);
                    cs["offset"] = json!(off);
                    cs
                });
            }
        }
    }
}

fn check(t: &[u8], rep: &mut Report) {
    let a = analyse(t);
    judge(t, &a, rep);
}

// ------------------------------------------------------------------ (i) DFS over viable prefixes

const FULL_ALPHA: &[u8] = &[
    b'{', b'}', b'[', b']', b':', b',', b'"', b'\\', b'/', b'b', b'f', b'n', b'r', b't', b'u', b'a', b'l', b's', b'e', b'E', b'0', b'1', b'9', b'8', b'-', b'+', b'.', b'd', b'D',
    b'c', b'C', b'F', b'x', b' ', b'\n', b'\r', b'\t', 0x00, 0x1f, 0x7f, 0x80, 0x8f, 0x90, 0x9f, 0xa0, 0xbf, 0xc0, 0xc2, 0xe0, 0xe1, 0xed, 0xf0, 0xf4, 0xf5, 0xff,
];
const STRUCT_ALPHA: &[u8] = &[b'{', b'}', b'[', b']', b':', b',', b'"', b'\\', b'u', b'd', b'0', b'1', b'-', b'.', b'e', b't', b' ', b'\r', b'\n'];
const CONTEXTS: &[&[u8]] = &[
    b"",
    b"[",
    b"[1,",
    b"{",
    b"{\"a\":",
    b"{\"a\":1,",
    b"\"",
    b"[\"\\",
    b"[\"\\ud83d",
    b"-",
    b"[1.",
    b"[1e",
    b"\r\n [\r",
    b"\"\\u",
    b"\"\\ud83d\\u",
    b"{\"a\" ",
    b"[tru",
    b"{\"\\ud83d\\ude00\":[",
];
/// Continuations appended to every dead extension. The validator may decide late (multi-byte UTF-8 sequences,
/// `\uXXXX` escapes are judged when complete), so the tails complete such tokens and close the string:
/// level 1 = {x " ] SP 0 80}, level 2 = level 1 x {}} " 0 80}, plus targeted completions.
fn probe_tails(full: bool) -> &'static Vec<Vec<u8>> {
    static TAILS: std::sync::OnceLock<Vec<Vec<u8>>> = std::sync::OnceLock::new();
    static SHORT: std::sync::OnceLock<Vec<Vec<u8>>> = std::sync::OnceLock::new();
    if !full {
        // level 1 + the targeted completions only (used at the deepest interior level of the thorough walk)
        return SHORT.get_or_init(|| probe_tails(true).iter().filter(|t| t.len() != 2 || t[1] == b'"' && t[0] >= 0x80).cloned().collect());
    }
    TAILS.get_or_init(|| {
        let l1: [u8; 6] = [b'x', b'"', b']', b' ', b'0', 0x80];
        let l2: [u8; 4] = [b'}', b'"', b'0', 0x80];
        let mut v: Vec<Vec<u8>> = Vec::new();
        for a in l1 {
            v.push(vec![a]);
            for b in l2 {
                v.push(vec![a, b]);
            }
        }
        for t in [
            &[0x80u8, 0x80, 0x80][..],
            &[0x80, 0x80, b'"'],
            &[0x80, 0x80, 0x80, b'"'],
            &[0xbf, 0xbf, b'"'],
            &[0xbf, b'"'],
            b"00\"",
            b"000\"",
            b"0000\"",
            b"c00\"",
            b"dc00\"",
        ] {
            v.push(t.to_vec());
        }
        v
    })
}

/// `p` + `c` is dead at index p.len(): probe it alone and with every tail.
fn probe_dead(p: &mut Vec<u8>, c: u8, dead: &Analysis, full: bool, rep: &mut Report) {
    let n = p.len();
    p.push(c);
    judge(p, dead, rep);
    for t in probe_tails(full) {
        p.extend_from_slice(t);
        judge(p, dead, rep);
        p.truncate(n + 1);
    }
    p.pop();
}

struct Dfs<'a> {
    alpha: &'a [u8],
    max: usize,
    base: usize,
    /// interior nodes up to this depth get the full tail set, deeper ones the short set
    full_tail_depth: usize,
}

impl Dfs<'_> {
    /// `p` is viable with configuration `pda`; visit it and everything below.
    fn visit(&self, p: &mut Vec<u8>, pda: &Pda, rep: &mut Report) {
        rep.input();
        let a = Analysis { valid: pda.accepting(), d: p.len(), last: pda.st, depth: pda.stack.len() };
        judge(p, &a, rep);
        if p.len() - self.base >= self.max {
            return;
        }
        for &c in self.alpha {
            let mut q = pda.clone();
            if q.step(c) {
                p.push(c);
                self.visit(p, &q, rep);
                p.pop();
            } else {
                // dead extension: d = p.len(); probe it and 2 further symbols
                let dead = Analysis { valid: false, d: p.len(), last: pda.st, depth: pda.stack.len() };
                probe_dead(p, c, &dead, p.len() - self.base <= self.full_tail_depth, rep);
            }
        }
    }
}

fn dfs_space(ctx: &Ctx, name: &str, alpha: &'static [u8], depth: usize, full_tail_depth: usize, rep: &mut Report) {
    assert!(depth >= 2);
    let na = alpha.len() as u64;
    let n = CONTEXTS.len() as u64 * na * na;
    let r = par_range_in(ctx, name, n, 8, |i, rep| {
        let ci = (i / (na * na)) as usize;
        let a = alpha[((i / na) % na) as usize];
        let b = alpha[(i % na) as usize];
        let ctxb = CONTEXTS[ci];
        let mut pda = Pda::new();
        for &c in ctxb {
            assert!(pda.step(c), "start context is not viable: {}", show(ctxb));
        }
        let base = ctxb.len();
        let mut p = ctxb.to_vec();
        let d = Dfs { alpha, max: depth, base, full_tail_depth };
        // the two top levels are visited by exactly one task each (the first of their group)
        if (i % (na * na)) == 0 {
            d.visit_root_only(&mut p, &pda, rep);
        }
        let mut q1 = pda.clone();
        if !q1.step(a) {
            return; // dead first symbol: probed by the context's own task
        }
        p.push(a);
        if (i % na) == 0 {
            d.visit_root_only(&mut p, &q1, rep);
        }
        let mut q2 = q1.clone();
        if !q2.step(b) {
            return;
        }
        p.push(b);
        d.visit(&mut p, &q2, rep);
    });
    rep.merge(r);
    rep.mark_exhaustive(name, &format!("{} start contexts x every viable prefix of <= {depth} further symbols over a {}-symbol alphabet; every dead 1-symbol extension probed alone and with {} continuations (1-2 symbols over {{x \" ] SP 0 80}} x {{}} \" 0 80}} plus token-completing tails) at interior depth <= {full_tail_depth}, {} continuations (level 1 + token-completing) deeper", CONTEXTS.len(), alpha.len(), probe_tails(true).len(), probe_tails(false).len()));
}

impl Dfs<'_> {
    /// Visit `p` (judge it and probe its dead extensions) without descending into viable children.
    fn visit_root_only(&self, p: &mut Vec<u8>, pda: &Pda, rep: &mut Report) {
        rep.input();
        let a = Analysis { valid: pda.accepting(), d: p.len(), last: pda.st, depth: pda.stack.len() };
        judge(p, &a, rep);
        for &c in self.alpha {
            let mut q = pda.clone();
            if !q.step(c) {
                let dead = Analysis { valid: false, d: p.len(), last: pda.st, depth: pda.stack.len() };
                probe_dead(p, c, &dead, p.len() - self.base <= self.full_tail_depth, rep);
            }
        }
    }
}

// ------------------------------------------------------------------ (ii) document grammar + mutation closure

#[derive(Clone, Debug)]
enum Node {
    Scalar(&'static str),
    Arr(Vec<Node>),
    Obj(Vec<(&'static str, Node)>),
}

const SCALARS_FULL: &[&str] = &[
    "null", "true", "false", "0", "-0", "1", "-1", "10", "1.5", "0.10", "1e2", "1E+2", "-1.5e-3", "1e-7", "100000000000000000000", "\"\"", "\"a\"", "\" a \"", "\"\\\"\"", "\"\\\\\"",
    "\"\\/\"", "\"\\b\\f\\n\\r\\t\"", "\"\\u0041\"", "\"\\u00e9\"", "\"\\ud83d\\ude00\"", "\"é\"", "\"😀\"", "\"a\\u0000b\"", "\"\\u007f\"",
];
const KEYS_FULL: &[&str] = &["\"a\"", "\"b\"", "\"\"", "\"\\u0061\"", "\"é\""];
const SCALARS_MID: &[&str] = &["null", "-0", "1.5", "1e2", "\"a\"", "\"\\u00e9\"", "\"\\ud83d\\ude00\"", "\"é\""];
const KEYS_MID: &[&str] = &["\"a\"", "\"\\u0061\""];
const SCALARS_MIN: &[&str] = &["-0", "1E+2", "\"\\uD83D\\uDE00\"", "\"é\""];
const KEYS_MIN: &[&str] = &["\"a\""];

/// All trees with exactly `n` nodes over the given leaf alphabets.
fn trees(n: usize, scalars: &[&'static str], keys: &[&'static str]) -> Vec<Node> {
    let mut out = Vec::new();
    if n == 0 {
        return out;
    }
    if n == 1 {
        out.extend(scalars.iter().map(|s| Node::Scalar(s)));
        out.push(Node::Arr(vec![]));
        out.push(Node::Obj(vec![]));
        return out;
    }
    // container + forests of n-1 nodes
    for f in forests(n - 1, scalars, keys) {
        out.push(Node::Arr(f.clone()));
        // keys: every assignment of keys to members
        let m = f.len();
        let mut idx = vec![0usize; m];
        loop {
            out.push(Node::Obj(f.iter().cloned().enumerate().map(|(i, c)| (keys[idx[i]], c)).collect()));
            let mut k = 0;
            while k < m {
                idx[k] += 1;
                if idx[k] < keys.len() {
                    break;
                }
                idx[k] = 0;
                k += 1;
            }
            if k == m {
                break;
            }
        }
    }
    out
}

/// All non-empty ordered forests with exactly `n` nodes in total.
fn forests(n: usize, scalars: &[&'static str], keys: &[&'static str]) -> Vec<Vec<Node>> {
    let mut out = Vec::new();
    if n == 0 {
        return out;
    }
    for first in 1..=n {
        let heads = trees(first, scalars, keys);
        if first == n {
            out.extend(heads.into_iter().map(|h| vec![h]));
        } else {
            let tails = forests(n - first, scalars, keys);
            for h in &heads {
                for t in &tails {
                    let mut v = vec![h.clone()];
                    v.extend(t.iter().cloned());
                    out.push(v);
                }
            }
        }
    }
    out
}

/// Render with whitespace `ws(gap_index)` in every gap; returns the number of gaps.
fn render(n: &Node, ws: &dyn Fn(usize) -> &'static str, gap: &mut usize, out: &mut Vec<u8>) {
    let mut g = |out: &mut Vec<u8>, gap: &mut usize| {
        out.extend_from_slice(ws(*gap).as_bytes());
        *gap += 1;
    };
    match n {
        Node::Scalar(s) => out.extend_from_slice(s.as_bytes()),
        Node::Arr(items) => {
            out.push(b'[');
            g(out, gap);
            for (i, it) in items.iter().enumerate() {
                if i > 0 {
                    out.push(b',');
                    g(out, gap);
                }
                render(it, ws, gap, out);
                g(out, gap);
            }
            out.push(b']');
        }
        Node::Obj(items) => {
            out.push(b'{');
            g(out, gap);
            for (i, (k, v)) in items.iter().enumerate() {
                if i > 0 {
                    out.push(b',');
                    g(out, gap);
                }
                out.extend_from_slice(k.as_bytes());
                g(out, gap);
                out.push(b':');
                g(out, gap);
                render(v, ws, gap, out);
                g(out, gap);
            }
            out.push(b'}');
        }
    }
}

const WS: [&str; 6] = ["", " ", "\n", "\r\n", "\t", " \n\t\r "];

fn render_doc(n: &Node, ws: &dyn Fn(usize) -> &'static str) -> (Vec<u8>, usize) {
    let mut out = Vec::new();
    let mut gap = 0usize;
    out.extend_from_slice(ws(gap).as_bytes());
    gap += 1;
    render(n, ws, &mut gap, &mut out);
    out.extend_from_slice(ws(gap).as_bytes());
    gap += 1;
    (out, gap)
}

fn documents(ctx: &Ctx) -> Vec<Vec<u8>> {
    let mut ts: Vec<Node> = Vec::new();
    for n in 1..=2 {
        ts.extend(trees(n, SCALARS_FULL, KEYS_FULL));
    }
    ts.extend(trees(3, SCALARS_MID, KEYS_MID));
    if ctx.thorough() {
        ts.extend(trees(4, SCALARS_MIN, KEYS_MIN));
    }
    let mut docs: Vec<Vec<u8>> = Vec::new();
    for t in &ts {
        for w in WS {
            docs.push(render_doc(t, &|_| w).0);
        }
    }
    // pattern w in exactly one gap, for all gaps and w (on the mid-size trees only: 3-node trees over the mid alphabets)
    let one_gap_trees = if ctx.thorough() { trees(3, SCALARS_MIN, KEYS_MIN) } else { trees(2, SCALARS_MIN, KEYS_MIN) };
    for t in &one_gap_trees {
        let gaps = render_doc(t, &|_| "").1;
        for g in 0..gaps {
            for w in &WS[1..] {
                docs.push(render_doc(t, &|i| if i == g { w } else { "" }).0);
            }
        }
    }
    docs.sort();
    docs.dedup();
    docs
}

fn mutation_bytes(quick: bool) -> Vec<u8> {
    if quick {
        let mut v = FULL_ALPHA.to_vec();
        v.extend([0x01, 0x0b, 0x0c, b'!', b'~', 0xa9, 0xc3, 0xfe, b'2', b'A', b'z', b'N', b'I', b'\'']);
        v.sort_unstable();
        v.dedup();
        v
    } else {
        (0..=255u8).collect()
    }
}

fn mutation_closure(doc: &[u8], bytes: &[u8], rep: &mut Report) {
    let a = analyse(doc);
    assert!(a.valid, "document generator produced a text the reference PDA rejects: {}", show(doc));
    rep.input();
    judge(doc, &a, rep);
    let mut m: Vec<u8> = Vec::with_capacity(doc.len() + 1);
    for i in 0..=doc.len() {
        // insert every byte at i
        m.clear();
        m.extend_from_slice(&doc[..i]);
        m.push(0);
        m.extend_from_slice(&doc[i..]);
        for &b in bytes {
            m[i] = b;
            check(&m, rep);
        }
        if i < doc.len() {
            // replace by every other byte
            m.clear();
            m.extend_from_slice(doc);
            for &b in bytes {
                if b != doc[i] {
                    m[i] = b;
                    check(&m, rep);
                }
            }
            // delete
            m.clear();
            m.extend_from_slice(&doc[..i]);
            m.extend_from_slice(&doc[i + 1..]);
            check(&m, rep);
            // truncate
            check(&doc[..i], rep);
        }
    }
}

// ------------------------------------------------------------------ (iii) nesting families

fn nesting_docs() -> Vec<Vec<u8>> {
    let mut out = Vec::new();
    for depth in [1usize, 2, 64, 100, 126, 127, 128, 129, 130, 200, 1000] {
        for kind in 0..4 {
            let mut t: Vec<u8> = Vec::new();
            let mut closers: Vec<u8> = Vec::new();
            for lvl in 0..depth {
                let obj = match kind {
                    0 => false,
                    1 => true,
                    2 => lvl % 2 == 1,
                    _ => lvl % 2 == 0,
                };
                if obj {
                    t.extend_from_slice(b"{\"a\":");
                    closers.push(b'}');
                } else {
                    t.push(b'[');
                    closers.push(b']');
                }
            }
            let open_len = t.len();
            for inner in [&b"1"[..], b"", b"[]", b"{}", b"\"x\""] {
                let mut d = t.clone();
                d.extend_from_slice(inner);
                d.extend(closers.iter().rev());
                out.push(d);
            }
            // newline-separated opens (line/column of the too-deep error on later lines)
            if depth >= 126 && depth <= 130 && kind == 0 {
                let mut d = Vec::new();
                for lvl in 0..depth {
                    d.push(b'[');
                    d.extend_from_slice([&b"\n"[..], b"\r\n", b"\r", b" "][lvl % 4]);
                }
                out.push(d.clone());
                d.extend(std::iter::repeat(b']').take(depth));
                out.push(d);
            }
            let _ = open_len;
        }
    }
    // siblings must not accumulate depth
    for d in [64usize, 127, 128] {
        let el: Vec<u8> = std::iter::repeat(b'[').take(d - 1).chain(std::iter::repeat(b']').take(d - 1)).collect();
        let mut t = vec![b'['];
        for i in 0..3 {
            if i > 0 {
                t.push(b',');
            }
            t.extend_from_slice(&el);
        }
        t.push(b']');
        out.push(t);
    }
    // Wide families: many *sibling* containers at small real depth. A validator whose depth counter
    // is not restored on every exit path (empty container, early return) drifts with the number of
    // siblings and starts rejecting shallow documents; nothing in the deep families shows that.
    for n in [3usize, 126, 127, 128, 129, 130, 200, 1000] {
        for el in [&b"[]"[..], b"{}", b"[ ]", b"{\n}", b"[1]", b"{\"a\":1}", b"[[]]", b"{\"a\":{}}", b"\"\"", b"0"] {
            for tail in [&b""[..], b",[1]", b",{\"a\":[{}]}", b",[[[1]]]"] {
                // array of n siblings
                let mut t = vec![b'['];
                for i in 0..n {
                    if i > 0 {
                        t.push(b',');
                    }
                    t.extend_from_slice(el);
                }
                t.extend_from_slice(tail);
                t.push(b']');
                out.push(t);
                // object with n members
                let mut t = vec![b'{'];
                for i in 0..n {
                    if i > 0 {
                        t.push(b',');
                    }
                    t.extend_from_slice(format!("\"k{i}\":").as_bytes());
                    t.extend_from_slice(el);
                }
                if !tail.is_empty() {
                    t.extend_from_slice(b",\"z\":");
                    t.extend_from_slice(&tail[1..]);
                }
                t.push(b'}');
                out.push(t);
            }
        }
        // alternating empty array / object siblings, then a nested value
        let mut t = vec![b'['];
        for i in 0..n {
            if i > 0 {
                t.push(b',');
            }
            t.extend_from_slice(if i % 2 == 0 { b"[]" } else { b"{}" });
        }
        t.extend_from_slice(b",[{\"a\":[]}]]");
        out.push(t);
    }
    out
}

// ------------------------------------------------------------------ oracle self-test

fn b64(s: &str) -> Vec<u8> {
    let mut out = Vec::new();
    let mut acc = 0u32;
    let mut bits = 0;
    for c in s.bytes() {
        let v = match c {
            b'A'..=b'Z' => c - b'A',
            b'a'..=b'z' => c - b'a' + 26,
            b'0'..=b'9' => c - b'0' + 52,
            b'+' => 62,
            b'/' => 63,
            _ => continue,
        } as u32;
        acc = (acc << 6) | v;
        bits += 6;
        if bits >= 8 {
            bits -= 8;
            out.push((acc >> bits) as u8);
            acc &= (1 << bits) - 1;
        }
    }
    out
}

/// The reference automaton must agree with every y_/n_ case of the repo's JSONTestSuite corpus.
fn selftest(rep: &mut Report) {
    let repo = std::env::var("VERIF_REPO").unwrap_or_else(|_| "/repo".into());
    let dir = format!("{repo}/tests/data");
    let mut files: Vec<String> = std::fs::read_dir(&dir)
        .map(|rd| rd.filter_map(|e| e.ok()).map(|e| e.file_name().to_string_lossy().to_string()).filter(|n| n.starts_with("json-test-suite-") && n.ends_with(".json")).collect())
        .unwrap_or_default();
    files.sort();
    let Some(f) = files.first() else {
        rep.notes.push("oracle self-test skipped: no tests/data/json-test-suite-*.json in the repository".into());
        return;
    };
    let text = std::fs::read_to_string(format!("{dir}/{f}")).expect("read test suite");
    let v: Value = serde_json::from_str(&text).expect("test suite is JSON");
    let (mut y, mut n) = (0, 0);
    for case in v.as_array().expect("array of cases") {
        let id = case["id"].as_str().unwrap_or("");
        let bytes = b64(case["bytes_b64"].as_str().unwrap_or(""));
        let a = analyse(&bytes);
        match case["expect"].as_str() {
            Some("y") => {
                assert!(a.valid, "ORACLE SELF-TEST: reference PDA rejects must-accept case {id}");
                y += 1;
            }
            Some("n") => {
                assert!(!a.valid, "ORACLE SELF-TEST: reference PDA accepts must-reject case {id}");
                n += 1;
            }
            _ => {}
        }
    }
    assert!(y > 50 && n > 100, "ORACLE SELF-TEST: corpus unexpectedly small ({y} y_, {n} n_)");
    rep.extra.insert("oracle_selftest".into(), json!({"corpus": f, "y_cases_accepted": y, "n_cases_rejected": n}));
    // trimness spot check: every configuration reached by the corpus prefixes can be completed (closing everything)
}

// ------------------------------------------------------------------ driver

fn explore(ctx: &Ctx, rep: &mut Report) {
    selftest(rep);
    let full_depth = ctx.pick(4usize, 5usize);
    dfs_space(ctx, "dfs/full-alphabet", FULL_ALPHA, full_depth, ctx.pick(2, 3), rep);
    let struct_depth = ctx.pick(5usize, 6usize);
    dfs_space(ctx, "dfs/structural-alphabet", STRUCT_ALPHA, struct_depth, 4, rep);
    let docs = documents(ctx);
    let mbytes = mutation_bytes(ctx.quick());
    let r = par_range_in(ctx, "mutation-closure", docs.len() as u64, 4, |i, rep| {
        mutation_closure(&docs[i as usize], &mbytes, rep);
        if i % 1511 == 7 {
            rep.sample(|| json!({"document": show(&docs[i as usize]), "mutations": "every offset x {insert b, replace by b, delete, truncate}; b over 69 representative bytes (quick) / all 256 (thorough)"}));
        }
    });
    rep.merge(r);
    rep.mark_exhaustive("mutation-closure", &format!("{} documents (all trees with <= 2 nodes over 29 scalars / 5 keys, 3 nodes over 8 scalars / 2 keys{}; 6 whitespace patterns in all gaps; each pattern in exactly one gap for 2-node (quick) / 3-node (thorough) trees over 4 scalars / 1 key) x every offset x {{insert b, replace by b, delete, truncate}} for {} byte values b", docs.len(), if ctx.thorough() { ", 4 nodes over 4 scalars / 1 key" } else { "" }, mbytes.len()));
    let nd = nesting_docs();
    let r = par_range_in(ctx, "nesting", nd.len() as u64, 1, |i, rep| {
        let d = &nd[i as usize];
        rep.input();
        check(d, rep);
        // every truncation and a few single-byte edits at the deepest point
        let step = if d.len() > 2000 { 7 } else { 1 };
        let mut k = 0;
        while k < d.len() {
            check(&d[..k], rep);
            k += step;
        }
    });
    rep.merge(r);
    rep.mark_exhaustive("nesting", "arrays / objects / alternating containers of depth {1,2,64,100,126..130,200,1000} around 5 innermost values, complete and at every truncation; newline-separated opens; 3 sibling towers of depth 64/127/128; wide families: {3,126..130,200,1000} sibling containers (empty, whitespace-only, non-empty, scalars) in an array / object, alone and followed by a nested value");
    for t in [&b"\"\\ud800\\ud800\""[..], b"[1,]", b"{\"a\":1}\r\n x"] {
        let a = analyse(t);
        rep.sample(|| json!({"input": show(t), "reference": {"valid": a.valid, "longest_viable_prefix": a.d}, "validator": format!("{:?}", validate(t).map_err(|e| e.to_string()))}));
    }
    rep.extra.insert("full_alphabet_hex".into(), json!(hex(FULL_ALPHA)));
    rep.extra.insert("structural_alphabet".into(), json!(show(STRUCT_ALPHA)));
    rep.extra.insert("start_contexts".into(), json!(CONTEXTS.iter().map(|c| show(c)).collect::<Vec<_>>()));
    rep.extra.insert("dfs_depth".into(), json!({"full": full_depth, "structural": struct_depth}));
}

fn replay(case: &Value, rep: &mut Report) {
    let t = unhex(case["input"].as_str().unwrap());
    check(&t, rep);
}

fn main() {
    drive("C08", explore, replay);
}
