//! crashkit — the crash oracle shared by the C19 and C30 explorers.
//!
//! Two layers:
//!
//! 1. **Panic capture** (`install_hook`, `pcatch`, `panic_sig`): a panic hook
//!    records *where* a panic was raised (file, message and — when the
//!    location is outside the repository, e.g. `capacity overflow` inside
//!    `alloc` — the innermost `succinctly::` frame of the backtrace). A
//!    signature is built from the source file and a normalised message class,
//!    never from the input, so one root cause yields one signature and a new
//!    root cause yields a new one.
//!
//! 2. **Containment** (`supervise`, `supervise_one`, `worker_main`): stack
//!    overflow and allocation failure *abort* the process, so every subject
//!    call runs in a worker process (the same binary started with
//!    `--worker`). A worker journals the case it is about to run; when it
//!    dies (abort, signal, watchdog kill) the supervisor attributes the death
//!    to the journaled case, reports it, re-queues the rest of the chunk and
//!    starts a new worker. Workers run cases on an 8 MiB stack (the main-thread
//!    default of a Linux process) under an address-space limit, so an absurd
//!    allocation fails fast instead of exhausting the machine.
//!
//! Nothing here calls the code under test.
#![allow(dead_code)]
use engine::*;
use serde_json::{json, Map, Value};
use std::cell::RefCell;
use std::collections::VecDeque;
use std::io::{BufRead, BufReader, Write};
use std::os::unix::fs::FileExt;
use std::os::unix::process::ExitStatusExt;
use std::panic::{catch_unwind, AssertUnwindSafe};
use std::process::{Child, Command, Stdio};
use std::sync::atomic::{AtomicI64, AtomicU64, Ordering};
use std::sync::{mpsc, Mutex, Once};
use std::time::{Duration, Instant};

// ------------------------------------------------------------ panic capture --

#[derive(Clone, Debug)]
pub struct PanicRec {
    pub file: String,
    pub line: u32,
    pub msg: String,
    /// innermost `succinctly::` frame, captured only when the location is outside the repository
    pub frame: Option<String>,
}

thread_local! {
    static LAST: RefCell<Option<PanicRec>> = const { RefCell::new(None) };
}
static HOOK: Once = Once::new();

/// (normalised path, origin) — origin is "repo", "std", "dep" or "harness".
pub fn norm_file(file: &str) -> (String, &'static str) {
    if file.contains("/rustc/") || file.contains("/library/") {
        let tail = file.rsplit_once("/library/").map(|x| x.1).unwrap_or(file);
        return (format!("std:{tail}"), "std");
    }
    if file.contains("/registry/") {
        let tail = file.rsplit_once("/registry/").map(|x| x.1).unwrap_or(file);
        let tail = tail.split_once('/').map(|x| x.1).unwrap_or(tail); // drop "src"
        let tail = tail.split_once('/').map(|x| x.1).unwrap_or(tail); // drop index host dir
        return (format!("dep:{tail}"), "dep");
    }
    if file.contains("/harness/") || file.starts_with("svh/") || file.starts_with("engine/") {
        return (file.to_string(), "harness");
    }
    match file.find("/src/") {
        Some(i) => (file[i + 1..].to_string(), "repo"),
        None => (file.to_string(), "repo"),
    }
}

/// Normalised class of a panic / abort message: first clause, digits folded, slugified.
pub fn msg_class(msg: &str) -> String {
    let first = msg.lines().next().unwrap_or("");
    let first = first.split(';').next().unwrap_or("");
    let mut out = String::new();
    let mut prev_digit = false;
    let mut in_tick = false;
    for ch in first.chars() {
        if ch == '`' {
            in_tick = !in_tick;
            continue;
        }
        if ch.is_ascii_digit() {
            if !prev_digit {
                out.push('N');
            }
            prev_digit = true;
            continue;
        }
        prev_digit = false;
        if ch.is_ascii_alphanumeric() || ch == '_' || ch == ':' || ch == '(' || ch == ')' || ch == '.' {
            out.push(ch);
        } else if !out.ends_with('-') {
            out.push('-');
        }
        if out.len() >= 72 {
            break;
        }
    }
    out.trim_matches('-').to_string()
}

fn clean_frame(name: &str) -> String {
    let mut s = name.trim().to_string();
    if let Some(i) = s.rfind("::h") {
        if s.len() - i == 19 && s[i + 3..].chars().all(|c| c.is_ascii_hexdigit()) {
            s.truncate(i);
        }
    }
    let s = s.replace("succinctly::", "").replace("{{closure}}", "closure").replace(['<', '>'], "");
    s.chars().take(90).collect()
}

/// Innermost frame of a textual backtrace that belongs to the crate under test.
pub fn first_repo_frame(bt: &str) -> Option<String> {
    for l in bt.lines() {
        let t = l.trim_start();
        let Some((n, rest)) = t.split_once(": ") else { continue };
        if n.is_empty() || !n.chars().all(|c| c.is_ascii_digit()) {
            continue;
        }
        let r = rest.trim();
        if r.starts_with("succinctly::") || r.starts_with("<succinctly::") {
            return Some(clean_frame(r));
        }
    }
    None
}

pub fn install_hook() {
    HOOK.call_once(|| {
        let show = std::env::var("VERIF_SHOW_PANICS").is_ok();
        let _ = &show;
        std::panic::set_hook(Box::new(move |info| {
            let (file, line) = info.location().map(|l| (l.file().to_string(), l.line())).unwrap_or_default();
            let msg = if let Some(s) = info.payload().downcast_ref::<&str>() {
                s.to_string()
            } else if let Some(s) = info.payload().downcast_ref::<String>() {
                s.clone()
            } else {
                "<non-string panic>".to_string()
            };
            let origin = norm_file(&file).1;
            let mut frame = None;
            let mut bt_text = String::new();
            if origin != "repo" {
                bt_text = std::backtrace::Backtrace::force_capture().to_string();
                frame = first_repo_frame(&bt_text);
            }
            // one compact line per panic: if this panic cannot unwind (panic inside a destructor during
            // cleanup, ...) the process aborts next and the supervisor finds the cause on stderr
            let short: String = msg.chars().take(200).collect();
            eprintln!("panicked at {file}:{line}: {short}");
            if show {
                if bt_text.is_empty() {
                    bt_text = std::backtrace::Backtrace::force_capture().to_string();
                }
                eprintln!("{bt_text}");
            }
            LAST.with(|l| *l.borrow_mut() = Some(PanicRec { file, line, msg, frame }));
        }));
    });
}

/// Run `f`; a panic is returned with its recorded location.
pub fn pcatch<R>(f: impl FnOnce() -> R) -> Result<R, PanicRec> {
    LAST.with(|l| *l.borrow_mut() = None);
    match catch_unwind(AssertUnwindSafe(f)) {
        Ok(r) => Ok(r),
        Err(p) => {
            let rec = LAST.with(|l| l.borrow_mut().take());
            let rec = rec.unwrap_or_else(|| PanicRec { file: String::new(), line: 0, msg: panic_msg(&p), frame: None });
            if norm_file(&rec.file).1 == "harness" {
                eprintln!("HARNESS BUG: panic in the explorer itself at {}:{}: {}", rec.file, rec.line, rec.msg);
                std::process::exit(3);
            }
            Err(rec)
        }
    }
}

/// Name of the function enclosing `line` of a repository source file, found by scanning
/// the source upwards for the nearest `fn <name>` (robust against inlining, unlike a
/// backtrace frame, and against line drift, unlike the line number). Cached per location.
pub fn enclosing_fn(file: &str, line: u32) -> String {
    static CACHE: Mutex<Option<std::collections::HashMap<(String, u32), String>>> = Mutex::new(None);
    let key = (file.to_string(), line);
    if let Some(v) = CACHE.lock().unwrap().get_or_insert_with(Default::default).get(&key) {
        return v.clone();
    }
    let mut cands = vec![file.to_string()];
    if let Ok(r) = std::env::var("VERIF_REPO") {
        cands.push(format!("{r}/{file}"));
    }
    cands.push(format!("/repo/{file}"));
    let mut name = "unknown-fn".to_string();
    for c in cands {
        if let Ok(text) = std::fs::read_to_string(&c) {
            let lines: Vec<&str> = text.lines().collect();
            let mut i = (line as usize).min(lines.len());
            while i > 0 {
                i -= 1;
                if let Some(n) = fn_name_on(lines[i]) {
                    name = n;
                    break;
                }
            }
            break;
        }
    }
    CACHE.lock().unwrap().get_or_insert_with(Default::default).insert(key, name.clone());
    name
}

fn fn_name_on(l: &str) -> Option<String> {
    let t = l.trim_start();
    if t.starts_with("//") {
        return None;
    }
    let i = if t.starts_with("fn ") { 0 } else { t.find(" fn ")? + 1 };
    let head = &t[..i];
    if !head.split_whitespace().all(|w| w.starts_with("pub") || matches!(w, "const" | "unsafe" | "async" | "extern" | "\"C\"" | "default")) {
        return None;
    }
    let rest = &t[i + 3..];
    let n: String = rest.chars().take_while(|c| c.is_ascii_alphanumeric() || *c == '_').collect();
    if n.is_empty() {
        None
    } else {
        Some(n)
    }
}

pub fn is_huge_alloc_msg(msg: &str) -> bool {
    msg.starts_with("capacity overflow") || msg.starts_with("memory allocation of")
}

/// Signature of a caught panic. Repository-located panics are named by file and
/// message class; `capacity overflow` (raised inside `alloc`) is the unwinding twin
/// of an allocation-failure abort and shares its signature.
pub fn panic_sig(p: &PanicRec) -> String {
    let (file, origin) = norm_file(&p.file);
    let fr = p.frame.clone().unwrap_or_else(|| "unknown-frame".into());
    if is_huge_alloc_msg(&p.msg) {
        return format!("huge-alloc@{fr}");
    }
    if p.msg.starts_with("nesting depth exceeds limit of") {
        // every call site of value::assert_depth (#[track_caller]) is the same mechanism: a deliberate
        // depth guard that refuses by panicking instead of returning an error
        return "panic:depth-guard:nesting-depth-exceeds-limit-of-N".to_string();
    }
    if origin == "repo" {
        format!("panic:{file}:{}:{}", enclosing_fn(&p.file, p.line), msg_class(&p.msg))
    } else {
        format!("panic@{fr}:{}", msg_class(&p.msg))
    }
}

pub fn panic_json(p: &PanicRec) -> Value {
    json!({"message": p.msg.chars().take(300).collect::<String>(), "location": format!("{}:{}", norm_file(&p.file).0, p.line), "function": enclosing_fn(&p.file, p.line), "frame": p.frame})
}

// ------------------------------------------------------------- containment --

static JOURNAL: std::sync::OnceLock<std::fs::File> = std::sync::OnceLock::new();
static STAGES_ON: std::sync::atomic::AtomicBool = std::sync::atomic::AtomicBool::new(false);

/// Enable / disable stage journaling (one pwrite per stage; used for the nesting
/// families and replays, where a stack overflow must be attributed to an API).
pub fn stage_journal(on: bool) {
    STAGES_ON.store(on, Ordering::Relaxed);
    if !on {
        stage_write("");
    }
}

fn stage_write(name: &str) {
    if let Some(f) = JOURNAL.get() {
        let mut b = [0u8; 40];
        let n = name.len().min(40);
        b[..n].copy_from_slice(&name.as_bytes()[..n]);
        let _ = f.write_at(&b, 24);
    }
}

/// Record which API is about to run (no-op unless stage journaling is on).
#[inline]
pub fn stage(name: &str) {
    if STAGES_ON.load(Ordering::Relaxed) {
        stage_write(name);
    }
}

#[derive(Clone, Debug)]
pub struct Crash {
    /// API stage journaled last (empty when stage journaling was off)
    pub stage: String,
    /// "S<signal>", "<exit code>" or "T" (killed by the per-case watchdog)
    pub status: String,
    pub stderr_tail: String,
    pub timeout: bool,
}

/// What a dead worker's stderr says about the cause.
#[derive(Clone, Debug, PartialEq)]
pub enum DeathKind {
    /// `memory allocation of N bytes failed` (N recorded)
    Alloc(u64),
    StackOverflow,
    /// a panic that could not unwind / panic=abort style message
    PanicAbort(String),
    Timeout,
    Other,
}

pub fn death_kind(c: &Crash) -> DeathKind {
    if c.timeout {
        return DeathKind::Timeout;
    }
    let t = &c.stderr_tail;
    if let Some(i) = t.rfind("memory allocation of ") {
        let n: String = t[i + 21..].chars().take_while(|c| c.is_ascii_digit()).collect();
        return DeathKind::Alloc(n.parse().unwrap_or(u64::MAX));
    }
    if t.contains("has overflowed its stack") || t.contains("stack overflow") {
        return DeathKind::StackOverflow;
    }
    if let Some(i) = t.rfind("panicked at ") {
        return DeathKind::PanicAbort(t[i..].lines().take(2).collect::<Vec<_>>().join(" "));
    }
    DeathKind::Other
}

/// Requests at or above this size cannot be satisfied on any x86-64 Linux process
/// (user address space is 2^47): failing them is the program's doing, not the
/// address-space limit's.
pub const IMPOSSIBLE_ALLOC: u64 = 1 << 46;

pub struct SpaceDef {
    pub name: String,
    pub n: u64,
    pub chunk: u64,
}

/// Development aid: VERIF_SPACES=a,b restricts a run to the named sub-spaces (the others get n = 0).
pub fn only_spaces(defs: &mut [SpaceDef]) {
    if let Ok(v) = std::env::var("VERIF_SPACES") {
        let keep: Vec<&str> = v.split(',').collect();
        for d in defs.iter_mut() {
            if !keep.contains(&d.name.as_str()) {
                d.n = 0;
            }
        }
    }
}

pub struct Contain {
    /// run workers with RUST_BACKTRACE=1 (only `probe_frame` does)
    pub backtrace: bool,
    pub tier: String,
    pub threads: usize,
    pub rlimit_as: u64,
    pub case_timeout_s: f64,
    pub stack_bytes: usize,
}

impl Contain {
    pub fn from_ctx(ctx: &Ctx) -> Self {
        Contain { backtrace: false, tier: ctx.tier.clone(), threads: ctx.threads.max(1), rlimit_as: 2 << 30, case_timeout_s: if ctx.quick() { 5.0 } else { 10.0 }, stack_bytes: 8 << 20 }
    }
}

#[derive(Clone, Debug)]
pub enum Work {
    Range { space: usize, lo: u64, hi: u64 },
    One(Value),
}

pub enum CaseRef<'a> {
    Idx(usize, u64),
    Val(&'a Value),
}

pub fn is_worker() -> bool {
    std::env::args().any(|a| a == "--worker")
}

fn arg_of(name: &str) -> Option<String> {
    let a: Vec<String> = std::env::args().collect();
    a.iter().position(|x| x == name).and_then(|i| a.get(i + 1).cloned())
}

#[repr(C)]
struct Rlimit {
    cur: u64,
    max: u64,
}
extern "C" {
    fn setrlimit(resource: i32, rlim: *const Rlimit) -> i32;
}
const RLIMIT_AS: i32 = 9;
const RLIMIT_CORE: i32 = 4;

pub fn report_to_wire(r: &Report) -> Value {
    let subs: Map<String, Value> = r
        .subspaces
        .iter()
        .map(|(k, v)| (k.clone(), json!([v.inputs, v.evaluations, v.states, v.transitions, v.exhaustive, v.note])))
        .collect();
    let fails: Vec<Value> = r.failures.iter().map(|(k, v)| json!([k, v.count, v.size, v.example])).collect();
    json!({"s": r.states, "t": r.transitions, "e": r.evaluations, "d": r.distinct.iter().collect::<Vec<_>>(), "sm": r.samples,
           "sub": subs, "f": fails, "p": r.paths.iter().collect::<Vec<_>>(), "c": r.caps, "n": r.notes, "x": r.extra})
}

pub fn report_from_wire(v: &Value) -> Report {
    let mut r = Report::new();
    r.states = v["s"].as_u64().unwrap_or(0);
    r.transitions = v["t"].as_u64().unwrap_or(0);
    r.evaluations = v["e"].as_u64().unwrap_or(0);
    for d in v["d"].as_array().into_iter().flatten() {
        r.distinct.insert(d.as_u64().unwrap_or(0));
    }
    for s in v["sm"].as_array().into_iter().flatten() {
        r.samples.push(s.clone());
    }
    for (k, s) in v["sub"].as_object().into_iter().flatten() {
        r.subspaces.insert(
            k.clone(),
            SubSpace { inputs: s[0].as_u64().unwrap_or(0), evaluations: s[1].as_u64().unwrap_or(0), states: s[2].as_u64().unwrap_or(0), transitions: s[3].as_u64().unwrap_or(0), exhaustive: s[4].as_bool().unwrap_or(false), note: s[5].as_str().unwrap_or("").to_string() },
        );
    }
    for f in v["f"].as_array().into_iter().flatten() {
        r.failures.insert(f[0].as_str().unwrap_or("?").to_string(), Failure { count: f[1].as_u64().unwrap_or(1), size: f[2].as_u64().unwrap_or(0) as usize, example: f[3].clone() });
    }
    for p in v["p"].as_array().into_iter().flatten() {
        r.paths.insert(p.as_str().unwrap_or("").to_string());
    }
    for c in v["c"].as_array().into_iter().flatten() {
        r.caps.push(c.as_str().unwrap_or("").to_string());
    }
    for c in v["n"].as_array().into_iter().flatten() {
        r.notes.push(c.as_str().unwrap_or("").to_string());
    }
    if let Some(m) = v["x"].as_object() {
        r.extra = m.clone();
    }
    r
}

/// Worker entry point: never returns. `run_idx(space, idx, rep)` runs one enumerated
/// case, `run_case(case, rep)` one recorded case (replay).
pub fn worker_main(init: &dyn Fn(), run_idx: &(dyn Fn(usize, u64, &mut Report) + Sync), run_case: &(dyn Fn(&Value, &mut Report) + Sync)) -> ! {
    install_hook();
    let journal = arg_of("--journal").expect("--journal");
    let rl: u64 = arg_of("--rlimit-as").and_then(|s| s.parse().ok()).unwrap_or(0);
    let stack: usize = arg_of("--stack").and_then(|s| s.parse().ok()).unwrap_or(8 << 20);
    // SAFETY: plain libc calls with a valid pointer to a repr(C) struct.
    unsafe {
        let z = Rlimit { cur: 0, max: 0 };
        setrlimit(RLIMIT_CORE, &z);
        if rl > 0 {
            let l = Rlimit { cur: rl, max: rl };
            setrlimit(RLIMIT_AS, &l);
        }
    }
    let jf0 = std::fs::OpenOptions::new().write(true).create(true).truncate(false).open(&journal).expect("journal");
    let _ = JOURNAL.set(jf0);
    let jf = JOURNAL.get().unwrap();
    init();
    let code = std::thread::scope(|s| {
        std::thread::Builder::new()
            .stack_size(stack)
            .spawn_scoped(s, || {
                let stdin = std::io::stdin();
                let mut seq: u64 = 0;
                let mut line = String::new();
                let out = std::io::stdout();
                loop {
                    line.clear();
                    if stdin.lock().read_line(&mut line).unwrap_or(0) == 0 {
                        return 0;
                    }
                    let l = line.trim_end_matches('\n');
                    let mut rep = Report::new();
                    let mut mark = |space: u64, idx: u64, seq: &mut u64| {
                        *seq += 1;
                        let mut b = [0u8; 24];
                        b[..8].copy_from_slice(&space.to_le_bytes());
                        b[8..16].copy_from_slice(&idx.to_le_bytes());
                        b[16..].copy_from_slice(&seq.to_le_bytes());
                        let _ = jf.write_at(&b, 0);
                    };
                    if let Some(rest) = l.strip_prefix("R ") {
                        let p: Vec<u64> = rest.split(' ').map(|x| x.parse().unwrap()).collect();
                        for i in p[1]..p[2] {
                            mark(p[0], i, &mut seq);
                            run_idx(p[0] as usize, i, &mut rep);
                        }
                    } else if let Some(rest) = l.strip_prefix("C ") {
                        let v: Value = serde_json::from_str(rest).expect("case json");
                        mark(u64::MAX, u64::MAX, &mut seq);
                        run_case(&v, &mut rep);
                    } else {
                        eprintln!("worker: bad work line {l:?}");
                        return 3;
                    }
                    let text = serde_json::to_string(&report_to_wire(&rep)).unwrap();
                    let mut o = out.lock();
                    let _ = writeln!(o, "{text}");
                    let _ = o.flush();
                }
            })
            .unwrap()
            .join()
            .unwrap_or(3)
    });
    std::process::exit(code);
}

struct Worker {
    child: Child,
    rx: mpsc::Receiver<Option<String>>,
    journal: std::fs::File,
    stderr_path: String,
}

fn read_stage(f: &std::fs::File) -> String {
    let mut b = [0u8; 40];
    let _ = f.read_at(&mut b, 24);
    let n = b.iter().position(|&c| c == 0).unwrap_or(40);
    String::from_utf8_lossy(&b[..n]).to_string()
}

/// CPU seconds (user + system) consumed so far by process `pid`.
fn cpu_seconds(pid: u32) -> f64 {
    let Ok(s) = std::fs::read_to_string(format!("/proc/{pid}/stat")) else { return 0.0 };
    let Some(i) = s.rfind(')') else { return 0.0 };
    let f: Vec<&str> = s[i + 1..].split_whitespace().collect();
    // after the comm field: state is f[0]; utime and stime are fields 14 and 15 of the line = f[11], f[12]
    let u: f64 = f.get(11).and_then(|x| x.parse().ok()).unwrap_or(0.0);
    let t: f64 = f.get(12).and_then(|x| x.parse().ok()).unwrap_or(0.0);
    (u + t) / 100.0
}

fn read_journal(f: &std::fs::File) -> (u64, u64, u64) {
    let mut b = [0u8; 24];
    let _ = f.read_at(&mut b, 0);
    (u64::from_le_bytes(b[..8].try_into().unwrap()), u64::from_le_bytes(b[8..16].try_into().unwrap()), u64::from_le_bytes(b[16..].try_into().unwrap()))
}

fn spawn_worker(cfg: &Contain, dir: &str, w: usize, gen: u64) -> Worker {
    let jpath = format!("{dir}/journal-{w}");
    let epath = format!("{dir}/stderr-{w}-{gen}");
    let jf = std::fs::OpenOptions::new().read(true).write(true).create(true).truncate(true).open(&jpath).expect("journal file");
    let _ = jf.write_at(&[0u8; 64], 0);
    let ef = std::fs::File::create(&epath).expect("stderr file");
    let exe = std::env::current_exe().expect("current_exe");
    let mut child = Command::new(exe)
        .args(["--worker", "--tier", &cfg.tier, "--journal", &jpath, "--rlimit-as", &cfg.rlimit_as.to_string(), "--stack", &cfg.stack_bytes.to_string()])
        // symbolising a backtrace costs ~2 s per death; frames are fetched on demand by `probe_frame`
        .env("RUST_BACKTRACE", if cfg.backtrace { "1" } else { "0" })
        .stdin(Stdio::piped())
        .stdout(Stdio::piped())
        .stderr(Stdio::from(ef))
        .spawn()
        .expect("spawn worker");
    let so = child.stdout.take().unwrap();
    let (tx, rx) = mpsc::channel();
    std::thread::spawn(move || {
        let mut r = BufReader::with_capacity(1 << 20, so);
        loop {
            let mut l = String::new();
            match r.read_line(&mut l) {
                Ok(0) | Err(_) => {
                    let _ = tx.send(None);
                    return;
                }
                Ok(_) => {
                    if tx.send(Some(l)).is_err() {
                        return;
                    }
                }
            }
        }
    });
    Worker { child, rx, journal: jf, stderr_path: epath }
}

fn tail_of(path: &str, n: usize) -> String {
    let b = std::fs::read(path).unwrap_or_default();
    let s = String::from_utf8_lossy(&b);
    let start = s.len().saturating_sub(n);
    let mut st = start;
    while !s.is_char_boundary(st) {
        st += 1;
    }
    s[st..].to_string()
}

/// Run every case of every space in contained workers. `on_crash` is called (in the
/// supervisor) for each case that killed its worker or was killed by the watchdog.
pub fn supervise(cfg: &Contain, spaces: &[SpaceDef], rep: &mut Report, on_crash: &(dyn Fn(CaseRef<'_>, &Crash, &mut Report) + Sync)) {
    let mut q = VecDeque::new();
    for (si, s) in spaces.iter().enumerate() {
        let ch = s.chunk.max(1);
        let mut lo = 0;
        while lo < s.n {
            let hi = (lo + ch).min(s.n);
            q.push_back(Work::Range { space: si, lo, hi });
            lo = hi;
        }
    }
    run_queue(cfg, q, rep, on_crash);
}

pub fn supervise_one(cfg: &Contain, case: &Value, rep: &mut Report, on_crash: &(dyn Fn(CaseRef<'_>, &Crash, &mut Report) + Sync)) {
    let mut q = VecDeque::new();
    q.push_back(Work::One(case.clone()));
    run_queue(cfg, q, rep, on_crash);
}

static DIRSEQ: AtomicU64 = AtomicU64::new(0);

fn run_queue(cfg: &Contain, q: VecDeque<Work>, rep: &mut Report, on_crash: &(dyn Fn(CaseRef<'_>, &Crash, &mut Report) + Sync)) {
    // journals are rewritten once per case: keep them on tmpfs so that dirty-page throttling caused by
    // other writers on the machine cannot stall a worker (seen as spurious watchdog hits on a disk-backed /tmp)
    let base = std::env::var("VERIF_CONTAIN_TMP").unwrap_or_else(|_| if std::path::Path::new("/dev/shm").is_dir() { "/dev/shm".to_string() } else { std::env::temp_dir().to_string_lossy().to_string() });
    let dir = format!("{base}/svh-contain-{}-{}", std::process::id(), DIRSEQ.fetch_add(1, Ordering::Relaxed));
    std::fs::create_dir_all(&dir).expect("contain dir");
    let outstanding = AtomicI64::new(q.len() as i64);
    let nworkers = cfg.threads.min(q.len().max(1));
    let queue = Mutex::new(q);
    let merged: Mutex<Vec<Report>> = Mutex::new(Vec::new());
    std::thread::scope(|s| {
        for w in 0..nworkers {
            let queue = &queue;
            let merged = &merged;
            let outstanding = &outstanding;
            let dir = &dir;
            s.spawn(move || {
                let mut local = Report::new();
                let mut worker: Option<Worker> = None;
                let mut gen = 0u64;
                let mut startup_failures = 0;
                loop {
                    let work = queue.lock().unwrap().pop_front();
                    let Some(work) = work else {
                        if outstanding.load(Ordering::SeqCst) <= 0 {
                            break;
                        }
                        std::thread::sleep(Duration::from_millis(5));
                        continue;
                    };
                    if worker.is_none() {
                        gen += 1;
                        worker = Some(spawn_worker(cfg, dir, w, gen));
                    }
                    let wk = worker.as_mut().unwrap();
                    let seq0 = read_journal(&wk.journal).2;
                    let line = match &work {
                        Work::Range { space, lo, hi } => format!("R {space} {lo} {hi}\n"),
                        Work::One(v) => format!("C {}\n", serde_json::to_string(v).unwrap()),
                    };
                    let sent = wk.child.stdin.as_mut().map(|i| i.write_all(line.as_bytes()).and_then(|_| i.flush()).is_ok()).unwrap_or(false);
                    let pid = wk.child.id();
                    let mut last = ((u64::MAX, u64::MAX, u64::MAX), Instant::now(), cpu_seconds(pid));
                    let mut timed_out = false;
                    let mut result: Option<String> = None;
                    if sent {
                        loop {
                            match wk.rx.recv_timeout(Duration::from_millis(100)) {
                                Ok(Some(l)) => {
                                    result = Some(l);
                                    break;
                                }
                                Ok(None) | Err(mpsc::RecvTimeoutError::Disconnected) => break,
                                Err(mpsc::RecvTimeoutError::Timeout) => {
                                    let mut j = read_journal(&wk.journal);
                                    // a stage change counts as progress (stage journaling on): fold it into the sequence number
                                    j.2 = j.2.wrapping_mul(1_000_003).wrapping_add(h64(&read_stage(&wk.journal)));
                                    if j != last.0 {
                                        last = (j, Instant::now(), cpu_seconds(pid));
                                    } else if !timed_out && (cpu_seconds(pid) - last.2 > cfg.case_timeout_s || last.1.elapsed().as_secs_f64() > 15.0 * cfg.case_timeout_s) {
                                        timed_out = true;
                                        let _ = wk.child.kill();
                                    }
                                }
                            }
                        }
                    }
                    if let Some(l) = result {
                        let v: Value = serde_json::from_str(&l).expect("worker report json");
                        local.merge(report_from_wire(&v));
                        outstanding.fetch_sub(1, Ordering::SeqCst);
                        startup_failures = 0;
                        continue;
                    }
                    // the worker died
                    let mut wk = worker.take().unwrap();
                    let st = wk.child.wait().expect("wait");
                    let status = if timed_out {
                        "T".to_string()
                    } else if let Some(sig) = st.signal() {
                        format!("S{sig}")
                    } else {
                        st.code().map(|c| c.to_string()).unwrap_or_else(|| "?".into())
                    };
                    let (jspace, jidx, jseq) = read_journal(&wk.journal);
                    let tail = tail_of(&wk.stderr_path, 6000);
                    if status == "3" {
                        panic!("contained worker reported a harness bug: {tail}");
                    }
                    if jseq == seq0 {
                        // died before starting any case of this work item: machinery trouble, retry
                        startup_failures += 1;
                        if startup_failures > 3 {
                            panic!("contained worker keeps dying before running a case (status {status}): {tail}");
                        }
                        queue.lock().unwrap().push_front(work);
                        continue;
                    }
                    let crash = Crash { stage: read_stage(&wk.journal), status, stderr_tail: tail, timeout: timed_out };
                    match &work {
                        Work::Range { space, lo, hi } => {
                            assert!(jspace as usize == *space && jidx >= *lo && jidx < *hi, "journal ({jspace},{jidx}) outside the dispatched range ({space},{lo},{hi})");
                            on_crash(CaseRef::Idx(*space, jidx), &crash, &mut local);
                            let mut add = 0;
                            let mut ql = queue.lock().unwrap();
                            if jidx + 1 < *hi {
                                ql.push_front(Work::Range { space: *space, lo: jidx + 1, hi: *hi });
                                add += 1;
                            }
                            if jidx > *lo {
                                ql.push_front(Work::Range { space: *space, lo: *lo, hi: jidx });
                                add += 1;
                            }
                            drop(ql);
                            outstanding.fetch_add(add - 1, Ordering::SeqCst);
                        }
                        Work::One(v) => {
                            on_crash(CaseRef::Val(v), &crash, &mut local);
                            outstanding.fetch_sub(1, Ordering::SeqCst);
                        }
                    }
                }
                if let Some(mut wk) = worker.take() {
                    drop(wk.child.stdin.take());
                    let _ = wk.child.wait();
                }
                merged.lock().unwrap().push(local);
            });
        }
    });
    for r in merged.into_inner().unwrap() {
        rep.merge(r);
    }
    if std::env::var("VERIF_KEEP_CONTAIN").is_err() {
        let _ = std::fs::remove_dir_all(&dir);
    } else {
        eprintln!("contain dir kept: {dir}");
    }
}

/// Re-run one recorded case alone with RUST_BACKTRACE=1 and return the innermost frame of the crate
/// under test found on the dead worker's stderr. Results are cached by `key` (one probe per root-cause
/// candidate, not per failing operand): a backtrace costs seconds to symbolise.
pub fn probe_frame(key: &str, tier: &str, rlimit_as: u64, case: &Value) -> String {
    static CACHE: Mutex<Option<std::collections::HashMap<String, String>>> = Mutex::new(None);
    if let Some(v) = CACHE.lock().unwrap().get_or_insert_with(Default::default).get(key) {
        return v.clone();
    }
    let cfg = Contain { backtrace: true, tier: tier.to_string(), threads: 1, rlimit_as, case_timeout_s: 30.0, stack_bytes: 8 << 20 };
    let found: Mutex<Option<String>> = Mutex::new(None);
    let mut scratch = Report::new();
    supervise_one(&cfg, case, &mut scratch, &|_c, crash, _r| {
        *found.lock().unwrap() = first_repo_frame(&crash.stderr_tail);
    });
    let fr = found.into_inner().unwrap().unwrap_or_else(|| "unknown-frame".to_string());
    CACHE.lock().unwrap().get_or_insert_with(Default::default).insert(key.to_string(), fr.clone());
    fr
}

/// Signature + evidence for a death that is a violation, or None when it is
/// undecided (watchdog timeout, allocation refused only because of our own
/// address-space limit). `seam` names the API / program family that was running.
pub fn death_verdict(c: &Crash, seam: &str, frame: &dyn Fn() -> String) -> Result<String, String> {
    match death_kind(c) {
        DeathKind::Timeout => Err("timeout".into()),
        DeathKind::Alloc(n) if n < IMPOSSIBLE_ALLOC => Err(format!("alloc-under-rlimit:{n}")),
        DeathKind::Alloc(_) => Ok(format!("huge-alloc@{}", first_repo_frame(&c.stderr_tail).unwrap_or_else(frame))),
        DeathKind::StackOverflow => Ok(format!("stack-overflow:{seam}")),
        DeathKind::PanicAbort(m) => Ok(format!("panic-abort@{}:{}", first_repo_frame(&c.stderr_tail).unwrap_or_else(frame), msg_class(m.split(": ").last().unwrap_or(&m)))),
        DeathKind::Other => Ok(format!("died:{}:{seam}", c.status)),
    }
}
