SPEC = dict(
    kind="mixed", bins=rust("c30"), module="c30cli", design_ref="§3-C30",
    technique="bounded-exhaustive enumeration of programs (operand templates x extreme operands x inputs, deep-value builders, program token strings, "
              "program nesting families) x evaluators with a crash oracle, in crash-contained worker processes (library) and through the batched real CLI",
    rule="programs: 118 templates x N, M in {0,-0,1,-1,0.5,1e19,-1e19,1e308,infinite,-infinite,nan,2147483648,4294967296,9007199254740993,1e1000} minus 89 "
         "instances excluded by construction (gigabyte allocations, non-terminating ranges / recursions; listed with counts in the evidence) x 4 inputs; "
         "builders of values nested 255..5000 deep x consumers; every string of <=3 (thorough 4) tokens over the 62-token alphabet joined by ' ' and by ''; "
         "20 program nesting shapes x depth {128..100000}; each under the full evaluator (jq and yq semantics) and the generic cursor evaluator, and through "
         "`succinctly jq` / `succinctly yq`. A case is distinct+non-trivial when (template, evaluator, input, outcome class, output size class) — CLI: "
         "(command, status, stderr class) — is new",
    level_text="Every program of the bounded space is parsed and evaluated to completion by all evaluators of the real library, every output materialised and "
               "printed, and run through the real jq / yq command lines. A panic, abort, signal or stack overflow is reported with a signature naming the "
               "panic's source file, enclosing function and message class (allocation failures: the innermost library frame, obtained by re-running the "
               "case with a backtrace). Exhaustive over the stated alphabets; programs that do not terminate or legitimately need gigabytes are kept out "
               "by construction and counted.",
    level_note="Harness profile = release + debug-assertions + overflow-checks. Library cases run one (program, evaluator) per contained case in worker "
               "processes (8 MiB stack, 1 GiB address space, 5 s CPU watchdog): a dead worker is attributed to the journaled case. CLI jobs run through "
               "__verif-batch workers started under `ulimit -v` with a per-job CPU watchdog; a slice is re-run as real processes (byte-identical) and every "
               "crash candidate is re-run as a real process. Allocation requests below 2^46 bytes that fail only because of the limit, and watchdog hits, "
               "are 'undecided' and listed, never a verdict. The CLI half stays at <=3 program tokens in both tiers (every CLI crash candidate costs a real process; the library half runs all 62^4 four-token "
               "programs under three evaluators).",
    assumptions=["operands outside the 15-value set and programs outside the templates / token alphabet are out of scope",
                 "a request for >= 2^46 bytes is 'impossibly large' (exceeds the x86-64 user address space); 2^27..2^46 is 'legitimately large' and excluded",
                 "a stack overflow is judged on an 8 MiB stack (the main-thread default)"],
)
