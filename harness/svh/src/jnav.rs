//! Navigation / position checks of a `JsonIndex<W>` against a generated
//! document (`jgen::Doc`). Generic over the storage `W`, so C31 can run the
//! same query set on indexes rebuilt with `from_parts` (owned and borrowed).
//!
//! Oracle = the generator's token tree only (spans, parents, order, values)
//! plus naive bit scans; nothing here asks succinctly for the expected answer.
#![allow(dead_code)]
use crate::jgen::{Doc, Kind, LeafVal, JV};
use engine::*;
use serde_json::{json, Value};
use succinctly::json::light::{JsonCursor, JsonIndex, StandardJson};

/// Expected BP position of node `id`: every earlier node contributed an open,
/// every earlier node that is not an ancestor also a close.
pub fn expected_bp(doc: &Doc, id: usize) -> usize {
    2 * id - doc.nodes[id].depth
}

pub struct Ck<'r, 'd> {
    pub rep: &'r mut Report,
    pub doc: &'d Doc,
    /// signature prefix ("" for the original index, "from_parts-owned:" …)
    pub tag: String,
    /// restrict quadratic query sets (scale families)
    pub big: bool,
    pub empty_containers_is_container_true: u64,
    pub empty_containers: u64,
}

impl<'r, 'd> Ck<'r, 'd> {
    pub fn new(rep: &'r mut Report, doc: &'d Doc, tag: &str, big: bool) -> Self {
        Ck { rep, doc, tag: tag.to_string(), big, empty_containers_is_container_true: 0, empty_containers: 0 }
    }
    fn fail(&mut self, sig: &str, extra: Value) {
        let doc = self.doc;
        let full = format!("{}{}", self.tag, sig);
        let tag = self.tag.clone();
        self.rep.fail(&full, doc.text.len(), || {
            let mut c = doc.case();
            c["detail"] = extra;
            c["variant_tag"] = json!(tag);
            c
        });
    }
    fn feat(&self, id: usize) -> String {
        let n = &self.doc.nodes[id];
        let mut f = String::from(n.kind.name());
        if n.is_key {
            f.push_str("-key");
        }
        if n.end == self.doc.text.len() {
            f.push_str(":at-eof");
        }
        f
    }
}

/// Materialised value read through the public API only.
#[derive(Debug, Clone, PartialEq)]
pub enum MV {
    Null,
    Bool(bool),
    Num { raw: String, f: Option<f64>, i: Option<i64> },
    Str(Result<String, String>),
    Arr(Vec<MV>),
    Obj(Vec<(MV, MV)>),
    Error(String),
}

pub fn materialize<W: AsRef<[u64]>>(v: &StandardJson<'_, W>) -> MV {
    match v {
        StandardJson::Null => MV::Null,
        StandardJson::Bool(b) => MV::Bool(*b),
        StandardJson::Number(n) => MV::Num { raw: String::from_utf8_lossy(n.raw_bytes()).into_owned(), f: n.as_f64().ok(), i: n.as_i64().ok() },
        StandardJson::String(s) => MV::Str(s.as_str().map(|c| c.into_owned()).map_err(|e| format!("{e:?}"))),
        StandardJson::Array(es) => {
            let mut out = vec![];
            let mut cur = *es;
            while let Some((x, rest)) = cur.uncons() {
                out.push(materialize(&x));
                cur = rest;
            }
            MV::Arr(out)
        }
        StandardJson::Object(fs) => {
            let mut out = vec![];
            let mut cur = *fs;
            while let Some((f, rest)) = cur.uncons() {
                out.push((materialize(&f.key()), materialize(&f.value())));
                cur = rest;
            }
            MV::Obj(out)
        }
        StandardJson::Error(e) => MV::Error(e.to_string()),
    }
}

/// Deep comparison; returns the kind of the first disagreement.
pub fn mv_eq(m: &MV, j: &JV) -> Result<(), &'static str> {
    match (m, j) {
        (MV::Null, JV::Null) => Ok(()),
        (MV::Bool(a), JV::Bool(b)) if a == b => Ok(()),
        (MV::Bool(_), JV::Bool(_)) => Err("bool"),
        (MV::Num { raw, f, i }, JV::Num { f: ef, i: ei, src }) => {
            if raw != src {
                return Err("number-raw");
            }
            if *f != Some(*ef) {
                return Err("number-f64");
            }
            match (i, ei) {
                (Some(a), Some(b)) if a == b => Ok(()),
                (_, Some(_)) => Err("number-i64"),
                // not an in-range integer literal: as_i64 may refuse; if it answers it must be the exact value
                (Some(a), None) if (*a as f64) == *ef && ef.fract() == 0.0 && ef.abs() < 9.0e15 => Ok(()),
                (Some(_), None) => Err("number-i64-spurious"),
                (None, None) => Ok(()),
            }
        }
        (MV::Str(Ok(a)), JV::Str(b)) if a == b => Ok(()),
        (MV::Str(Ok(_)), JV::Str(_)) => Err("string-value"),
        (MV::Str(Err(_)), JV::Str(_)) => Err("string-decode-error"),
        (MV::Arr(a), JV::Arr(b)) => {
            if a.len() != b.len() {
                return Err("array-length");
            }
            for (x, y) in a.iter().zip(b) {
                mv_eq(x, y)?;
            }
            Ok(())
        }
        (MV::Obj(a), JV::Obj(b)) => {
            if a.len() != b.len() {
                return Err("object-field-count");
            }
            for ((k, v), (ek, ev)) in a.iter().zip(b) {
                match k {
                    MV::Str(Ok(s)) if s == ek => {}
                    _ => return Err("object-key"),
                }
                mv_eq(v, ev)?;
            }
            Ok(())
        }
        (MV::Error(_), _) => Err("error-value"),
        _ => Err("kind"),
    }
}

fn kind_of<W>(v: &StandardJson<'_, W>) -> &'static str {
    match v {
        StandardJson::Null => "null",
        StandardJson::Bool(_) => "bool",
        StandardJson::Number(_) => "number",
        StandardJson::String(_) => "string",
        StandardJson::Array(_) => "array",
        StandardJson::Object(_) => "object",
        StandardJson::Error(_) => "error",
    }
}

/// Shallow comparison of a `StandardJson` with node `id`: kind, scalar payload,
/// and for containers the identity (BP position) of the first child.
fn shallow<W: AsRef<[u64]>>(doc: &Doc, id: usize, v: &StandardJson<'_, W>) -> Result<(), &'static str> {
    let n = &doc.nodes[id];
    if kind_of(v) != n.kind.name() {
        return Err("kind");
    }
    match v {
        StandardJson::Null => Ok(()),
        StandardJson::Bool(b) => {
            if Some(&LeafVal::Bool(*b)) == n.val.as_ref() {
                Ok(())
            } else {
                Err("bool")
            }
        }
        StandardJson::Number(_) | StandardJson::String(_) => mv_eq(&materialize(v), &doc.value(id)),
        StandardJson::Array(es) => {
            let first = es.uncons_cursor().map(|(c, _)| c.bp_position());
            if first == n.kids.first().map(|&k| expected_bp(doc, k)) && es.is_empty() == n.kids.is_empty() {
                Ok(())
            } else {
                Err("array-first-element")
            }
        }
        StandardJson::Object(fs) => {
            let first = fs.uncons().map(|(f, _)| f.key_cursor().bp_position());
            if first == n.kids.first().map(|&k| expected_bp(doc, k)) && fs.is_empty() == n.kids.is_empty() {
                Ok(())
            } else {
                Err("object-first-key")
            }
        }
        StandardJson::Error(_) => Err("error-value"),
    }
}

fn index_set(n: usize, big: bool) -> Vec<usize> {
    if !big || n <= 40 {
        (0..n + 2).collect()
    } else {
        let mut v = engine::gen::boundaries(&[0, 63, 64, 512, 4096, n / 2, n], n + 2);
        v.push(n + 1);
        v.push(usize::MAX);
        v.sort_unstable();
        v.dedup();
        v
    }
}

/// C06: walk the whole tree through the public API and compare every node.
pub fn check_nav<W: AsRef<[u64]>>(ck: &mut Ck<'_, '_>, ix: &JsonIndex<W>) {
    let doc = ck.doc;
    let text = &doc.text[..];
    let root = ix.root(text);
    // explicit stack: (node id, cursor)
    let mut stack: Vec<(usize, JsonCursor<'_, W>)> = vec![(0, root)];
    let mut visited = 0usize;
    while let Some((id, c)) = stack.pop() {
        visited += 1;
        let n = &doc.nodes[id];
        ck.rep.trans(8);
        if c.bp_position() != expected_bp(doc, id) {
            let f = ck.feat(id);
            ck.fail(&format!("nav:bp_position:{f}"), json!({"node": id, "got": c.bp_position(), "exp": expected_bp(doc, id)}));
            continue;
        }
        let tp = c.text_position();
        if tp != Some(n.start) {
            let f = ck.feat(id);
            ck.fail(&format!("nav:text_position:{f}"), json!({"node": id, "got": format!("{tp:?}"), "exp": n.start}));
        }
        let tr = c.text_range();
        if tr != Some((n.start, n.end)) {
            let f = ck.feat(id);
            let how = match tr {
                None => "none".to_string(),
                Some((s, e)) if s == n.start => format!("end{:+}", e as i64 - n.end as i64),
                Some(_) => "start".to_string(),
            };
            ck.fail(&format!("nav:text_range:{f}:{how}"), json!({"node": id, "got": format!("{tr:?}"), "exp": [n.start, n.end]}));
        }
        let rb = c.raw_bytes();
        if rb != Some(&text[n.start..n.end]) {
            let f = ck.feat(id);
            ck.fail(&format!("nav:raw_bytes:{f}"), json!({"node": id, "got": rb.map(show), "exp": show(&text[n.start..n.end])}));
        }
        let v = c.value();
        if let Err(w) = shallow(doc, id, &v) {
            let f = ck.feat(id);
            ck.fail(&format!("nav:value:{f}:{w}"), json!({"node": id, "got_kind": kind_of(&v), "span": show(&text[n.start..n.end])}));
        }
        // string / number token views
        match &v {
            StandardJson::String(s) => {
                ck.rep.trans(2);
                if s.raw_bytes() != &text[n.start..n.end] {
                    let f = ck.feat(id);
                    ck.fail(&format!("nav:JsonString.raw_bytes:{f}"), json!({"node": id, "got": show(s.raw_bytes())}));
                }
                let (raw, esc) = s.raw_and_escaped();
                if raw != &text[n.start..n.end] || esc != text[n.start..n.end].contains(&b'\\') {
                    let f = ck.feat(id);
                    ck.fail(&format!("nav:JsonString.raw_and_escaped:{f}"), json!({"node": id, "got": show(raw), "escaped": esc}));
                }
            }
            StandardJson::Number(num) => {
                ck.rep.trans(1);
                if num.raw_bytes() != &text[n.start..n.end] {
                    let f = ck.feat(id);
                    ck.fail(&format!("nav:JsonNumber.raw_bytes:{f}"), json!({"node": id, "got": show(num.raw_bytes())}));
                }
            }
            _ => {}
        }
        // moves
        let par = c.parent().map(|p| p.bp_position());
        if par != n.parent.map(|p| expected_bp(doc, p)) {
            let f = ck.feat(id);
            ck.fail(&format!("nav:parent:{f}"), json!({"node": id, "got": par}));
        }
        let fc = c.first_child().map(|p| p.bp_position());
        if fc != n.kids.first().map(|&k| expected_bp(doc, k)) {
            let f = ck.feat(id);
            ck.fail(&format!("nav:first_child:{f}"), json!({"node": id, "got": fc}));
        }
        let ns_exp = n.parent.and_then(|p| {
            let ks = &doc.nodes[p].kids;
            // kids are increasing ids: binary search
            let pos = ks.binary_search(&id).expect("child listed in parent");
            ks.get(pos + 1).copied()
        });
        let ns = c.next_sibling().map(|p| p.bp_position());
        if ns != ns_exp.map(|k| expected_bp(doc, k)) {
            let f = ck.feat(id);
            ck.fail(&format!("nav:next_sibling:{f}"), json!({"node": id, "got": ns}));
        }
        let has_kids = !n.kids.is_empty();
        if matches!(n.kind, Kind::Arr | Kind::Obj) && !has_kids {
            ck.empty_containers += 1;
            if c.is_container() {
                ck.empty_containers_is_container_true += 1;
            }
        } else if c.is_container() != has_kids {
            let f = ck.feat(id);
            ck.fail(&format!("nav:is_container:{f}"), json!({"node": id, "got": c.is_container()}));
        }
        // children() iterator
        if has_kids {
            ck.rep.trans(1);
            let got: Vec<usize> = c.children().map(|k| k.bp_position()).collect();
            let exp: Vec<usize> = n.kids.iter().map(|&k| expected_bp(doc, k)).collect();
            if got != exp {
                let f = ck.feat(id);
                ck.fail(&format!("nav:children:{f}"), json!({"node": id, "got_len": got.len(), "exp_len": exp.len()}));
                continue;
            }
            // push children with cursors obtained by first_child/next_sibling
            let mut k = c.first_child();
            let mut tmp = vec![];
            for &kid in &n.kids {
                match k {
                    Some(kc) => {
                        tmp.push((kid, kc));
                        k = kc.next_sibling();
                    }
                    None => break,
                }
            }
            stack.extend(tmp.into_iter().rev());
        }
        match (&v, n.kind) {
            (StandardJson::Object(fs), Kind::Obj) => check_object(ck, id, *fs),
            (StandardJson::Array(es), Kind::Arr) => check_array(ck, id, *es),
            _ => {}
        }
    }
    if visited != doc.nodes.len() && ck.rep.failures.is_empty() {
        ck.fail("nav:node-count", json!({"visited": visited, "exp": doc.nodes.len()}));
    }
    // the literal statement: navigating from the root reconstructs the value
    if !ck.big || doc.nodes.len() < 300_000 {
        ck.rep.trans(1);
        let m = materialize(&root.value());
        if let Err(w) = mv_eq(&m, &doc.value(0)) {
            ck.fail(&format!("nav:materialize:{w}"), json!({}));
        }
    }
}

fn check_object<W: AsRef<[u64]>>(ck: &mut Ck<'_, '_>, id: usize, fs: succinctly::json::light::JsonFields<'_, W>) {
    let doc = ck.doc;
    let n = &doc.nodes[id];
    let pairs: Vec<(usize, usize)> = n.kids.chunks(2).map(|c| (c[0], c[1])).collect();
    // uncons chain
    let mut cur = fs;
    let mut i = 0usize;
    loop {
        ck.rep.trans(1);
        match cur.uncons() {
            Some((f, rest)) => {
                if i >= pairs.len() {
                    ck.fail("nav:fields:extra-field", json!({"node": id}));
                    return;
                }
                let (ek, ev) = pairs[i];
                if f.key_cursor().bp_position() != expected_bp(doc, ek) || f.value_cursor().bp_position() != expected_bp(doc, ev) {
                    ck.fail("nav:fields:order", json!({"node": id, "field": i}));
                    return;
                }
                if let Err(w) = shallow(doc, ek, &f.key()) {
                    ck.fail(&format!("nav:field.key:{w}"), json!({"node": id, "field": i}));
                }
                if let Err(w) = shallow(doc, ev, &f.value()) {
                    ck.fail(&format!("nav:field.value:{w}"), json!({"node": id, "field": i}));
                }
                i += 1;
                cur = rest;
            }
            None => {
                if i != pairs.len() || !cur.is_empty() && i == pairs.len() {
                    ck.fail("nav:fields:missing-field", json!({"node": id, "got": i, "exp": pairs.len()}));
                    return;
                }
                break;
            }
        }
    }
    // Iterator impl
    ck.rep.trans(1);
    let it: Vec<(usize, usize)> = fs.map(|f| (f.key_cursor().bp_position(), f.value_cursor().bp_position())).collect();
    let exp: Vec<(usize, usize)> = pairs.iter().map(|&(k, v)| (expected_bp(doc, k), expected_bp(doc, v))).collect();
    if it != exp {
        ck.fail("nav:fields:iterator", json!({"node": id}));
    }
    // find / find_cursor: every distinct decoded name + absent names; expected = LAST occurrence
    let mut names: Vec<String> = pairs.iter().map(|&(k, _)| doc.key_name(k).to_string()).collect();
    if ck.big && names.len() > 64 {
        names.truncate(32);
    }
    // ... plus the *raw source spelling* (between the quotes) of every key of this object: a name that is
    // byte-identical to an escaped key's spelling (`\u0061`, `a\"b`) names a different key (or none) — a lookup
    // that compares raw bytes instead of decoded text answers it wrongly.
    for &(k, _) in pairs.iter().take(64) {
        let n = &doc.nodes[k];
        if n.end >= n.start + 2 {
            if let Ok(raw) = std::str::from_utf8(&doc.text[n.start + 1..n.end - 1]) {
                names.push(raw.to_string());
            }
        }
    }
    names.extend(["zz", "", "A", "a\u{0}", "\\u0061", "\\u0041", "a\\\"b", "\\n"].map(String::from));
    names.sort_unstable();
    names.dedup();
    for name in names.iter().map(|s| s.as_str()) {
        ck.rep.trans(2);
        let occ: Vec<usize> = pairs.iter().filter(|&&(k, _)| doc.key_name(k) == name).map(|&(_, v)| v).collect();
        let exp = occ.last().copied();
        let dup = occ.len() > 1;
        let got_c = fs.find_cursor(name).map(|c| c.bp_position());
        if got_c != exp.map(|v| expected_bp(doc, v)) {
            let how = match (got_c, exp) {
                (None, Some(_)) => "missing",
                (Some(_), None) => "spurious",
                (Some(g), Some(_)) if dup && g == expected_bp(doc, occ[0]) => "first-duplicate-instead-of-last",
                (Some(g), Some(_)) if dup && occ.iter().any(|&o| expected_bp(doc, o) == g) => "middle-duplicate",
                _ => "wrong-field",
            };
            ck.fail(&format!("nav:find_cursor:{how}"), json!({"node": id, "name": name}));
        }
        match (fs.find(name), exp) {
            (None, None) => {}
            (Some(v), Some(e)) => {
                if let Err(w) = shallow(doc, e, &v) {
                    let how = if dup && shallow(doc, occ[0], &v).is_ok() { "first-duplicate-instead-of-last".to_string() } else { format!("wrong:{w}") };
                    ck.fail(&format!("nav:find:{how}"), json!({"node": id, "name": name}));
                }
            }
            (None, Some(_)) => ck.fail("nav:find:missing", json!({"node": id, "name": name})),
            (Some(_), None) => ck.fail("nav:find:spurious", json!({"node": id, "name": name})),
        }
    }
}

fn check_array<W: AsRef<[u64]>>(ck: &mut Ck<'_, '_>, id: usize, es: succinctly::json::light::JsonElements<'_, W>) {
    let doc = ck.doc;
    let n = &doc.nodes[id];
    let kids = &n.kids;
    // uncons / uncons_cursor chains
    let mut cur = es;
    let mut i = 0usize;
    loop {
        ck.rep.trans(2);
        let uc = cur.uncons_cursor();
        match cur.uncons() {
            Some((v, rest)) => {
                if i >= kids.len() {
                    ck.fail("nav:elements:extra-element", json!({"node": id}));
                    return;
                }
                if let Err(w) = shallow(doc, kids[i], &v) {
                    ck.fail(&format!("nav:elements.uncons:{w}"), json!({"node": id, "i": i}));
                }
                if uc.map(|(c, _)| c.bp_position()) != Some(expected_bp(doc, kids[i])) {
                    ck.fail("nav:elements.uncons_cursor", json!({"node": id, "i": i}));
                }
                i += 1;
                cur = rest;
            }
            None => {
                if i != kids.len() || uc.is_some() {
                    ck.fail("nav:elements:missing-element", json!({"node": id, "got": i, "exp": kids.len()}));
                    return;
                }
                break;
            }
        }
    }
    ck.rep.trans(2);
    let exp: Vec<usize> = kids.iter().map(|&k| expected_bp(doc, k)).collect();
    let it: Vec<usize> = es.cursor_iter().map(|c| c.bp_position()).collect();
    if it != exp {
        ck.fail("nav:elements.cursor_iter", json!({"node": id}));
    }
    let mut cnt = 0usize;
    let mut bad = false;
    for (i, v) in es.enumerate() {
        cnt += 1;
        if i >= kids.len() || shallow(doc, kids[i], &v).is_err() {
            bad = true;
        }
    }
    if bad || cnt != kids.len() {
        ck.fail("nav:elements:iterator", json!({"node": id}));
    }
    for i in index_set(kids.len(), ck.big) {
        ck.rep.trans(2);
        for (name, got) in [("get", es.get(i)), ("get_fast", es.get_fast(i))] {
            match (got, kids.get(i)) {
                (None, None) => {}
                (Some(v), Some(&k)) => {
                    if let Err(w) = shallow(doc, k, &v) {
                        ck.fail(&format!("nav:elements.{name}:wrong:{w}"), json!({"node": id, "i": i}));
                    }
                }
                (None, Some(_)) => ck.fail(&format!("nav:elements.{name}:none-in-range"), json!({"node": id, "i": i})),
                (Some(_), None) => ck.fail(&format!("nav:elements.{name}:some-out-of-range"), json!({"node": id, "i": i})),
            }
        }
    }
}

// ------------------------------------------------------------------ C07 part --

/// Positions of the set bits among the first `limit` bits of `words` (naive scan).
pub fn naive_ones(words: &[u64], limit: usize) -> Vec<usize> {
    (0..limit.min(words.len() * 64)).filter(|&i| (words[i / 64] >> (i % 64)) & 1 == 1).collect()
}

/// OR this into `full_k_limit` to leave the k >= 2^32 probes out (C31: that defect belongs to C07).
pub const NO_HUGE_K: usize = 1 << 63;
pub const HUGE_K: [usize; 6] = [(1usize << 32) - 1, 1usize << 32, (1usize << 32) + 1, (1usize << 33) + 1, usize::MAX - 1, usize::MAX];

/// Which `k` to probe: all of `0..=ones+2` (small) or boundary ranks (large).
pub fn k_set(ones: usize, full_k_limit: usize, huge: bool) -> Vec<usize> {
    let mut v: Vec<usize> = if ones <= full_k_limit { (0..ones + 3).collect() } else { engine::gen::boundaries(&[0, 8, 63, 64, 65, 512, ones / 3, ones / 2, ones], ones + 2) };
    if huge {
        v.extend(HUGE_K);
    }
    v
}

/// rank / select / hinted select of an index against its own interest bits.
/// `text_len` = number of valid IB bits. `case` describes the input for replay.
/// Returns the positions of the set bits.
pub fn check_rank_select<W: AsRef<[u64]>>(rep: &mut Report, tag: &str, ix: &JsonIndex<W>, text_len: usize, full_k_limit: usize, hint_budget: u64, case: &dyn Fn() -> Value) -> Vec<usize> {
    let big = text_len > 3000;
    let words = ix.ib();
    let ones = naive_ones(words, text_len);
    let nw = words.len();
    let size = text_len;
    let fail = |rep: &mut Report, sig: String, extra: Value| {
        rep.fail(&format!("{tag}{sig}"), size, || {
            let mut c = case();
            c["detail"] = extra;
            c
        })
    };
    // rank
    let ps: Vec<usize> = if !big {
        (0..text_len + 3).chain([text_len + 64, text_len + 129, usize::MAX]).collect()
    } else {
        let mut v = engine::gen::boundaries(&[0, 64, 128, 512, 4096, text_len / 2, text_len], text_len + 2);
        v.extend((0..text_len).step_by(61));
        v.extend([text_len + 64, usize::MAX]);
        v
    };
    let mut acc = 0usize; // running count for increasing p
    let mut sorted = ps.clone();
    sorted.sort_unstable();
    let mut oi = 0usize;
    for p in sorted {
        while oi < ones.len() && ones[oi] < p {
            oi += 1;
            acc += 1;
        }
        rep.trans(1);
        // out-of-range arguments are probed under their own catch so that a panic there
        // cannot mask the in-range checks of this input
        let got = if p > text_len + 2 {
            match catch(|| ix.ib_rank1(p)) {
                Ok(g) => g,
                Err(m) => {
                    fail(rep, "PANIC:ib_rank1:beyond-len".to_string(), json!({"p": p, "panic": m}));
                    continue;
                }
            }
        } else {
            ix.ib_rank1(p)
        };
        if got != acc {
            let f = if p > text_len { "beyond-len" } else if p % 64 == 0 { "word-boundary" } else { "in-word" };
            fail(rep, format!("ib_rank1:{f}"), json!({"p": p, "got": got, "exp": acc}));
        }
    }
    // select, hinted select
    let ks = k_set(ones.len(), full_k_limit.min(usize::MAX >> 1), full_k_limit & NO_HUGE_K == 0);
    let all_hints = (nw as u64 + 12).saturating_mul(ks.len() as u64) <= hint_budget;
    let hints: Vec<usize> = if all_hints { (0..nw + 11).chain([usize::MAX]).collect() } else { engine::gen::boundaries(&[0, 1, 2, 4, 8, 16, nw / 2, nw], nw + 10).into_iter().chain([usize::MAX]).collect() };
    for k in ks {
        let exp = ones.get(k).copied();
        rep.trans(1);
        let huge = k >= (1usize << 32) - 1;
        let got = if huge {
            match catch(|| ix.ib_select1(k)) {
                Ok(g) => g,
                Err(m) => {
                    fail(rep, "PANIC:ib_select1:k>=2^32-1".to_string(), json!({"k": k, "panic": m}));
                    continue;
                }
            }
        } else {
            ix.ib_select1(k)
        };
        if got != exp {
            let f = if k >= (1usize << 32) { "k>=2^32".to_string() } else if k >= ones.len() { "k>=ones".to_string() } else { "k<ones".to_string() };
            fail(rep, format!("ib_select1:{f}"), json!({"k": k, "got": format!("{got:?}"), "exp": format!("{exp:?}")}));
        }
        for &h in &hints {
            rep.trans(1);
            let got = if huge || h > nw + 10 {
                match catch(|| ix.ib_select1_from(k, h)) {
                    Ok(g) => g,
                    Err(m) => {
                        fail(rep, format!("PANIC:ib_select1_from:{}", if huge { "k>=2^32-1" } else { "hint=MAX" }), json!({"k": k, "hint": h, "panic": m}));
                        break;
                    }
                }
            } else {
                ix.ib_select1_from(k, h)
            };
            if got != exp {
                let kf = if k >= (1usize << 32) { "k>=2^32" } else if k >= ones.len() { "k>=ones" } else { "k<ones" };
                // where is the hint relative to the answer's word?
                let hf = match exp {
                    _ if k >= (1usize << 32) => "any-hint",
                    Some(e) if h.min(nw.saturating_sub(1)) < e / 64 => "hint-before",
                    Some(e) if h.min(nw.saturating_sub(1)) == e / 64 => "hint-at",
                    Some(_) => "hint-after",
                    None => "no-answer",
                };
                fail(rep, format!("ib_select1_from:{kf}:{hf}"), json!({"k": k, "hint": h, "got": format!("{got:?}"), "exp": format!("{exp:?}")}));
                if k >= (1usize << 32) {
                    break;
                }
            }
        }
    }
    ones
}

/// text_position of every node, cursor_at_offset for every offset,
/// cursor_at_position for every (line, column) the naive map produces.
pub fn check_positions<W: AsRef<[u64]>>(ck: &mut Ck<'_, '_>, ix: &JsonIndex<W>, ones: &[usize]) {
    let doc = ck.doc;
    let text = &doc.text[..];
    let root = ix.root(text);
    // interest bits are exactly the token starts
    ck.rep.evals(1);
    let starts: Vec<usize> = doc.nodes.iter().map(|n| n.start).collect();
    if ones != &starts[..] {
        ck.fail("ib:not-token-starts", json!({"ones": ones.len(), "nodes": starts.len()}));
        return;
    }
    // text_position for every node via from_bp_position
    for id in 0..doc.nodes.len() {
        if ck.big && id % 7 != 0 && id > 200 && id + 200 < doc.nodes.len() {
            continue;
        }
        ck.rep.trans(1);
        let c = JsonCursor::from_bp_position(ix, text, expected_bp(doc, id));
        let tp = c.text_position();
        if tp != Some(doc.nodes[id].start) {
            let f = ck.feat(id);
            let how = if tp.is_none() { "none" } else { "wrong-offset" };
            ck.fail(&format!("text_position:{how}"), json!({"node": id, "node_kind": f, "got": format!("{tp:?}"), "exp": doc.nodes[id].start}));
        }
    }
    let len = text.len();
    let offs: Vec<usize> = if !ck.big || len <= 5000 {
        (0..len + 2).chain([len + 64, usize::MAX]).collect()
    } else {
        let mut v: Vec<usize> = engine::gen::boundaries(&[0, 64, 128, 4096, len / 2, len], len + 1);
        v.extend((0..len).step_by(53));
        v.extend([len + 1, usize::MAX]);
        v
    };
    let lines = if len <= 5000 { Some(oracle::line_starts(text)) } else { None };
    for o in offs {
        ck.rep.trans(1);
        let exp = if o >= len { None } else { doc.node_at_or_before(o) };
        let got = if o > len + 1 {
            match catch(|| root.cursor_at_offset(o).map(|c| c.bp_position())) {
                Ok(g) => g,
                Err(m) => {
                    ck.fail("PANIC:cursor_at_offset:beyond-len", json!({"offset": o, "panic": m}));
                    continue;
                }
            }
        } else {
            root.cursor_at_offset(o).map(|c| c.bp_position())
        };
        if got != exp.map(|e| expected_bp(doc, e)) {
            let (f, kind) = match exp {
                None if o >= len => ("beyond-len", "-"),
                None => ("before-first-token", "-"),
                Some(e) if doc.nodes[e].start == o => ("at-start", doc.nodes[e].kind.name()),
                Some(e) if o < doc.nodes[e].end => ("inside", doc.nodes[e].kind.name()),
                Some(e) => ("after-token", doc.nodes[e].kind.name()),
            };
            ck.fail(&format!("cursor_at_offset:{f}"), json!({"offset": o, "node_kind": kind, "got": got, "exp": exp.map(|e| expected_bp(doc, e))}));
        }
        if o < len && lines.is_some() {
            let (l, c) = oracle::line_col_crlf(text, o);
            ck.rep.trans(1);
            let got = root.cursor_at_position(l, c).map(|c| c.bp_position());
            if got != exp.map(|e| expected_bp(doc, e)) {
                ck.fail("cursor_at_position:wrong-node", json!({"offset": o, "line": l, "column": c, "got": got}));
            }
        }
    }
    if let Some(ls) = lines {
        let nl = ls.len();
        let last_len = len - ls[nl - 1];
        for (l, c) in [(0usize, 1usize), (1, 0), (0, 0), (nl + 1, 1), (nl, last_len + 1), (nl, last_len + 100), (usize::MAX, 1), (1, len + 1)] {
            ck.rep.trans(1);
            // out of range: line 0, column 0, line past the end, offset past the end
            let got = match catch(|| root.cursor_at_position(l, c).map(|c| c.bp_position())) {
                Ok(g) => g,
                Err(m) => {
                    ck.fail("PANIC:cursor_at_position:out-of-range", json!({"line": l, "column": c, "panic": m}));
                    continue;
                }
            };
            if got.is_some() {
                ck.fail("cursor_at_position:some-out-of-range", json!({"line": l, "column": c, "got": got}));
            }
        }
    }
}
