SPEC = dict(
    kind="py", module="c27", design_ref="§3-C27",
    technique="differential exploration between evaluation routes (S5): bounded-exhaustive enumeration of (document, navigation program, "
              "format) triples through the real CLI code path, streamed route vs materialised route forced by a neutral flag (yq: `--arg zz 1`; jq: `-a` on pure-ASCII output)",
    rule="YAML corpus (every presentation of each leaf of the string/int/bool/null alphabets as root, mapping value, sequence item and "
         "in flow collections; two-leaf trees in up to 8 presentations; special-key mappings; hand-built anchor/merge/block-scalar/"
         "multi-document/tag/comment documents; duplicate-key documents as a separate sub-space) and JSON documents (C11's scalar, key, "
         "tree, whitespace families + multi-value streams) x 19 navigation programs x 6 yq / 5 jq formats x 2 routes. A case is the "
         "(tool, document, program, format) tuple; distinct+non-trivial = distinct tuple together with whether the routes agreed",
    level_text="For every enumerated tuple the stdout bytes and exit status of the two routes are compared. Differences are classified: any "
               "difference in JSON / jq output and any YAML difference whose two outputs do not reload to the value `-o json` prints is a "
               "value-level signature; YAML differences that reload to equal values are named by a token-level diff (one signature per kind "
               "of spelling difference, anything unexplained gets its own signature).",
    level_note="Reloading uses the CLI's own loader (`yq -o json -I0 .`) as the property defines no other reader; multi-result YAML output is "
               "not separable into results, so for those only the token diff applies. `--arg` was measured neutral (jq and `-o json` outputs "
               "byte-identical on all enumerated tuples except the listed findings). Batch results are tied to the executable by a spawn "
               "self-test and by re-judging every reported signature's example with real processes.",
    assumptions=["yq: `--arg zz 1` changes nothing but the route (it only makes context.named non-empty); jq: `--arg` does not change the route at all, `-a` does and is neutral on pure-ASCII output (non-ASCII jq outputs are skipped and counted)",
                 "documents and programs outside the stated alphabets are out of scope"],
)
