//! C10 — printed numbers read back to the same value.
//!
//! S2 over structured doubles: every binary exponent x mantissa patterns, every
//! power of ten +-k ulp, 2^k / 10^k neighbourhoods, a decimal grid around the
//! notation thresholds; i64 extremes; and a literal grammar (sign x int x frac x
//! exponent) passed through `OwnedValue::from_number_bytes` /
//! `format_number_jq_compat` and through the YAML -> JSON scalar writers.
//!
//! Oracle: Rust's correctly rounded `str::parse::<f64>` as the reader
//! (bit-for-bit for computed floats, numeric equality for literal pass-through),
//! an own RFC 8259 number recogniser (JSON printers must print JSON numbers), an
//! own YAML-1.2-core numeric recogniser (YAML printers), an own i64 decimal
//! printer.
use engine::*;
use serde_json::{json, Value};
use succinctly::jq::document::IndentSpec;
use succinctly::jq::{format_number_jq_compat, OwnedValue};
use succinctly::yaml::{format_float_with_fraction, format_float_yq, format_float_yq_yaml, format_float_yq_yaml_nested, YamlIndex};

// ------------------------------------------------------------------ oracles

/// RFC 8259 `number`.
fn is_json_number(s: &str) -> bool {
    let b = s.as_bytes();
    let mut i = 0;
    if i < b.len() && b[i] == b'-' {
        i += 1;
    }
    if i >= b.len() {
        return false;
    }
    if b[i] == b'0' {
        i += 1;
    } else if b[i].is_ascii_digit() {
        while i < b.len() && b[i].is_ascii_digit() {
            i += 1;
        }
    } else {
        return false;
    }
    if i < b.len() && b[i] == b'.' {
        i += 1;
        let st = i;
        while i < b.len() && b[i].is_ascii_digit() {
            i += 1;
        }
        if i == st {
            return false;
        }
    }
    if i < b.len() && (b[i] == b'e' || b[i] == b'E') {
        i += 1;
        if i < b.len() && (b[i] == b'+' || b[i] == b'-') {
            i += 1;
        }
        let st = i;
        while i < b.len() && b[i].is_ascii_digit() {
            i += 1;
        }
        if i == st {
            return false;
        }
    }
    i == b.len()
}

/// YAML 1.2 core schema decimal int `[-+]?[0-9]+` or float
/// `[-+]?(\.[0-9]+|[0-9]+(\.[0-9]*)?)([eE][-+]?[0-9]+)?`.
fn is_yaml_core_number(s: &str) -> bool {
    let b = s.as_bytes();
    let mut i = 0;
    if i < b.len() && (b[i] == b'-' || b[i] == b'+') {
        i += 1;
    }
    let st = i;
    while i < b.len() && b[i].is_ascii_digit() {
        i += 1;
    }
    let int_digits = i - st;
    let mut frac_digits = 0;
    if i < b.len() && b[i] == b'.' {
        i += 1;
        let fs = i;
        while i < b.len() && b[i].is_ascii_digit() {
            i += 1;
        }
        frac_digits = i - fs;
    }
    if int_digits == 0 && frac_digits == 0 {
        return false;
    }
    if i < b.len() && (b[i] == b'e' || b[i] == b'E') {
        i += 1;
        if i < b.len() && (b[i] == b'+' || b[i] == b'-') {
            i += 1;
        }
        let es = i;
        while i < b.len() && b[i].is_ascii_digit() {
            i += 1;
        }
        if i == es {
            return false;
        }
    }
    i == b.len()
}

/// Own decimal rendering of an i64.
fn i64_decimal(v: i64) -> String {
    let neg = v < 0;
    let mut m: u128 = if neg { (-(v as i128)) as u128 } else { v as u128 };
    let mut digits = Vec::new();
    if m == 0 {
        digits.push(b'0');
    }
    while m > 0 {
        digits.push(b'0' + (m % 10) as u8);
        m /= 10;
    }
    if neg {
        digits.push(b'-');
    }
    digits.reverse();
    String::from_utf8(digits).unwrap()
}

fn mag_class(x: f64) -> &'static str {
    let a = x.abs();
    if x == 0.0 {
        if x.is_sign_negative() {
            "negative-zero"
        } else {
            "zero"
        }
    } else if a < f64::MIN_POSITIVE {
        "subnormal"
    } else if a < 1e-5 {
        "below-1e-5"
    } else if a < 1e-4 {
        "1e-5..1e-4"
    } else if a < 1.0 {
        "1e-4..1"
    } else if a < 1e6 {
        "1..1e6"
    } else if a < 1e16 {
        "1e6..1e16"
    } else if a < 1e21 {
        "1e16..1e21"
    } else {
        "above-1e21"
    }
}

// ------------------------------------------------------------------ floats

type Fmt = (&'static str, fn(f64) -> String, bool); // (name, formatter, output is JSON)
fn jq_float(x: f64) -> String {
    OwnedValue::Float(x).to_json()
}
const FORMATTERS: [Fmt; 5] = [
    ("jq:OwnedValue::Float.to_json", jq_float, true),
    ("yq:format_float_yq", format_float_yq, true),
    ("yq:format_float_yq_yaml", format_float_yq_yaml, false),
    ("yq:format_float_yq_yaml_nested", format_float_yq_yaml_nested, false),
    ("yq:format_float_with_fraction", format_float_with_fraction, false),
];

fn notation(printed: &str) -> &'static str {
    if printed.contains(['e', 'E']) {
        "scientific"
    } else if printed.contains('.') {
        "plain-decimal"
    } else {
        "integer"
    }
}

/// One root cause usually hits several formatters (the three yq scientific printers share one helper) and every
/// magnitude: problems of one value are merged into one signature `float:<what>:<notation>:<formatters>`.
fn check_float(x: f64, rep: &mut Report) {
    debug_assert!(x.is_finite());
    let size = (x.to_bits() >> 52) as usize & 0x7ff;
    let mut problems: Vec<(String, &'static str, String)> = Vec::new(); // (what:notation, formatter, printed)
    for (name, f, is_json) in FORMATTERS {
        rep.trans(1);
        let printed = match catch(|| f(x)) {
            Ok(p) => p,
            Err(m) => {
                problems.push(("panic:-".into(), name, m));
                continue;
            }
        };
        let text = printed.strip_prefix("!!float ").unwrap_or(&printed);
        rep.evals(2);
        let grammar_ok = if is_json { text.len() == printed.len() && is_json_number(text) } else { is_yaml_core_number(text) };
        let what = if !grammar_ok {
            Some(if is_json { "not-a-json-number" } else { "not-a-yaml-core-number" })
        } else {
            match text.parse::<f64>() {
                Ok(y) if y.to_bits() == x.to_bits() => None,
                Ok(y) if y == x => Some("sign-of-zero-lost"),
                Ok(_) => Some("reads-back-as-different-double"),
                Err(_) => Some("unreadable"),
            }
        };
        if let Some(w) = what {
            problems.push((format!("{w}:{}", notation(text)), name, printed));
        }
    }
    problems.sort();
    let mut i = 0;
    while i < problems.len() {
        let mut j = i;
        while j < problems.len() && problems[j].0 == problems[i].0 {
            j += 1;
        }
        let names: Vec<&str> = problems[i..j].iter().map(|p| p.1).collect();
        let printed: Vec<&String> = problems[i..j].iter().map(|p| &p.2).collect();
        rep.fail(&format!("float:{}:{}", problems[i].0, names.join("+")), size, || {
            json!({"kind":"float","bits":format!("{:016x}", x.to_bits()),"value":format!("{x:e}"),"magnitude":mag_class(x),"formatters":names,"printed":printed})
        });
        i = j;
    }
}

fn mantissa_patterns(thorough: bool) -> Vec<u64> {
    let mut m: Vec<u64> = vec![0, 1, (1 << 52) - 1, (1 << 52) - 2, 0x5_5555_5555_5555, 0xA_AAAA_AAAA_AAAA, (1 << 51) | 1];
    for b in 0..52 {
        m.push(1 << b);
    }
    for b in 0..51 {
        m.push(3 << b);
    }
    for k in 1..52 {
        m.push(((1u64 << k) - 1) << (52 - k));
    }
    for k in 2..52 {
        m.push((1u64 << k) - 1);
    }
    if thorough {
        for a in 0..52 {
            for b in a + 2..52 {
                m.push((1u64 << a) | (1u64 << b));
            }
        }
    }
    m.sort_unstable();
    m.dedup();
    m
}

/// Doubles that are not of the (exponent, pattern) family.
fn special_doubles(grid_max: u32) -> Vec<f64> {
    let mut v: Vec<f64> = Vec::new();
    let mut around = |x: f64, v: &mut Vec<f64>| {
        for d in -3i64..=3 {
            let b = x.to_bits() as i64 + d;
            if b >= 0 {
                let y = f64::from_bits(b as u64);
                if y.is_finite() {
                    v.push(y);
                }
            }
        }
    };
    for k in -324i32..=308 {
        let x: f64 = format!("1e{k}").parse().unwrap();
        around(x, &mut v);
        for d in [2.0f64, 5.0, 9.0] {
            let y: f64 = format!("{d}e{k}").parse().unwrap();
            if y.is_finite() {
                around(y, &mut v);
            }
        }
    }
    for k in 0..=1023 {
        let p = 2f64.powi(k);
        for y in [p - 1.0, p, p + 1.0, p + 0.5, p - 0.5] {
            around(y, &mut v);
        }
    }
    for k in 1..=1074 {
        around(2f64.powi(-k), &mut v);
    }
    // decimal grid: n * 10^j, n in 1..=9999 (short shortest-representations at every magnitude around the notation thresholds)
    for j in -30i32..=30 {
        for n in 1..=grid_max {
            let y: f64 = format!("{n}e{j}").parse().unwrap();
            v.push(y);
        }
    }
    for j in [-330i32, -324, -323, -320, -310, -308, -307, -300, -100, 100, 290, 300, 305] {
        for n in 1..=9999u32 {
            let y: f64 = format!("{n}e{j}").parse().unwrap();
            if y.is_finite() {
                v.push(y);
            }
        }
    }
    // integers near 2^53, 2^63, 2^64 and 10^k
    for k in 0..=22u32 {
        let p = 10f64.powi(k as i32);
        for y in [p - 1.0, p, p + 1.0] {
            around(y, &mut v);
        }
    }
    for y in [
        9007199254740991.0, 9007199254740992.0, 9007199254740993.0, 9007199254740994.0, 9223372036854775807.0, 9223372036854775808.0, 18446744073709551615.0,
        18446744073709551616.0, 0.1 + 0.2, 1.0 / 3.0, 2.0 / 3.0, 5e-324, f64::MAX, f64::MIN_POSITIVE, 2.225073858507201e-308, f64::EPSILON, 1.0 - f64::EPSILON / 2.0,
        123456.7, 1234567.8, 0.00012345, 0.000012345, 999999.9999999999, 1000000.0000000001, 0.00009999999999999999,
    ] {
        around(y, &mut v);
    }
    let n = v.len();
    for i in 0..n {
        v.push(-v[i]);
    }
    v.push(0.0);
    v.push(-0.0);
    v
}

// ------------------------------------------------------------------ integers

fn ints(thorough: bool) -> Vec<i64> {
    let mut v: Vec<i64> = vec![i64::MIN, i64::MIN + 1, i64::MAX, i64::MAX - 1, 0, 1, -1];
    for k in 0..63 {
        let p = 1i64 << k;
        v.extend([p - 1, p, p.wrapping_add(1), -p, -p - 1, (-p).wrapping_add(1)]);
    }
    let mut p = 1i64;
    for _ in 0..18 {
        p *= 10;
        v.extend([p - 1, p, p + 1, -p, -p - 1, -p + 1]);
        for d in 2..=9 {
            if let Some(q) = p.checked_mul(d) {
                v.extend([q, -q, q - 1, q + 1]);
            }
        }
    }
    // repdigits and single-digit probes at every length (a dropped / duplicated digit shows)
    for d in 1..=9i64 {
        let mut r = 0i64;
        for _ in 0..19 {
            match r.checked_mul(10).and_then(|x| x.checked_add(d)) {
                Some(x) => {
                    r = x;
                    v.extend([r, -r]);
                }
                None => break,
            }
        }
    }
    v.extend([1234567890123456789, -1234567890123456789, 9223372036854775806, 1000000000000000001, 9090909090909090909u64 as i64]);
    if thorough {
        // every (length, position, digit) single non-zero digit number and 10^a + 10^b
        let mut pw = [1i64; 19];
        for i in 1..19 {
            pw[i] = pw[i - 1] * 10;
        }
        for a in 0..19 {
            for b in 0..a {
                for (da, db) in [(1i64, 1i64), (9, 9), (1, 9), (9, 1), (5, 7)] {
                    if let Some(x) = pw[a].checked_mul(da).and_then(|x| x.checked_add(pw[b] * db)) {
                        v.extend([x, -x]);
                    }
                }
            }
        }
    }
    v.sort_unstable();
    v.dedup();
    v
}

fn yaml_to_json(doc: &str) -> Result<Vec<(&'static str, String)>, String> {
    catch(|| {
        let bytes = doc.as_bytes();
        let idx = YamlIndex::build(bytes).map_err(|e| format!("{e:?}"));
        match idx {
            Err(e) => Err(e),
            Ok(idx) => {
                let root = idx.root(bytes);
                let a = root.to_json_document();
                let mut b = String::new();
                let r = root.stream_json_document(&mut b, IndentSpec::COMPACT, false);
                if r.is_err() {
                    return Err("stream_json_document returned fmt::Error".to_string());
                }
                Ok(vec![("YamlCursor::to_json_document", a), ("YamlCursor::stream_json_document", b)])
            }
        }
    })
    .and_then(|x| x)
}

fn check_int(i: i64, rep: &mut Report) {
    let want = i64_decimal(i);
    assert_eq!(want, i.to_string(), "ORACLE SELF-TEST: i64 printer");
    let digits = want.trim_start_matches('-').len();
    let cls = if i == i64::MIN { "i64::MIN".to_string() } else { format!("{}{digits}-digits", if i < 0 { "negative-" } else { "" }) };
    let case = |path: &str, got: &str| json!({"kind":"int","value":want,"path":path,"printed":got});
    rep.trans(1);
    match catch(|| OwnedValue::Int(i).to_json()) {
        Ok(s) if s == want => {}
        Ok(s) => rep.fail(&format!("int:OwnedValue::Int.to_json:{cls}"), digits, || case("OwnedValue::Int.to_json", &s)),
        Err(m) => rep.fail(&format!("int:OwnedValue::Int.to_json:panic:{cls}"), digits, || case("OwnedValue::Int.to_json", &m)),
    }
    rep.trans(1);
    match catch(|| OwnedValue::from_number_bytes(want.as_bytes()).to_json()) {
        Ok(s) if s == want => {}
        Ok(s) => rep.fail(&format!("int:from_number_bytes.to_json:{cls}"), digits, || case("from_number_bytes.to_json", &s)),
        Err(m) => rep.fail(&format!("int:from_number_bytes.to_json:panic:{cls}"), digits, || case("from_number_bytes.to_json", &m)),
    }
    // yq: YAML int scalar -> JSON (DOM writer and streaming writer), at root and nested
    for doc in [want.clone(), format!("- {want}\n"), format!("k: {want}\n")] {
        let wrap = |s: &str| if doc.starts_with('-') && doc.ends_with('\n') && doc.starts_with("- ") { format!("[{s}]") } else if doc.starts_with("k:") { format!("{{\"k\":{s}}}") } else { s.to_string() };
        let shape = if doc.starts_with("- ") { "in-sequence" } else if doc.starts_with("k:") { "in-mapping" } else { "root" };
        match yaml_to_json(&doc) {
            Ok(outs) => {
                for (path, got) in outs {
                    rep.trans(1);
                    if got != wrap(&want) {
                        rep.fail(&format!("int:{path}:{cls}"), digits, || json!({"kind":"int","value":want,"path":path,"yaml":doc,"printed":got,"position":shape}));
                    }
                }
            }
            Err(m) => rep.fail(&format!("int:yaml-to-json:error:{cls}"), digits, || json!({"kind":"int","value":want,"yaml":doc,"error":m})),
        }
    }
}

// ------------------------------------------------------------------ literals

const INT_PARTS: [&str; 12] = ["0", "1", "7", "10", "12", "123", "500", "99999999999999", "9007199254740993", "100000000000000000000", "12345678901234567890123", "18446744073709551616"];
const LENIENT_INT_PARTS: [&str; 4] = ["007", "", "00", "0123"];
const FRAC_PARTS: [&str; 11] = ["", ".0", ".5", ".10", ".05", ".000001", ".0000001", ".123456789012345678", ".999999999999999999999", ".00", ".50000000000000000000000001"];
const LENIENT_FRAC_PARTS: [&str; 1] = ["."];
const EXP_DIGITS: [&str; 34] = [
    "0", "00", "1", "2", "3", "4", "5", "6", "7", "8", "9", "01", "10", "14", "15", "16", "17", "18", "19", "20", "21", "22", "23", "100", "300", "307", "308", "309", "310", "320", "323",
    "324", "325", "400",
];

fn literals() -> Vec<(String, bool)> {
    let mut exps: Vec<String> = vec![String::new()];
    for e in ["e", "E"] {
        for s in ["", "+", "-"] {
            for d in EXP_DIGITS {
                exps.push(format!("{e}{s}{d}"));
            }
        }
    }
    let mut out = Vec::new();
    for sign in ["", "-"] {
        for (ints, lenient_i) in [(&INT_PARTS[..], false), (&LENIENT_INT_PARTS[..], true)] {
            for ip in ints {
                for (fracs, lenient_f) in [(&FRAC_PARTS[..], false), (&LENIENT_FRAC_PARTS[..], true)] {
                    for fp in fracs {
                        for ex in &exps {
                            if ip.is_empty() && (fp.is_empty() || *fp == ".") {
                                continue;
                            }
                            out.push((format!("{sign}{ip}{fp}{ex}"), lenient_i || lenient_f));
                        }
                    }
                }
            }
        }
    }
    out
}

fn literal_shape(lit: &str) -> String {
    let body = lit.trim_start_matches('-');
    let (mant, exp) = match body.find(['e', 'E']) {
        Some(p) => (&body[..p], Some(&body[p + 1..])),
        None => (body, None),
    };
    let ip = mant.split('.').next().unwrap_or("");
    let int_kind = if ip.is_empty() { "empty-int" } else if ip.len() > 1 && ip.starts_with('0') { "leading-zero-int" } else if ip.len() > 15 { "long-int" } else { "int" };
    let frac = match mant.split_once('.') {
        None => "no-frac",
        Some((_, f)) if f.is_empty() => "bare-dot",
        Some((_, f)) if f.len() > 15 => "long-frac",
        Some(_) => "frac",
    };
    let ex = match exp {
        None => "no-exp".to_string(),
        Some(e) => {
            let neg = e.starts_with('-');
            let d: i64 = e.trim_start_matches(['+', '-']).parse().unwrap_or(0);
            let bucket = if d == 0 { "0" } else if d <= 9 { "1..9" } else if d <= 23 { "10..23" } else if d <= 308 { "100..308" } else { ">308" };
            format!("exp{}{bucket}", if neg { "-" } else { "+" })
        }
    };
    format!("{int_kind}/{frac}/{ex}")
}

fn check_literal(lit: &str, lenient: bool, rep: &mut Report) {
    // the literal must denote a finite double (the reader is the designated oracle)
    let Ok(want) = lit.parse::<f64>() else { return };
    if !want.is_finite() {
        return;
    }
    let json_valid = is_json_number(lit);
    assert!(json_valid || lenient, "literal generator produced a non-JSON literal in the strict family: {lit}");
    rep.input();
    let fam = if json_valid { "literal" } else { "lenient-literal" };
    let size = lit.len();
    let shape = literal_shape(lit);
    let _ = &shape;
    let mut problems: Vec<(String, String, String)> = Vec::new(); // (what:notation, path, printed)
    let mut judge = |path: &str, printed: Result<String, String>, must_be_json: bool, rep: &mut Report| {
        rep.trans(1);
        match printed {
            Err(m) => problems.push(("panic:-".into(), path.to_string(), m)),
            Ok(p) => {
                let what = if must_be_json && !is_json_number(&p) {
                    Some("not-a-json-number")
                } else {
                    match p.parse::<f64>() {
                        Ok(y) if y == want => None,
                        Ok(_) => Some("value-changed"),
                        Err(_) => Some("unreadable"),
                    }
                };
                if let Some(w) = what {
                    problems.push((format!("{w}:printed-{}", notation(&p)), path.to_string(), p));
                }
            }
        }
    };
    judge("from_number_bytes.to_json", catch(|| OwnedValue::from_number_bytes(lit.as_bytes()).to_json()), true, rep);
    let mut structure_failures: Vec<(String, String, String)> = Vec::new();
    if json_valid {
        judge("format_number_jq_compat", catch(|| format_number_jq_compat(lit.as_bytes())), true, rep);
        // yq: YAML plain scalar -> JSON (only judged when yq prints a number, i.e. resolved it as one)
        for (doc, pre, post) in [(lit.to_string(), "", ""), (format!("- {lit}\n"), "[", "]")] {
            if let Ok(outs) = yaml_to_json(&doc) {
                for (path, got) in outs {
                    let Some(inner) = got.strip_prefix(pre).and_then(|g| g.strip_suffix(post)) else {
                        structure_failures.push((path.to_string(), doc.clone(), got));
                        continue;
                    };
                    if inner.starts_with('"') || inner == "null" {
                        continue; // yq resolved the scalar as a string/null (e.g. overflow): not a number print
                    }
                    judge(path, Ok(inner.to_string()), true, rep);
                }
            }
        }
    }
    for (path, doc, got) in structure_failures {
        rep.fail(&format!("{fam}:{path}:unexpected-structure"), size, || json!({"kind":"literal","literal":lit,"lenient":lenient,"yaml":doc,"printed":got}));
    }
    problems.sort();
    problems.dedup();
    let mut i = 0;
    while i < problems.len() {
        let mut j = i;
        while j < problems.len() && problems[j].0 == problems[i].0 {
            j += 1;
        }
        let mut paths: Vec<&str> = problems[i..j].iter().map(|p| p.1.as_str()).collect();
        paths.dedup();
        let printed: Vec<&String> = problems[i..j].iter().map(|p| &p.2).collect();
        rep.fail(&format!("{fam}:{}:{}", problems[i].0, paths.join("+")), size, || {
            json!({"kind":"literal","literal":lit,"lenient":lenient,"shape":shape,"paths":paths,"printed":printed,"literal_value":format!("{want:e}")})
        });
        i = j;
    }
}

// ------------------------------------------------------------------ driver

fn explore(ctx: &Ctx, rep: &mut Report) {
    let pats = mantissa_patterns(ctx.thorough());
    let np = pats.len() as u64;
    let r = par_range_in(ctx, "floats/every-exponent-x-mantissa-patterns", 2047 * np, 4096, |i, rep| {
        let e = i / np;
        let m = pats[(i % np) as usize];
        for sign in [0u64, 1 << 63] {
            let x = f64::from_bits(sign | (e << 52) | m);
            rep.input();
            check_float(x, rep);
        }
        if m == 1 && e % 64 == 0 {
            rep.distinct(&(e, m));
        }
        rep.distinct(&(mag_class(f64::from_bits((e << 52) | m)), m.count_ones(), e / 16));
    });
    rep.merge(r);
    rep.mark_exhaustive("floats/every-exponent-x-mantissa-patterns", &format!("all 2047 finite binary exponents (incl. subnormal) x {np} mantissa patterns (0, 1, all-ones, single bits, adjacent pairs, alternating, top-k, bottom-k{}) x both signs x 5 formatters", if ctx.thorough() { ", all two-bit patterns" } else { "" }));
    let sp = special_doubles(ctx.pick(9999, 99999));
    let r = par_range_in(ctx, "floats/decimal-and-power-neighbourhoods", sp.len() as u64, 2048, |i, rep| {
        rep.input();
        let x = sp[i as usize];
        check_float(x, rep);
        rep.distinct(&x.to_bits());
    });
    rep.merge(r);
    rep.mark_exhaustive("floats/decimal-and-power-neighbourhoods", "every power of ten 1e-324..1e308 and 2/5/9 times it +-3 ulp; 2^k, 2^k+-1, 2^k+-0.5 (k 0..=1023) and 2^-k (k 1..=1074) +-3 ulp; n*10^j for n 1..=9999 (quick) / 99999 (thorough), j -30..=30 and 13 extreme j; 10^k+-1; listed classics; both signs; +-0");
    let iv = ints(ctx.thorough());
    let r = par_range_in(ctx, "integers", iv.len() as u64, 64, |i, rep| {
        rep.input();
        check_int(iv[i as usize], rep);
        rep.distinct(&iv[i as usize]);
    });
    rep.merge(r);
    rep.mark_exhaustive("integers", "i64::MIN/MAX, +-(2^k-1, 2^k, 2^k+1) k<63, +-(d*10^k-1, d*10^k, d*10^k+1), repdigits of every length, (thorough) two-digit-position numbers; through OwnedValue::Int, from_number_bytes and the YAML->JSON scalar writers at root / in a sequence / in a mapping");
    let lits = literals();
    let r = par_range_in(ctx, "literals", lits.len() as u64, 256, |i, rep| {
        let (l, lenient) = &lits[i as usize];
        check_literal(l, *lenient, rep);
        rep.distinct(l);
    });
    rep.merge(r);
    rep.mark_exhaustive("literals", "sign {'',-} x 12 int parts (+4 lenient: 007, '', 00, 0123) x 11 fraction parts (+ lenient bare '.') x exponent {none, e/E x {'',+,-} x 34 digit strings}; kept when the literal denotes a finite double");
    for x in [0.1f64 + 0.2, 1e21, 5e-324, -0.0, 1234567.0] {
        rep.sample(|| json!({"value": format!("{x:e}"), "printed": FORMATTERS.iter().map(|(n, f, _)| json!({*n: f(x)})).collect::<Vec<_>>()}));
    }
    rep.sample(|| json!({"literal":"1.50e2","from_number_bytes.to_json":OwnedValue::from_number_bytes(b"1.50e2").to_json()}));
    rep.extra.insert("mantissa_patterns".into(), json!(np));
    rep.extra.insert("reader".into(), json!("Rust str::parse::<f64> (correctly rounded); bit-for-bit for computed floats, numeric equality for literal pass-through"));
}

fn replay(case: &Value, rep: &mut Report) {
    match case["kind"].as_str().unwrap_or("float") {
        "float" => {
            let bits = u64::from_str_radix(case["bits"].as_str().unwrap(), 16).unwrap();
            check_float(f64::from_bits(bits), rep);
        }
        "int" => check_int(case["value"].as_str().unwrap().parse().unwrap(), rep),
        _ => check_literal(case["literal"].as_str().unwrap(), case["lenient"].as_bool().unwrap_or(false), rep),
    }
}

fn main() {
    drive("C10", explore, replay);
}
