SPEC = dict(
    kind="rust", bins=rust("c17"), design_ref="§3-C17",
    technique="closed-state BFS to fixpoint over the two real Cell<SequentialCursor> states (explicit-state, S1) on bounded-exhaustive position inputs (S2) and scale families across the 64-bit word / 256-sample constants (S3)",
    rule="inputs via the public YamlIndex::from_parts: text_len L in {66,128,130} (thorough + {64,192}); starts = every sequence of length <= 4 (quick) / 5 "
         "(thorough) over {0,1,2,63,64,65,L-1,L} (monotone -> compact Advance Index, non-monotone -> dense); ends = 5 (quick) / 7 patterns per starts "
         "(all zero, start+1, alternating zero, descending -> dense, end==start, ...); scale family: 255..300 (thorough ..1025) distinct positions x gaps "
         "{1,3,65,..} x bit offset {0,3} x duplicate runs 1..5 x text_len {last+1, last, padded to a multiple of 64}; real documents of every length 8..330 "
         "(thorough ..1100) ending in an empty value. States = distinct Debug renderings of both cursor cells; a case is distinct+non-trivial when its "
         "(input, lookup, answer) triple is new.",
    level_text="Every reachable concrete state of the two sequential cursors of the real index (on each enumerated input) has every lookup of the "
               "alphabet applied and compared with the recorded vectors, to a fixpoint: all finite lookup orders (sequential, gaps, backward jumps, "
               "repeats), not orders up to a depth. bp-addressed and open-index-addressed entry points are both compared.",
    level_note="State key = full Debug text of every `cursor: Cell {..}` (asserted to carry all six fields). The clause 'an inherited end lies at or before "
               "the node's start' is demanded only on parser-consistent inputs (every recorded end <= every later start), the contract stated in "
               "yaml::end_positions; own ends and starts are demanded on all inputs. Scale family: the two tables are searched one after the other "
               "(their lookups do not touch each other's cell; the small family searches the product). Real documents: starts against analytic "
               "positions, ends for history-independence only.",
    assumptions=["position alphabets and lengths as listed; sequences beyond 1025 distinct positions are out of reach",
                 "derive(Debug) prints every field of SequentialCursor and Cell<T: Copy + Debug> prints its value"],
    wall_cap={"quick": 600, "thorough": 3000},
)
