"""C15 — yq never emits YAML it cannot read back.

Space (exhaustive): YAML corpus (cligen.ycorpus: every presentation of each leaf of the string /
int / bool / null alphabets as root, mapping value, sequence item, in flow collections; two-leaf
trees; special keys; hand-built anchor / alias / merge-key / comment / block-scalar / multi-document
documents) x the write fragment W (identity, field/index navigation, assignment, update, deletion,
merge; navigation programs on every presentation, write programs on the canonical presentation of
every tree and on the hand-built documents) x indent 0..7 x {default, -S}  (+ `--tab` x {default,-S}
as a further indentation setting; `-I 8` is checked to be a usage error).

Oracle (the statement's own): R1 = yq [cfg] P doc, R2 = yq -o json -I0 [-S] P doc,
R3 = yq -o json -I0 . <<< R1. Same exit class; R1 must load; R3 == R2 as JSON values (numbers as
doubles). The alias clause follows from reloading (the loader rejects unknown / later anchors) plus
value equality with R2, which prints aliases expanded.

Signature = what failed + the minimal structural feature (class of the scalar / key that came back
different, flattened nesting, bare alias, raw root string ...) + the minimal option set under which
that (document, program) fails (none = also with the default `-I 2`).
"""
import json, re
import batch, common, cligen
from cligen import Part, jlines, BadJson, jeq, jdiff, vclass, strclass

NAV = ['.', '.a', '.b', '.k', '.c', '.[0]', '.[1]', '.[-1]', '.k.j', '.k[0]', '.[0].k']
ASSIGN_STR = ["x: y", "*x", "- b", "#c", " s ", "l1\nl2\n", "0x1F", "0o7", "yes", "1e3", "---", "a\n", "key: [v", "a,b", "~", "true", "12", "", "'", "\"",
              "@a", "%a", "|", "a #b", "a:", ".5", "1_000", "<<", "é", "\t"]
WRITE = (
    ['.a = 1', '.zz = 1', '.k = null', '.[1] = null', '.a.k = 2', '.b.k = 9', '.x.y.z = 1', '.b = .a', '.c = .b', '.j = .k', '.[1] = .[0]',
     '.k[1] = .k[0]', '.[.k] = 1', '.[.a] = 1', '.a = {"q": "true", "r": "12", "s": "~"}', '.a = ["", " ", "a\\tb", "é", "\\u0001"]',
     '.a = {"x y": 1, "": 2, "-": 3, "a: b": 4}'] +
    ['.a = ' + json.dumps(s) for s in ASSIGN_STR] +
    ['.a |= .', '.b |= .', '.k |= .', '.[0] |= .', '.. |= .', '.a += 1', '.[] |= .', '.k |= "x"',
     'del(.a)', 'del(.b)', 'del(.[0])', 'del(.k)', 'del(.c) | .b', 'del(.k.j)',
     '. * {"n": {"m": 1}}', '. * {"k": {"m": 1}}', '. + {"n": 1}', '. *= {"n": {"m": [1, {"o": 2}]}}', '.k * {"m": {"o": 1}}',
     '.b = "x" | .a',
     # writes through an alias / through the anchored original that change an inner anchored node
     '.b.p = 2', '.b.p |= . + 1', '.b.p.r = 2', '.b.q = 2', '.a.p = 5', '.[1].p = [2]', '.l[1].p = [2]', '.l[0].p = 3', '.c = 7 | .b.p = 2'])
WRITE_QUICK = ['.zz = 1', '.a.k = 2', '.b.k = 9', '.x.y.z = 1', '.b = .a', '.j = .k', '.[1] = .[0]', '.k[1] = .k[0]', '.[.k] = 1',
               '.a = ["", " ", "a\\tb", "é", "\\u0001"]', '.a = "x: y"', '.a = "*x"', '.a = "0x1F"', '.a = "l1\\nl2\\n"', '.a = "a,b"', '.a = " s "',
               '.a |= .', '.. |= .', 'del(.a)', 'del(.[0])', 'del(.c) | .b', '. * {"n": {"m": 1}}', '. + {"n": 1}', '.b.p = 2', '.[1].p = [2]', '.l[1].p = [2]']
QSTR = ["a", "", " a", "a: b", "0x1F", "true", "~", "é", "a\nb", "'", "*a", "a,b", "|", "---"]
QKEYS = ["k", "a b", "", "true", "a: b", " a", "a,b", "|", "%a", "-", "<<"]


def progclass(p):
    if p in NAV:
        return "identity" if p == "." else "navigation"
    if p.startswith("del("):
        return "deletion"
    if p.startswith((". *", ". +", ".k *")):
        return "merge"
    if "|=" in p or "+=" in p:
        return "update"
    return "assignment"


def configs():
    out = []
    for i in range(8):
        for s in (0, 1):
            out.append({"toks": ([] if i == 2 else ["-I%d" % i]) + (["-S"] if s else []), "argv": ["-I", str(i)] + (["-S"] if s else []), "S": s})
    for s in (0, 1):
        out.append({"toks": ["--tab"] + (["-S"] if s else []), "argv": ["--tab"] + (["-S"] if s else []), "S": s})
    return out


CFG = configs()
RELOAD = ['yq', '-o', 'json', '-I0', '.']


def jobs_of(case):
    doc, prog, ci = case
    c = CFG[ci]
    return [(['yq'] + c["argv"] + [prog], doc), (['yq', '-o', 'json', '-I0'] + (["-S"] if c["S"] else []) + [prog], doc)]


def walk_strings(v, out, key=False):
    if isinstance(v, str):
        out.add((v, key))
    elif isinstance(v, list):
        for x in v:
            walk_strings(x, out)
    elif isinstance(v, dict):
        for k, x in v.items():
            walk_strings(k, out, True); walk_strings(x, out)


def printed_plain(text, s, is_key):
    """positions in which string s occurs in the YAML text as an unquoted (plain) key / value token: subset of {'block','flow'}"""
    if s == "" or "\n" in s:
        return set()
    e = re.escape(s)
    if is_key:
        it = re.finditer(r"(?:^|\n|([{,]) ?|- |\? )[ \t]*" + e + r" ?:(?= |\n|$)", text)
        return {"flow" if m.group(1) else "block" for m in it}
    it = re.finditer(r"(?:^|\n|[:\-] |([\[{]|, ))(?:[&!][^\s]* )*" + e + r"(?=$|\n|(,|\]|\})| #)", text)
    return {"flow" if (m.group(1) or m.group(2)) else "block" for m in it}


def harmful(run, s, is_key, ctx):
    """micro-experiment with the real loader: does the plain token s, in that position, load back as the string s?"""
    if is_key:
        text, want = (("{%s: 1}\n" % s), {s: 1}) if ctx == "flow" else (("%s: 1\n" % s), {s: 1})
    else:
        text, want = (("[%s]\n" % s), [s]) if ctx == "flow" else (("- %s\n" % s), [s])
    r = run(RELOAD, text.encode("utf8"))
    if r[0] != "0":
        return True
    try:
        v = jlines(r[1])
    except BadJson:
        return True
    return not (len(v) == 1 and jeq(v[0], want))


def culprits(run, text, vals):
    """classes of the strings of the expected value that the YAML text shows unquoted although — as a micro-experiment with the
    loader confirms — that plain token does not read back as the string (position: key/value, block/flow)"""
    ss = set()
    walk_strings(vals, ss)
    out = set()
    for s, is_key in sorted(ss):
        c = strclass(s)
        if c == "plain":
            continue
        ctxs = printed_plain(text, s, is_key)
        bad = sorted(x for x in ctxs if harmful(run, s, is_key, x))
        if bad:
            out.add(("key(" if is_key else "str(") + c + ")" + (":in-flow" if bad == ["flow"] and not harmful(run, s, is_key, "block") else ""))
    return sorted(out)


def alias_problem(text):
    """'alias-without-anchor' / 'alias-before-anchor' when the text refers to an anchor it has not (yet) declared"""
    worst = None
    for m in re.finditer(r"(?:^|[\s\[,{:-])\*([^\s,\]}]+)", text):
        name = m.group(1)
        decl = [d.start() for d in re.finditer(r"&" + re.escape(name) + r"(?=[\s,\]}]|$)", text)]
        if not decl:
            return "alias-without-anchor"
        if min(decl) > m.start():
            worst = "alias-before-anchor"
    return worst


def routeclass(p):
    return "identity" if p == "." else "navigation" if p in NAV else "write"


def flattened(a, b):
    """a nested block mapping printed at its parent's indentation: the child's keys reappear in the parent and the child
    itself is null (or was overwritten by its own same-named key)"""
    if isinstance(a, dict) and isinstance(b, dict):
        for k, v in a.items():
            if isinstance(v, dict) and v and k in b and not isinstance(b[k], (dict, list)) and all(kk in b for kk in v):
                return True
            if k in b and flattened(v, b[k]):
                return True
    elif isinstance(a, list) and isinstance(b, list):
        return any(flattened(x, y) for x, y in zip(a, b))
    return False


def base_signatures(prog, r1, r2, run, tabcfg=False):
    """-> list of base signature strings (empty = the case passes)."""
    pc = routeclass(prog)
    if batch.crashed(r1[0]) or batch.crashed(r2[0]):
        return ["crash:" + ("yaml" if batch.crashed(r1[0]) else "json") + "-output:" + progclass(prog)]
    ok1, ok2 = r1[0] == "0", r2[0] == "0"
    if ok1 != ok2:
        return [f"status:yaml={'ok' if ok1 else 'error'}:json={'ok' if ok2 else 'error'}:" + progclass(prog) + ":" + cligen.slug(r1[2] if not ok1 else r2[2], 40)]
    if not ok1:
        return []
    try:
        v2 = jlines(r2[1])
    except BadJson:
        return ["json-output-unparseable:" + pc]
    text = r1[1].decode("utf8", "replace")
    raw_root = len(v2) == 1 and isinstance(v2[0], str) and r1[1] == v2[0].encode("utf8") + b"\n"
    if r1[1].strip() == b"" and not raw_root:
        return [] if not v2 else ["yaml-output-empty:" + pc]
    r3 = run(RELOAD, r1[1])
    v3 = None
    if r3[0] == "0":
        try:
            v3 = jlines(r3[1])
        except BadJson:
            return ["reload-json-unparseable:" + pc]
    if v3 is not None and jeq(v3, v2):
        return []
    if raw_root:
        return ["root-string-printed-raw"]
    if tabcfg and re.search(r"(?m)^[ -]*\t", text):
        return ["tab-indented-yaml"]
    ap = alias_problem(text)
    if ap:
        return [ap + ":" + pc]
    if v3 is not None and len(v3) == len(v2) and flattened(v2, v3):
        return ["nested-block-mapping-printed-flat:" + pc]
    cu = culprits(run, text, v2)
    if cu:
        return [f"unquoted:{pc}:{c}" for c in cu]
    if v3 is None:
        if batch.crashed(r3[0]):
            return ["reload-crashes:" + pc]
        return ["reload-fails:" + pc + ":" + cligen.slug(r3[2], 44)]
    if len(v3) != len(v2):
        return [f"document-count:{pc}:{min(len(v2), 3)}->{min(len(v3), 3)}"]
    path, a, b, what = jdiff(v2, v3)
    if what in ("missing-key", "extra-key"):
        return [f"value:{pc}:{what}:key({strclass(path[-1])})"]
    return [f"value:{pc}:{what}:{vclass(a)}->{vclass(b)}"]


def judge(case, run):
    doc, prog, ci = case
    r1, r2 = run.many(jobs_of(case))
    return tuple(base_signatures(prog, r1, r2, run, "--tab" in CFG[ci]["toks"]))


def sig_of(base, ci):
    return base + "|opts=" + (",".join(CFG[ci]["toks"]) or "none")


def example(case, base):
    doc, prog, ci = case
    return {"kind": "c15", "doc_hex": doc.hex(), "doc": cligen.short(doc, 200), "prog": prog, "cfg": ci, "cfg_argv": CFG[ci]["argv"],
            "R1": ["yq"] + CFG[ci]["argv"] + [prog], "R2": jobs_of(case)[1][0], "R3": RELOAD}


def rejudge(ex, runner):
    case = (bytes.fromhex(ex["doc_hex"]), ex["prog"], ex["cfg"])
    return {sig_of(b, case[2]) for b in judge(case, runner)}


def work(shard, progsets):
    part = Part()
    cases = []
    for doc, cls, tag in shard:
        for p in progsets[cls]:
            for ci in range(len(CFG)):
                cases.append((doc, p, ci))
    verdicts, njobs = cligen.bulk_judge(cases, jobs_of, judge, "c15", part)
    groups = {}
    for i, c in enumerate(cases):
        part.distinct.add(hash((c[0], c[1], c[2], verdicts[i])))
        for b in verdicts[i]:
            groups.setdefault((c[0], c[1], b), []).append(c[2])
    for (doc, prog, b), cis in groups.items():
        ci = min(cis, key=lambda i: (len(CFG[i]["toks"]), i))
        part.fail(sig_of(b, ci), len(doc) * 100 + len(prog), dict(example((doc, prog, ci), b), failing_configs=[",".join(CFG[i]["toks"]) or "none" for i in cis]), n=len(cis))
    for doc, cls, tag in shard:
        part.count(cls, inputs=1, trans=0)
    part.count("all", trans=njobs)
    part.bump("cases", len(cases))
    return part


def run(ctx):
    tier = ctx["tier"]
    rep = batch.Report()
    if ctx["replay"]:
        return cligen.replay_sets(rep, ctx, rejudge)
    quick = tier == "quick"
    corpus = cligen.ycorpus(tier, strs=QSTR if quick else None, keys=QKEYS if quick else None)
    nav = ['.', '.a', '.k', '.[0]', '.[-1]', '.k.j'] if quick else NAV
    wr = WRITE_QUICK if quick else WRITE
    items = [(d[0], "navigation", d[2]) for d in corpus] + [(d[0], "write", d[2]) for d in corpus if d[3]]
    r8 = batch.spawn(["yq", "-I", "8", "."], b"a: 1\n")
    if r8[0] == "0":
        rep.fail("indent-8-accepted", 0, {"kind": "c15-usage", "argv": ["yq", "-I", "8", "."]})
    parts = cligen.shard_run(work, items, extra=({"navigation": nav, "write": wr},), nshards=min(len(items), 64))
    fails, info, jobsample = cligen.merge_parts(rep, parts)
    for name in rep.subspaces:
        rep.subspaces[name]["note"] = "documents x programs of that class x 18 output configurations; transitions (batch jobs incl. reloads) are counted under 'all'"
    cligen.selftest_sample(rep, jobsample, n=100)
    cligen.confirm_and_report_sets(rep, fails, rejudge)
    rep.extra.update({"navigation_programs": nav, "write_programs": wr, "configurations": [",".join(c["toks"]) or "none" for c in CFG],
                      "documents": len(corpus), "canonical_documents": sum(1 for d in corpus if d[3]), "info": info,
                      "indent_8": "usage error (exit %s)" % r8[0]})
    rep.sample({"document": "a: 1\n", "program": '.k = "0x1F"', "R1": "a: 1\nk: 0x1F\n", "R2": '{"a":1,"k":"0x1F"}', "R3": '{"a":1,"k":31}'})
    return rep.to_json()
