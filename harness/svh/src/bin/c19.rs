//! C19 — malformed input never crashes the library (in-process half; the CLI half
//! is py/c19cli.py).
//!
//! S2 with a crash oracle. Every byte string of the bounded spaces
//!   * token strings over the JSON / YAML / DSV token alphabets,
//!   * every truncation, single-byte substitution, deletion (thorough: insertion)
//!     of small valid JSON / YAML / DSV documents,
//!   * nesting families of depth {128,129,255,256,257,384,385,5000,100000},
//!   * jq program token strings (joined by " " and by "") and program nesting families
//! is fed to: index build, validator, full traversal through the generic document
//! traits and the format-specific accessors (values, strings, numbers, raw spans,
//! positions, anchors/tags/comments), JSON and YAML printing, owned
//! materialisation; DSV parse + rows / fields / get / cursor walks; `jq::parse*`
//! in both parser modes. The oracle: each call returns (a value or an error).
//! A panic is caught per call and reported with a signature naming the panic's
//! source file and message class. Stack overflow and allocation failure abort
//! the process, so every case runs in a contained worker process (crashkit):
//! a death is attributed to the journaled case and reported, never a machinery
//! failure.
#[path = "../c19space.rs"]
mod c19space;
#[path = "../crashkit.rs"]
mod crashkit;

use c19space::*;
use crashkit::*;
use engine::*;
use serde_json::{json, Value};
use std::sync::OnceLock;
use succinctly::dsv::{Dsv, DsvConfig};
use succinctly::jq::document::{DocumentCursor, DocumentElements, DocumentFields, DocumentValue, IndentSpec};
use succinctly::jq::eval_generic::to_owned_cursor;
use succinctly::jq::{parse_program_with_mode, parse_with_mode, ParserMode};
use succinctly::json::light::StandardJson;
use succinctly::json::{JsonIndex, SimpleJsonIndex};
use succinctly::yaml::{YamlIndex, YamlValue};

// ------------------------------------------------------------------ spaces --

struct MutSpace {
    seeds: Vec<Vec<u8>>,
    bytes: Vec<u8>,
    /// prefix sums of variants per seed
    starts: Vec<u64>,
    quick: bool,
}

impl MutSpace {
    fn new(seeds: Vec<Vec<u8>>, quick: bool) -> Self {
        let bytes = mutation_bytes(quick);
        let mut starts = vec![0u64];
        for s in &seeds {
            let last = *starts.last().unwrap();
            starts.push(last + variants_per_seed(s.len(), bytes.len(), quick));
        }
        MutSpace { seeds, bytes, starts, quick }
    }
    fn n(&self) -> u64 {
        *self.starts.last().unwrap()
    }
    fn at(&self, idx: u64) -> (Vec<u8>, &'static str) {
        let si = self.starts.partition_point(|&s| s <= idx) - 1;
        variant(&self.seeds[si], &self.bytes, self.quick, idx - self.starts[si])
    }
}

struct Spaces {
    quick: bool,
    jt_len: u32,
    yt_len: u32,
    dt_len: u32,
    pt_len: u32,
    jmut: MutSpace,
    ymut: MutSpace,
    dmut: MutSpace,
    jnest_: OnceLock<Vec<(String, Vec<u8>)>>,
    ynest_: OnceLock<Vec<(String, Vec<u8>)>>,
    pnest_: OnceLock<Vec<(String, String)>>,
}

const SP_JTOK: usize = 0;
const SP_YTOK: usize = 1;
const SP_DTOK: usize = 2;
const SP_JMUT: usize = 3;
const SP_YMUT: usize = 4;
const SP_DMUT: usize = 5;
const SP_JNEST: usize = 6;
const SP_YNEST: usize = 7;
const SP_PTOK_SP: usize = 8;
const SP_PTOK_CAT: usize = 9;
const SP_PNEST: usize = 10;
const NAMES: [&str; 11] = [
    "json/tokens", "yaml/tokens", "dsv/tokens", "json/mutations", "yaml/mutations", "dsv/mutations", "json/nesting", "yaml/nesting", "program/tokens-spaced", "program/tokens-concatenated", "program/nesting",
];

impl Spaces {
    // the nesting families are megabytes of text: built on first use (a respawned worker usually needs none)
    fn jnest(&self) -> &Vec<(String, Vec<u8>)> {
        self.jnest_.get_or_init(|| DEPTHS.iter().flat_map(|&d| json_nest(d).into_iter().map(move |(n, b)| (format!("{n}/{d}"), b))).collect())
    }
    fn ynest(&self) -> &Vec<(String, Vec<u8>)> {
        self.ynest_.get_or_init(|| DEPTHS.iter().flat_map(|&d| yaml_nest(d).into_iter().map(move |(n, b)| (format!("{n}/{d}"), b))).collect())
    }
    fn pnest(&self) -> &Vec<(String, String)> {
        self.pnest_.get_or_init(|| DEPTHS.iter().flat_map(|&d| program_nest(d).into_iter().map(move |(n, p)| (format!("{n}/{d}"), p))).collect())
    }
    fn new(quick: bool) -> Self {
        Spaces {
            quick,
            jt_len: if quick { 4 } else { 5 },
            yt_len: if quick { 4 } else { 4 },
            dt_len: if quick { 8 } else { 10 },
            pt_len: if quick { 3 } else { 4 },
            jmut: MutSpace::new(json_seeds(quick), quick),
            ymut: MutSpace::new(yaml_seeds(quick), quick),
            dmut: MutSpace::new(dsv_seeds(), quick),
            jnest_: OnceLock::new(),
            ynest_: OnceLock::new(),
            pnest_: OnceLock::new(),
        }
    }
    fn defs(&self) -> Vec<SpaceDef> {
        let d = |i: usize, n: u64, chunk: u64| SpaceDef { name: NAMES[i].to_string(), n, chunk };
        vec![
            d(SP_JTOK, count_strings(JT.len() as u64, self.jt_len), 8192),
            d(SP_YTOK, count_strings(YT.len() as u64, self.yt_len), 2048),
            d(SP_DTOK, count_strings(DT.len() as u64, self.dt_len), 16384),
            d(SP_JMUT, self.jmut.n(), 8192),
            d(SP_YMUT, self.ymut.n(), 2048),
            d(SP_DMUT, self.dmut.n(), 8192),
            d(SP_JNEST, (DEPTHS.len() * json_nest(1).len()) as u64, 1),
            d(SP_YNEST, DEPTHS.iter().map(|&d| yaml_nest(if d <= 5000 { 2 } else { 5001 }).len()).sum::<usize>() as u64, 1),
            d(SP_PTOK_SP, count_strings(PT.len() as u64, self.pt_len), 32768),
            d(SP_PTOK_CAT, count_strings(PT.len() as u64, self.pt_len), 32768),
            d(SP_PNEST, (DEPTHS.len() * program_nest(1).len()) as u64, 1),
        ]
    }
    /// (format, input bytes, label)
    fn input(&self, space: usize, idx: u64) -> (&'static str, Vec<u8>, String) {
        match space {
            SP_JTOK => ("json", token_bytes(&JT, idx), String::new()),
            SP_YTOK => ("yaml", token_bytes(&YT, idx), String::new()),
            SP_DTOK => ("dsv", token_bytes(&DT, idx), String::new()),
            SP_JMUT => {
                let (b, k) = self.jmut.at(idx);
                ("json", b, k.to_string())
            }
            SP_YMUT => {
                let (b, k) = self.ymut.at(idx);
                ("yaml", b, k.to_string())
            }
            SP_DMUT => {
                let (b, k) = self.dmut.at(idx);
                ("dsv", b, k.to_string())
            }
            SP_JNEST => ("json", self.jnest()[idx as usize].1.clone(), self.jnest()[idx as usize].0.clone()),
            SP_YNEST => ("yaml", self.ynest()[idx as usize].1.clone(), self.ynest()[idx as usize].0.clone()),
            SP_PTOK_SP => ("program", program_at(idx, " ").into_bytes(), String::new()),
            SP_PTOK_CAT => ("program", program_at(idx, "").into_bytes(), String::new()),
            SP_PNEST => ("program", self.pnest()[idx as usize].1.clone().into_bytes(), self.pnest()[idx as usize].0.clone()),
            _ => unreachable!(),
        }
    }
}

static SPACES: OnceLock<Spaces> = OnceLock::new();
fn spaces(quick: bool) -> &'static Spaces {
    SPACES.get_or_init(|| Spaces::new(quick))
}

// ---------------------------------------------------------------- subjects --

struct Sink(usize);
impl core::fmt::Write for Sink {
    fn write_str(&mut self, s: &str) -> core::fmt::Result {
        self.0 += s.len();
        Ok(())
    }
}

/// Observations folded into a cheap fingerprint (counts as "distinct non-trivial").
#[derive(Default)]
struct Obs {
    h: u64,
    calls: u64,
    panics: Vec<PanicRec>,
}
impl Obs {
    /// One subject call: its result is folded into the fingerprint; a panic is recorded and the
    /// traversal continues, so one defect does not mask another on the same input.
    fn t<T: std::hash::Hash>(&mut self, f: impl FnOnce() -> T) {
        self.calls += 1;
        match pcatch(f) {
            Ok(v) => self.h = h64(&(self.h, v)),
            Err(p) => {
                self.h = h64(&(self.h, "panic"));
                if self.panics.len() < 16 {
                    self.panics.push(p);
                }
            }
        }
    }
}

/// Visit a value through the generic document traits, touching every accessor.
fn touch_value<V: DocumentValue>(v: &V, obs: &mut Obs, deep: bool) {
    obs.t(|| v.type_name());
    obs.t(|| v.is_null());
    obs.t(|| v.as_bool());
    obs.t(|| v.as_i64());
    obs.t(|| v.as_f64().map(f64::to_bits));
    obs.t(|| v.number_literal().map(|c| c.len()));
    obs.t(|| v.as_str().map(|c| c.len()));
    obs.t(|| v.key_string().map(|c| c.len()));
    obs.t(|| v.is_error());
    obs.t(|| v.error_message());
    obs.t(|| (v.is_bool(), v.is_number(), v.is_string(), v.is_array(), v.is_object(), v.is_iterable()));
    if !deep {
        return;
    }
    if let Some(f) = v.as_object() {
        obs.t(|| f.is_empty());
        let mut n = 0usize;
        let mut cur = f.clone();
        while let Some((field, rest)) = cur.uncons() {
            obs.t(|| field.key_str().map(|c| c.len()));
            obs.t(|| field.key.type_name());
            obs.t(|| field.value.type_name());
            obs.t(|| field.key_cursor.text_position());
            obs.t(|| field.value_cursor.text_position());
            cur = rest;
            n += 1;
            if n > 100_000 {
                break;
            }
        }
        if n <= 64 {
            obs.t(|| f.len());
            obs.t(|| f.keys().len());
            obs.t(|| f.find("a").map(|x| x.type_name()));
            obs.t(|| f.find_cursor("a").and_then(|c| c.text_position()));
            obs.t(|| f.find("").is_some());
            obs.t(|| f.all_fields().len());
        }
    }
    if let Some(e) = v.as_array() {
        obs.t(|| e.is_empty());
        let mut n = 0usize;
        let mut cur = e;
        while let Some((val, rest)) = cur.uncons() {
            obs.t(|| val.type_name());
            cur = rest;
            n += 1;
            if n > 100_000 {
                break;
            }
        }
        let mut cur = e;
        while let Some((c, rest)) = cur.uncons_cursor() {
            obs.t(|| c.text_position());
            cur = rest;
        }
        if n <= 64 {
            obs.t(|| e.len());
            for i in 0..n + 2 {
                obs.t(|| e.get(i).map(|x| x.type_name()));
                obs.t(|| e.get_cursor(i).and_then(|c| c.text_position()));
            }
            obs.t(|| e.get(usize::MAX).is_some());
            obs.t(|| e.collect_values().len());
            obs.t(|| e.collect_cursors().len());
        }
    }
}

fn touch_cursor<C: DocumentCursor>(c: &C, obs: &mut Obs, print: bool) {
    obs.t(|| c.is_container());
    obs.t(|| c.text_position());
    obs.t(|| c.line());
    obs.t(|| c.column());
    obs.t(|| c.document_index());
    obs.t(|| c.anchor().map(|s| s.len()));
    obs.t(|| c.alias().map(|s| s.len()));
    obs.t(|| c.explicit_tag().map(|s| s.len()));
    obs.t(|| c.style());
    obs.t(|| c.canonicalize_numbers());
    obs.t(|| c.line_comment().map(|s| s.len()));
    obs.t(|| c.line_comment_raw().map(|s| s.len()));
    obs.t(|| c.line_comment_checked().map(|o| o.map(|s| s.len())).ok());
    obs.t(|| c.is_falsy());
    obs.t(|| c.parent().and_then(|p| p.text_position()));
    if print {
        for (ind, sort) in [(IndentSpec::COMPACT, false), (IndentSpec::spaces(2), false), (IndentSpec::spaces(2), true)] {
            let mut s = Sink(0);
            stage("cursor.stream_json");
            let r = c.stream_json(&mut s, ind, sort);
            obs.t(|| (r.is_ok(), s.0));
            let mut s = Sink(0);
            stage("cursor.stream_yaml");
            let r = c.stream_yaml(&mut s, ind, sort);
            obs.t(|| (r.is_ok(), s.0));
        }
        let mut s = Sink(0);
        stage("cursor.stream_yaml_as_document");
        let r = c.stream_yaml_as_document(&mut s, IndentSpec::spaces(2), false);
        obs.t(|| (r.is_ok(), s.0));
        stage("walk");
    }
}

/// Iterative pre-order walk over the balanced-parentheses tree (no recursion in
/// the harness, so only the library's own recursion can exhaust the stack).
fn walk<C: DocumentCursor>(root: C, obs: &mut Obs, small: bool, mut extra: impl FnMut(&C, &mut Obs)) -> usize {
    let mut stack = vec![root];
    let mut nodes = 0usize;
    while let Some(c) = stack.pop() {
        nodes += 1;
        // printing at every node is quadratic: every node for small inputs; large (nesting-family)
        // inputs are printed from the root only (by the caller) and the first 64 nodes get the deep accessors
        let full = small || nodes <= 64;
        let v = c.value();
        if full {
            touch_cursor(&c, obs, small);
            touch_value(&v, obs, true);
            extra(&c, obs);
        } else {
            // beyond the first 64 nodes of a large input only the O(1) accessors (several others are
            // linear in the subtree, which would make the walk itself quadratic)
            obs.t(|| v.type_name());
            obs.t(|| c.text_position());
            obs.t(|| c.is_container());
        }
        if let Some(s) = c.next_sibling() {
            stack.push(s);
        }
        if let Some(k) = c.first_child() {
            stack.push(k);
        }
        if nodes > 2_000_000 {
            break;
        }
    }
    nodes
}

fn json_subject(b: &[u8], nest: bool, obs: &mut Obs) {
    let small = b.len() <= 256;
    stage("validate");
    let r = succinctly::json::validate::validate(b);
    obs.t(|| r.as_ref().map_err(|e| format!("{e}").len()).is_ok());
    if let Err(e) = &r {
        obs.t(|| format!("{e:?}").len());
    }
    stage("Index::build");
    let ix = JsonIndex::build(b);
    obs.t(|| (ix.ib_len(), ix.bp().len()));
    let root = ix.root(b);
    stage("walk");
    let nodes = walk(root, obs, small, |c, obs| {
        obs.t(|| c.text_range());
        obs.t(|| c.raw_bytes().map(|r| r.len()));
        obs.t(|| c.bp_position());
        match c.value() {
            StandardJson::String(s) => {
                obs.t(|| s.raw_bytes().len());
                obs.t(|| s.raw_and_escaped().1);
                obs.t(|| s.as_str().map(|x| x.len()).map_err(|e| format!("{e}")));
            }
            StandardJson::Number(n) => {
                obs.t(|| n.raw_bytes().len());
                obs.t(|| n.as_i64().ok());
                obs.t(|| n.as_f64().ok().map(f64::to_bits));
            }
            StandardJson::Error(m) => obs.t(|| m),
            _ => {}
        }
        if small {
            for ch in c.children() {
                obs.t(|| ch.text_position());
            }
        }
    });
    obs.t(|| nodes);
    if !small {
        for (ind, name) in [(IndentSpec::COMPACT, "root.stream_json"), (IndentSpec::spaces(2), "root.stream_json")] {
            stage(name);
            let mut s = Sink(0);
            let r = root.stream_json(&mut s, ind, false);
            obs.t(|| (r.is_ok(), s.0));
        }
        for ind in [IndentSpec::COMPACT, IndentSpec::spaces(2)] {
            stage("root.stream_yaml");
            let mut s = Sink(0);
            let r = root.stream_yaml(&mut s, ind, false);
            obs.t(|| (r.is_ok(), s.0));
        }
    }
    if small {
        for off in 0..=b.len() + 1 {
            obs.t(|| root.cursor_at_offset(off).and_then(|c| c.text_position()));
            obs.t(|| ix.to_line_column(off, b));
        }
        for line in 0..4 {
            for col in 0..4 {
                obs.t(|| root.cursor_at_position(line, col).and_then(|c| c.text_position()));
                obs.t(|| ix.to_offset(line, col, b));
            }
        }
        for k in 0..ix.ib_len() + 2 {
            obs.t(|| ix.ib_select1(k));
            obs.t(|| ix.ib_rank1(k));
        }
    }
    if !nest {
        stage("to_owned_cursor");
        let o = to_owned_cursor(&root);
        obs.t(|| o.to_json().len());
    }
    // the simple-cursor index over the same bytes
    stage("SimpleJsonIndex");
    let sx = SimpleJsonIndex::build(b);
    let sc = sx.structural_count();
    obs.t(|| sc);
    if small {
        for k in 0..sc + 1 {
            if let Some(p) = sx.structural_pos(k) {
                obs.t(|| sx.structural_index(p));
                obs.t(|| sx.find_close(b, p));
                obs.t(|| sx.skip_value(b, p));
                if let Some(ch) = sx.children(b, p) {
                    obs.t(|| ch.take(1000).count());
                }
            }
        }
        for p in 0..b.len() + 1 {
            obs.t(|| sx.skip_value(b, p));
            obs.t(|| sx.find_close(b, p));
        }
    } else {
        obs.t(|| sx.structural_positions(b).take(1_000_000).count());
        obs.t(|| sx.find_close(b, 0));
        obs.t(|| sx.skip_value(b, 0));
    }
}

fn yaml_subject(b: &[u8], nest: bool, obs: &mut Obs) {
    let small = b.len() <= 256;
    stage("validate");
    let r = succinctly::yaml::validate::validate(b);
    obs.t(|| r.as_ref().map_err(|e| format!("{e}").len()).is_ok());
    stage("Index::build");
    match YamlIndex::build(b) {
        Err(e) => {
            obs.t(|| format!("{e}").len());
            obs.t(|| format!("{e:?}").len());
        }
        Ok(ix) => {
            obs.t(|| (ix.ib_len(), ix.bp().len(), ix.ty_len(), ix.has_aliases()));
            let root = ix.root(b);
            stage("walk");
            let nodes = walk(root, obs, small, |c, obs| {
                obs.t(|| c.raw_bytes().map(|r| r.len()));
                obs.t(|| c.text_end_position());
                obs.t(|| c.bp_position());
                obs.t(|| (c.kind(), c.tag(), c.is_alias()));
                obs.t(|| c.resolve_alias_target_cursor().and_then(|t| t.text_position()));
                match c.value() {
                    YamlValue::String(s) => {
                        obs.t(|| s.raw_bytes().len());
                        obs.t(|| s.is_unquoted());
                        obs.t(|| s.as_str().map(|x| x.len()).map_err(|e| format!("{e}")));
                    }
                    YamlValue::Alias { anchor_name, target } => {
                        obs.t(|| anchor_name.len());
                        obs.t(|| target.and_then(|t| t.text_position()));
                    }
                    YamlValue::Error(m) => obs.t(|| m),
                    _ => {}
                }
                if small {
                    for ch in c.children() {
                        obs.t(|| ch.text_position());
                    }
                }
            });
            obs.t(|| nodes);
            stage("to_json");
            obs.t(|| root.to_json().len());
            stage("to_json_document");
            obs.t(|| root.to_json_document().len());
            let variants: &[(IndentSpec, bool)] = if small { &[(IndentSpec::COMPACT, false), (IndentSpec::spaces(2), false), (IndentSpec::spaces(2), true)] } else { &[(IndentSpec::COMPACT, false), (IndentSpec::spaces(2), false)] };
            for &(ind, sort) in variants {
                let mut s = Sink(0);
                stage("stream_json_document");
                let r = root.stream_json_document(&mut s, ind, sort);
                obs.t(|| (r.is_ok(), s.0));
                let mut s = Sink(0);
                stage("stream_yaml_document");
                let r = root.stream_yaml_document(&mut s, ind, sort);
                obs.t(|| (r.is_ok(), s.0));
            }
            if small {
                for off in 0..=b.len() + 1 {
                    obs.t(|| root.cursor_at_offset(off).and_then(|c| c.text_position()));
                    obs.t(|| ix.to_line_column(off, b));
                    obs.t(|| ix.find_bp_at_text_pos(off));
                }
                for line in 0..4 {
                    for col in 0..4 {
                        obs.t(|| root.cursor_at_position(line, col).and_then(|c| c.text_position()));
                        obs.t(|| ix.to_offset(line, col, b));
                    }
                }
                for k in 0..ix.bp().len() + 2 {
                    obs.t(|| ix.bp_to_text_pos(k));
                    obs.t(|| ix.bp_to_text_end_pos(k));
                    obs.t(|| ix.get_anchor_name(k).map(|s| s.len()));
                    obs.t(|| ix.get_tag(k).map(|s| s.len()));
                    obs.t(|| ix.get_alias_target(k));
                }
            }
            if !nest {
                stage("to_owned_cursor");
                let o = to_owned_cursor(&root);
                obs.t(|| o.to_json().len());
            }
        }
    }
}

fn dsv_subject(b: &[u8], obs: &mut Obs) {
    let configs = [DsvConfig::default(), DsvConfig::tsv(), DsvConfig::psv(), DsvConfig::csv().with_delimiter(b'a').with_quote_char(b',')];
    for (ci, cfg) in configs.iter().enumerate() {
        let d = if ci == 0 { Dsv::parse(b) } else { Dsv::parse_with_config(b, cfg) };
        let rc = d.row_count();
        obs.t(|| rc);
        obs.t(|| (d.index().marker_count(), d.index().row_count(), d.index().is_empty()));
        let mut nrows = 0usize;
        for row in d.rows() {
            nrows += 1;
            let mut nf = 0usize;
            for f in row.fields() {
                obs.t(|| f.len());
                nf += 1;
            }
            for i in 0..nf + 2 {
                obs.t(|| row.get(i).map(|f| f.len()));
            }
            obs.t(|| row.get(usize::MAX).is_some());
        }
        obs.t(|| nrows);
        for n in 0..rc + 2 {
            obs.t(|| d.row(n).map(|r| r.fields().count()));
        }
        obs.t(|| d.row(usize::MAX).is_some());
        // cursor walks: field by field, row by row, goto_row
        let mut c = d.cursor();
        let mut steps = 0;
        loop {
            obs.t(|| (c.position(), c.at_end(), c.current_field().len(), c.current_field_str().map(|s| s.len()).ok()));
            steps += 1;
            if !c.next_field() || steps > 10_000 {
                break;
            }
        }
        let mut c = d.cursor();
        let mut steps = 0;
        while c.next_row() && steps < 10_000 {
            obs.t(|| (c.position(), c.current_field().len()));
            steps += 1;
        }
        for n in 0..rc + 2 {
            let mut c = d.cursor();
            obs.t(|| (c.goto_row(n), c.position(), c.current_field().len()));
            obs.t(|| c.next_field());
            obs.t(|| c.current_field().len());
        }
        for k in 0..b.len().min(64) + 2 {
            obs.t(|| (d.index().markers_rank1(k), d.index().markers_select1(k), d.index().newlines_rank1(k), d.index().newlines_select1(k)));
        }
    }
}

fn program_subject(s: &str, obs: &mut Obs) {
    for mode in [ParserMode::Jq, ParserMode::Yq] {
        stage("parse");
        match parse_with_mode(s, mode) {
            Ok(_) => obs.t(|| 1u8),
            Err(e) => {
                obs.t(|| e.position);
                obs.t(|| format!("{e}").len());
            }
        }
        match parse_program_with_mode(s, mode) {
            Ok(_) => obs.t(|| 2u8),
            Err(e) => {
                obs.t(|| e.position);
                obs.t(|| format!("{e}").len());
            }
        }
    }
}

// ---------------------------------------------------------------- running --

fn example(space: &str, fmt: &str, bytes: &[u8], label: &str, p: Option<&PanicRec>) -> Value {
    let mut v = json!({"kind": "lib", "side": "rust", "space": space, "format": fmt, "input_hex": hex(bytes), "input": show(bytes), "label": label, "input_len": bytes.len()});
    if bytes.len() > 4096 && space.ends_with("/nesting") {
        // regenerated from (space, label) on replay
        v.as_object_mut().unwrap().remove("input_hex");
    }
    if let (Some(p), Value::Object(m)) = (p, &mut v) {
        m.insert("panic".into(), panic_json(p));
    }
    v
}

/// Run one input through the subject of its format. Each top-level subject call is
/// caught separately so that one panic does not hide another route's.
fn run_input(space: &str, fmt: &str, bytes: &[u8], label: &str, nest: bool, rep: &mut Report) {
    rep.space(space);
    rep.input();
    let size = bytes.len();
    let mut obs = Obs::default();
    let r = match fmt {
        "json" => pcatch(|| json_subject(bytes, nest, &mut obs)),
        "yaml" => pcatch(|| yaml_subject(bytes, nest, &mut obs)),
        "dsv" => pcatch(|| dsv_subject(bytes, &mut obs)),
        "program" => match std::str::from_utf8(bytes) {
            Ok(s) => pcatch(|| program_subject(s, &mut obs)),
            Err(_) => Ok(()),
        },
        _ => unreachable!(),
    };
    rep.trans(obs.calls.max(1));
    let mut panics = std::mem::take(&mut obs.panics);
    match r {
        Ok(()) => rep.distinct(&(fmt, obs.h)),
        Err(p) => panics.push(p),
    }
    let mut seen: Vec<String> = Vec::new();
    for p in &panics {
        let sig = panic_sig(p);
        if !seen.contains(&sig) {
            rep.fail(&sig, size, || example(space, fmt, bytes, label, Some(p)));
            seen.push(sig);
        }
    }
}

fn run_idx(space: usize, idx: u64, rep: &mut Report) {
    let sp = spaces(tier_is_quick());
    let (fmt, bytes, label) = sp.input(space, idx);
    let nest = matches!(space, SP_JNEST | SP_YNEST | SP_PNEST);
    stage_journal(nest);
    run_input(NAMES[space], fmt, &bytes, &label, nest, rep);
    if idx % 50021 == 17 && space != SP_JNEST && space != SP_YNEST && space != SP_PNEST {
        rep.sample(|| json!({"space": NAMES[space], "input": show(&bytes), "variant": label}));
    }
}

/// Bytes of a recorded case: the recorded hex, or (large nesting inputs) regenerated from space + label.
fn case_bytes(case: &Value) -> Vec<u8> {
    if let Some(h) = case["input_hex"].as_str() {
        return unhex(h);
    }
    let sp = spaces(tier_is_quick());
    let label = case["label"].as_str().unwrap_or("");
    let space = case["space"].as_str().unwrap_or("");
    let find = |v: &Vec<(String, Vec<u8>)>| v.iter().find(|x| x.0 == label).map(|x| x.1.clone());
    let r = match space {
        "json/nesting" => find(sp.jnest()),
        "yaml/nesting" => find(sp.ynest()),
        "program/nesting" => sp.pnest().iter().find(|x| x.0 == label).map(|x| x.1.clone().into_bytes()),
        _ => None,
    };
    r.unwrap_or_else(|| panic!("replay case has neither input_hex nor a known nesting label"))
}

fn run_case(case: &Value, rep: &mut Report) {
    let bytes = case_bytes(case);
    let fmt = match case["format"].as_str().unwrap_or("json") {
        "json" => "json",
        "yaml" => "yaml",
        "dsv" => "dsv",
        _ => "program",
    };
    let space = case["space"].as_str().unwrap_or("replay").to_string();
    let nest = space.ends_with("/nesting");
    stage_journal(true);
    run_input(&space, fmt, &bytes, case["label"].as_str().unwrap_or(""), nest, rep);
}

fn tier_is_quick() -> bool {
    let a: Vec<String> = std::env::args().collect();
    a.iter().position(|x| x == "--tier").and_then(|i| a.get(i + 1)).map(|t| t == "quick").unwrap_or(true)
}

fn on_crash(cr: CaseRef<'_>, crash: &Crash, rep: &mut Report) {
    let (space, fmt, bytes, label) = match cr {
        CaseRef::Idx(s, i) => {
            let (f, b, l) = spaces(tier_is_quick()).input(s, i);
            (NAMES[s].to_string(), f.to_string(), b, l)
        }
        CaseRef::Val(v) => (v["space"].as_str().unwrap_or("replay").to_string(), v["format"].as_str().unwrap_or("json").to_string(), case_bytes(v), v["label"].as_str().unwrap_or("").to_string()),
    };
    rep.space(&space);
    rep.input();
    rep.trans(1);
    let family = label.split('/').next().unwrap_or("");
    let seam = if family.is_empty() { format!("lib-{fmt}") } else { format!("lib-{fmt}:{family}") };
    // documents: the API that was running names the root cause; programs: the parser construct does too
    let seam = if crash.stage.is_empty() {
        seam
    } else if fmt == "program" && !family.is_empty() {
        format!("{fmt}:{}:{family}", crash.stage)
    } else {
        format!("{fmt}:{}", crash.stage)
    };
    let probe_case = json!({"kind": "lib", "side": "rust", "space": space, "format": fmt, "label": label, "input_hex": if bytes.len() <= 4096 || !space.ends_with("/nesting") { json!(hex(&bytes)) } else { Value::Null }});
    let key = format!("{space}|{family}|{}", crash.stage);
    let tier = if tier_is_quick() { "quick" } else { "thorough" };
    match death_verdict(crash, &seam, &|| probe_frame(&key, tier, 2 << 30, &probe_case)) {
        Ok(sig) => {
            let tail: String = crash.stderr_tail.chars().rev().take(1500).collect::<String>().chars().rev().collect();
            rep.fail(&sig, bytes.len(), || {
                let mut e = example(&space, &fmt, &bytes, &label, None);
                if let Value::Object(m) = &mut e {
                    m.insert("died".into(), json!({"status": crash.status, "stage": crash.stage, "stderr_tail": tail}));
                }
                e
            });
        }
        Err(why) => {
            rep.notes.push(format!("undecided ({why}) in stage {:?}: space={space} label={label} input={}", crash.stage, show(&bytes[..bytes.len().min(60)])));
        }
    }
}

fn explore(ctx: &Ctx, rep: &mut Report) {
    install_hook();
    let sp = spaces(ctx.quick());
    let mut defs = sp.defs();
    only_spaces(&mut defs);
    let cfg = Contain::from_ctx(ctx);
    supervise(&cfg, &defs, rep, &on_crash);
    for (i, d) in defs.iter().enumerate() {
        let note = match i {
            SP_JTOK => format!("all strings of 0..={} tokens over the 22-token JSON alphabet = {}", sp.jt_len, d.n),
            SP_YTOK => format!("all strings of 0..={} tokens over the 30-token YAML alphabet = {}", sp.yt_len, d.n),
            SP_DTOK => format!("all strings of 0..={} symbols over the 5 DSV symbols = {}", sp.dt_len, d.n),
            SP_JMUT | SP_YMUT | SP_DMUT => {
                let m = [&sp.jmut, &sp.ymut, &sp.dmut][i - SP_JMUT];
                format!("{} seed documents x (seed, every prefix, every position x {} bytes substituted, every single-byte deletion{}) = {}", m.seeds.len(), m.bytes.len(), if sp.quick { "" } else { ", every position x byte inserted" }, d.n)
            }
            SP_JNEST | SP_YNEST | SP_PNEST => format!("every shape x depth {:?} = {}", DEPTHS, d.n),
            _ => format!("all strings of 0..={} tokens over the 62-token program alphabet = {}", sp.pt_len, d.n),
        };
        rep.mark_exhaustive(&d.name, &note);
    }
    rep.extra.insert("alphabets".into(), json!({"json_tokens": JT.iter().map(|t| show(t)).collect::<Vec<_>>(), "yaml_tokens": YT.iter().map(|t| show(t)).collect::<Vec<_>>(),
        "dsv_symbols": DT.iter().map(|t| show(t)).collect::<Vec<_>>(), "program_tokens": PT.iter().map(|t| show(t.as_bytes())).collect::<Vec<_>>()}));
    rep.extra.insert("containment".into(), json!({"worker_processes": cfg.threads, "stack_bytes": cfg.stack_bytes, "rlimit_as_bytes": cfg.rlimit_as, "case_watchdog_s": cfg.case_timeout_s}));
    let und = rep.notes.iter().filter(|n| n.starts_with("undecided")).count();
    rep.extra.insert("undecided".into(), json!(und));
}

fn replay(case: &Value, rep: &mut Report) {
    install_hook();
    let tier = if tier_is_quick() { "quick" } else { "thorough" };
    let cfg = Contain { backtrace: false, tier: tier.into(), threads: 1, rlimit_as: 2 << 30, case_timeout_s: 30.0, stack_bytes: 8 << 20 };
    supervise_one(&cfg, case, rep, &on_crash);
}

fn main() {
    let args: Vec<String> = std::env::args().collect();
    if args.iter().any(|a| a == "--dump-spec") {
        println!("{}", dump_spec(tier_is_quick()));
        return;
    }
    if let Some(i) = args.iter().position(|a| a == "--dump-nest") {
        let which = args.get(i + 1).map(|s| s.as_str()).unwrap_or("json");
        for d in DEPTHS {
            let fam: Vec<(&'static str, Vec<u8>)> = match which {
                "json" => json_nest(d),
                "yaml" => yaml_nest(d),
                _ => program_nest(d).into_iter().map(|(n, p)| (n, p.into_bytes())).collect(),
            };
            let maxb: usize = args.iter().position(|a| a == "--max-bytes").and_then(|i| args.get(i + 1)).and_then(|s| s.parse().ok()).unwrap_or(usize::MAX);
            use std::io::Write;
            let out = std::io::stdout();
            let mut o = std::io::BufWriter::with_capacity(1 << 20, out.lock());
            for (n, b) in fam {
                if b.len() <= maxb {
                    let _ = writeln!(o, "{n}\t{d}\t{}", hexs(&b));
                }
            }
        }
        return;
    }
    if is_worker() {
        worker_main(&|| { spaces(tier_is_quick()); }, &run_idx, &run_case);
    }
    drive("C19", explore, replay);
}
