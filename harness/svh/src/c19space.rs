//! Bounded input spaces shared by the C19 and C30 explorers (and, through
//! `--dump-spec`, by the CLI-batch modules c19cli.py / c30cli.py — one generator,
//! two drivers). Pure data + enumeration; nothing here calls the code under test.
#![allow(dead_code)]
use serde_json::{json, Value};

/// 22 JSON tokens (structural characters, partial literals, escapes, raw
/// non-ASCII bytes split over two tokens, NUL, a lone-surrogate escape).
pub const JT: [&[u8]; 22] = [
    b"{", b"}", b"[", b"]", b":", b",", b"\"", b"\\", b"a", b"1", b"-", b".", b"e", b" ", b"\n", b"tru", b"null", b"\xc3", b"\xa9", b"\x00", b"\\u", b"d800",
];

/// 30 YAML tokens (indicators, indentation, quotes, anchors/aliases/tags, block
/// scalar headers, document markers, directives, merge key, raw lead byte, escape).
pub const YT: [&[u8]; 30] = [
    b"a", b": ", b":", b"- ", b"-", b"\n", b" ", b"  ", b"#", b"\"", b"'", b"[", b"]", b"{", b"}", b",", b"&a", b"*a", b"!t", b"|", b">", b"?", b"---", b"...", b"\t", b"\r", b"%", b"<<", b"\xc3", b"\\",
];

/// The 5 DSV symbols.
pub const DT: [&[u8]; 5] = [b"a", b",", b"\"", b"\n", b"\r"];

/// 62 jq program tokens incl. non-ASCII, NUL, unterminated strings / interpolations.
pub const PT: [&str; 62] = [
    ".", "a", "[", "]", "{", "}", "(", ")", "|", ",", ":", "\"", "\\(", "$x", "as", "1", "1e1000", "-", "+", "*", "/", "%", "==", "//", "?", "..", "if", "then", "else", "end", "try", "catch", "reduce",
    "foreach", "def", "f", ";", "@base64", "\u{e9}", "\u{0}", "limit", "[]", ".[", "and", "not", "label", "break", "import", "include", "?//", "|=", "+=", "..a", "..\"a\"", ".\"", ".[1:]", "1.", ".e", "0x1",
    "nan", "$__loc__", "$ENV",
];

pub fn nstrings(a: u64, maxlen: u32) -> u64 {
    (0..=maxlen).map(|l| a.pow(l)).sum()
}

/// Shortlex decode of string number `idx` over an alphabet of `a` symbols.
pub fn nth_symbols(a: u64, mut idx: u64, out: &mut Vec<usize>) {
    out.clear();
    let mut len = 0u32;
    loop {
        let c = a.pow(len);
        if idx < c {
            break;
        }
        idx -= c;
        len += 1;
    }
    for _ in 0..len {
        out.push((idx % a) as usize);
        idx /= a;
    }
    out.reverse();
}

pub fn token_bytes(alpha: &[&[u8]], idx: u64) -> Vec<u8> {
    let mut ix = Vec::new();
    nth_symbols(alpha.len() as u64, idx, &mut ix);
    let mut s = Vec::new();
    for k in ix {
        s.extend_from_slice(alpha[k]);
    }
    s
}

/// Program number `idx`: tokens joined by `sep` (" " or "").
pub fn program_at(idx: u64, sep: &str) -> String {
    let mut ix = Vec::new();
    nth_symbols(PT.len() as u64, idx, &mut ix);
    let v: Vec<&str> = ix.iter().map(|&k| PT[k]).collect();
    v.join(sep)
}

// ------------------------------------------------------------------ seeds --

const J_SCAL: [&str; 17] = [
    "null", "true", "false", "0", "-0", "1", "-1", "10", "1.5", "0.10", "1e2", "1E+2", "-1.5e-3", "1e-7", "100000000000000000000", "9007199254740993", "123456789012345678901234567890",
];
const J_STR: [&str; 14] = [
    "\"\"", "\"a\"", "\" a \"", "\"\\\"\"", "\"\\\\\"", "\"\\/\"", "\"\\b\\f\\n\\r\\t\"", "\"\\u0041\"", "\"\\u00e9\"", "\"\\ud83d\\ude00\"", "\"\u{e9}\"", "\"\u{1F600}\"", "\"a\\u0000b\"", "\"\\u007f\"",
];
const J_KEYS: [&str; 6] = ["\"a\"", "\"\"", "\"\\u0061\"", "\"a b\"", "\"\u{e9}\"", "\"a\\\"b\""];
const J_SMALL: [&str; 6] = ["null", "0", "-1.5e-3", "\"a\"", "\"\\u00e9\"", "\"\u{e9}\""];
const J_WS: [&str; 4] = [" ", "\n", "\r\n", " \n\t\r "];

/// Small valid JSON documents: every scalar alone, in an array and in an object;
/// every key; two-element and nested combinations over a reduced leaf alphabet;
/// thorough adds whitespace placements and the full leaf alphabet in pairs.
pub fn json_seeds(quick: bool) -> Vec<Vec<u8>> {
    let mut out: Vec<String> = Vec::new();
    let leaves: Vec<&str> = J_SCAL.iter().chain(J_STR.iter()).copied().collect();
    for s in &leaves {
        out.push(s.to_string());
        out.push(format!("[{s}]"));
        out.push(format!("{{\"a\":{s}}}"));
    }
    out.push("[]".into());
    out.push("{}".into());
    for k in J_KEYS {
        out.push(format!("{{{k}:1}}"));
        out.push(format!("{{{k}:1,\"a\":2}}"));
    }
    for a in J_SMALL {
        for b in J_SMALL {
            out.push(format!("[{a},{b}]"));
            out.push(format!("{{\"a\":{a},\"b\":{b}}}"));
        }
        out.push(format!("[[{a}]]"));
        out.push(format!("{{\"a\":[{a}]}}"));
        out.push(format!("[{{\"a\":{a}}}]"));
        out.push(format!("{{\"a\":{{\"b\":{a}}}}}"));
        out.push(format!("[[],{a},{{}}]"));
    }
    out.push(format!("\"{}\"", "x".repeat(70)));
    out.push("[1,[2,[3,[4]]],{\"a\":{\"b\":{\"c\":null}}}]".into());
    if !quick {
        for w in J_WS {
            for a in J_SMALL {
                out.push(format!("{w}{a}{w}"));
                out.push(format!("[{w}{a}{w},{w}{a}{w}]"));
                out.push(format!("{{{w}\"a\"{w}:{w}{a}{w}}}"));
            }
        }
        for a in &leaves {
            for b in &leaves {
                out.push(format!("[{a},{b}]"));
            }
        }
    }
    dedup(out)
}

fn dedup(v: Vec<String>) -> Vec<Vec<u8>> {
    let mut seen = std::collections::HashSet::new();
    let mut out = Vec::new();
    for s in v {
        if seen.insert(s.clone()) {
            out.push(s.into_bytes());
        }
    }
    out
}

/// Small well-formed YAML documents covering the syntax the parser has code for.
pub fn yaml_seeds(quick: bool) -> Vec<Vec<u8>> {
    let mut out: Vec<String> = Vec::new();
    let fixed = [
        "a: 1\n",
        "a: b\nc: d\n",
        "a:\n  b: 1\n  c: 2\n",
        "a:\n  b:\n    c: x\nd: y\n",
        "- a\n- b\n",
        "- - a\n  - b\n- c\n",
        "- a: 1\n  b: 2\n- c: 3\n",
        "a:\n- 1\n- 2\n",
        "a:\n  - 1\n  - x: y\n",
        "-\n  a\n",
        "[a, b]\n",
        "{a: 1, b: [2, 3]}\n",
        "a: [1, {b: c}, []]\n",
        "a: {}\nb: []\n",
        "[\n  a,\n  b\n]\n",
        "{a: 1,\n b: 2}\n",
        "\"a\": 'b'\n",
        "a: \"x\\ny\\t\\\"z\\\\\"\n",
        "a: \"\\u00e9\\x41\\U0001F600\\0\"\n",
        "a: 'it''s'\n",
        "a: \"multi\n  line\"\n",
        "a: 'multi\n  line'\n",
        "a: plain\n  continued\n",
        "a: |\n  x\n  y\n",
        "a: |-\n  x\n",
        "a: |+\n  x\n\n",
        "a: |2\n   x\n  y\n",
        "a: >\n  x\n  y\n\n  z\n",
        "a: >-\n  x\n",
        "a: >2+\n    x\n",
        "- |\n  x\n- >\n  y\n",
        "|\n x\n",
        "a: &x 1\nb: *x\n",
        "a: &x\n  k: v\nb: *x\n",
        "a: &x {k: v}\nb:\n  <<: *x\n  z: 1\n",
        "- &a [1, 2]\n- *a\n",
        // alias graphs: self-reference, self-reference plus a later alias outside the anchored node, indirect and
        // mutual cycles, a redefined anchor, an alias before its anchor — whatever the loader decides (value or
        // reported error), printing must not recurse without bound
        "a: &x\n  b: *x\n",
        "a: &x\n  b: *x\nc: *x\n",
        "[&a [*a], *a]\n",
        "- &a\n  - *a\n- *a\n",
        "a: &x {b: &y {c: *x}}\nd: *y\ne: *x\n",
        "a: &x [1]\nb: &x [*x]\nc: *x\n",
        "a: &x {b: *x, c: *x}\nd: [*x, *x]\n",
        "&r {a: *r}\n",
        "- &a [*b]\n- &b [*a]\n- *a\n",
        "a: *x\nb: &x 1\n",
        "a: &x {k: &x {j: *x}}\nb: *x\n",
        "a: !!str 1\nb: !t x\nc: !!int \"3\"\n",
        "!!map {a: 1}\n",
        "--- a\n--- b\n",
        "---\na: 1\n...\n---\nb: 2\n",
        "%YAML 1.2\n---\na: 1\n",
        "%TAG ! tag:x,2000:\n---\n!t a\n",
        "# c\na: 1 # d\n# e\n",
        "a: 1\n\n\nb: 2\n",
        "? a\n: b\n",
        "? [a, b]\n: c\n",
        "? |\n  k\n: v\n",
        "a: null\nb: ~\nc:\nd: true\ne: False\nf: 0x1F\ng: 0o7\nh: 1e3\ni: .inf\nj: -.INF\nk: .nan\nl: 1_000\n",
        "a: 2001-12-14\nb: 1:30\nc: 012\nd: +1\ne: .5\n",
        "a: \u{e9}\n\u{e9}: b\n",
        "\"\u{e9}\": '\u{1F600}'\n",
        "a: - b\n",
        "a: b: c\n",
        "a:\tb\n",
        "a: 1\r\nb: 2\r\n",
        "a: 1\rb: 2\r",
        "key with spaces: value with spaces\n",
        "a: \"\"\nb: ''\nc: \" \"\n",
        "- \n- a\n",
        "a: [\n]\n",
        "a: {\n}\n",
        "[a, [b, [c]]]\n",
        "{a: {b: {c: d}}}\n",
        "- {a: [1, 2], b: {c: 3}}\n",
        "a: [x, 'y', \"z\", 1, true, null, ~]\n",
        "a: {b, c: , ? d}\n",
        "[a: b, c]\n",
        "- - - a\n",
        "a:\n  - b:\n      - c\n",
        "\"a\\\n  b\"\n",
        "a: >\n\n  x\n",
        "a: |\n\n",
        "a: |\n  x\nb: 1\n",
        "1: a\ntrue: b\nnull: c\n",
        "a: *x\n",
        "<<: {a: 1}\nb: 2\n",
        "a: &x b\n*x : c\n",
        "",
        "\n",
        "---\n",
        "...\n",
        "# only a comment\n",
        "a",
        "a: b",
    ];
    for f in fixed {
        out.push(f.to_string());
    }
    // long tokens around the 16/32/64/96-byte chunk sizes of the vectorised scanners (anchor / alias / tag names,
    // quoted and plain scalars, comments), followed by `: b`; their truncations put every prefix — in particular
    // `name:` with nothing after the colon — at the very end of the input, where a look-ahead `input[pos + 1]` has
    // nothing to look at
    let lens: &[usize] = if quick { &[15, 16, 31, 32, 63, 64, 95] } else { &[14, 15, 16, 17, 30, 31, 32, 33, 34, 62, 63, 64, 65, 66, 94, 95, 96, 97, 127, 128] };
    for &n in lens {
        let name = "a".repeat(n);
        for pre in ["&", "*", "k: &", "- *", "k: !", "k: \"", "k: '", "# ", "k: "] {
            let close = match pre { "k: \"" => "\"", "k: '" => "'", _ => "" };
            out.push(format!("{pre}{name}{close}: b\n"));
        }
    }
    if !quick {
        let scal = ["1", "x", "\"q\"", "'s'", "null", "~", "true", "|\n    t\n", ">-\n    t\n", "&a v", "*a", "!t v", "[1]", "{k: v}", ""];
        for s in scal {
            out.push(format!("k: {s}\n"));
            out.push(format!("- {s}\n"));
            out.push(format!("k:\n  - {s}\n"));
            out.push(format!("- k: {s}\n  j: {s}\n"));
            out.push(format!("[{s}]\n").replace('\n', " ") + "\n");
            out.push(format!("? {s}\n: {s}\n"));
        }
    }
    dedup(out)
}

pub fn dsv_seeds() -> Vec<Vec<u8>> {
    let v = [
        "a,b\nc,d\n",
        "a,b\r\nc,d\r\n",
        "a,b\rc,d\r",
        "\"a,b\",c\n",
        "\"a\"\"b\",c\n",
        "\"a\nb\",c\nd,e\n",
        "a,,b\n,,\n",
        "a",
        "a,",
        ",a\n",
        "\"\"\n",
        "\"a\",\"b\"\n\"c\",\"d\"",
        "a,\"b\nc\"\n",
        "\u{e9},\u{1F600}\n",
        "a\tb|c;d\n",
        "h1,h2,h3\n1,2,3\n4,5,6\n7,8,9\n",
        "\n\n\n",
        "",
    ];
    v.iter().map(|s| s.as_bytes().to_vec()).collect()
}

/// Bytes used for single-byte mutations. Thorough: all 256 values.
pub fn mutation_bytes(quick: bool) -> Vec<u8> {
    if !quick {
        return (0..=255u8).collect();
    }
    let mut v: Vec<u8> = b"{}[]:,\"'\\ \n\r\t-.+0a9eEun#&*!|>?%<@`~".to_vec();
    v.extend_from_slice(&[0x00, 0x1f, 0x7f, 0x80, 0xbf, 0xc3, 0xe2, 0xed, 0xf0, 0xff]);
    v
}

/// The smaller mutation alphabet used by the CLI part.
pub fn mutation_bytes_cli(quick: bool) -> Vec<u8> {
    if quick {
        b"\"\\\n\xff".to_vec()
    } else {
        b"{}[]:,\"'\\ \n\r\t-#&*|>\x00\xc3\xff".to_vec()
    }
}

/// Number of derived inputs of one seed: the seed, every proper prefix, every
/// (position, byte) substitution, every single-byte deletion and — thorough only —
/// every (position, byte) insertion.
pub fn variants_per_seed(len: usize, nb: usize, quick: bool) -> u64 {
    let l = len as u64;
    let b = nb as u64;
    1 + l + l * b + l + if quick { 0 } else { (l + 1) * b }
}

/// Variant `k` of `seed` (see `variants_per_seed`); returns (bytes, kind label).
pub fn variant(seed: &[u8], bytes: &[u8], quick: bool, mut k: u64) -> (Vec<u8>, &'static str) {
    let l = seed.len() as u64;
    let b = bytes.len() as u64;
    if k == 0 {
        return (seed.to_vec(), "seed");
    }
    k -= 1;
    if k < l {
        return (seed[..k as usize].to_vec(), "truncate");
    }
    k -= l;
    if k < l * b {
        let mut v = seed.to_vec();
        v[(k / b) as usize] = bytes[(k % b) as usize];
        return (v, "substitute");
    }
    k -= l * b;
    if k < l {
        let mut v = seed.to_vec();
        v.remove(k as usize);
        return (v, "delete");
    }
    k -= l;
    assert!(!quick && k < (l + 1) * b);
    let mut v = seed.to_vec();
    v.insert((k / b) as usize, bytes[(k % b) as usize]);
    (v, "insert")
}

// --------------------------------------------------------- nesting families --

pub const DEPTHS: [usize; 9] = [128, 129, 255, 256, 257, 384, 385, 5000, 100000];

fn rep(s: &str, n: usize) -> String {
    s.repeat(n)
}

/// JSON-shaped nesting documents of depth `d` (name, bytes).
pub fn json_nest(d: usize) -> Vec<(&'static str, Vec<u8>)> {
    let mut v: Vec<(&'static str, String)> = vec![
        ("arr", rep("[", d) + &rep("]", d)),
        ("arr-leaf", rep("[", d) + "1" + &rep("]", d)),
        ("arr-open", rep("[", d)),
        ("arr-close-only", rep("]", d)),
        ("obj", rep("{\"a\":", d) + "1" + &rep("}", d)),
        ("obj-open", rep("{\"a\":", d)),
        ("mixed", rep("[{\"a\":", d / 2) + "1" + &rep("}]", d / 2)),
        ("arr-wide", rep("[1,", d) + "2" + &rep(",3]", d)),
        ("brace-open", rep("{", d)),
    ];
    v.push(("backslashes", "\"".to_string() + &rep("\\", d) + "\""));
    v.into_iter().map(|(n, s)| (n, s.into_bytes())).collect()
}

/// YAML-shaped nesting documents of depth `d`. Block-indented chains are
/// quadratic in size and are only produced for d <= 5000.
pub fn yaml_nest(d: usize) -> Vec<(&'static str, Vec<u8>)> {
    let mut v: Vec<(&'static str, String)> = vec![
        ("flow-seq", rep("[", d) + &rep("]", d)),
        ("flow-seq-open", rep("[", d)),
        ("flow-map", rep("{a: ", d) + "1" + &rep("}", d)),
        ("flow-map-open", rep("{a: ", d)),
        ("dash-chain", rep("- ", d) + "a\n"),
        ("key-chain", rep("a: ", d) + "b\n"),
        ("qmark-chain", rep("? ", d) + "a\n"),
        ("anchor-chain", rep("&a ", d) + "b\n"),
        ("tag-chain", rep("!t ", d) + "b\n"),
        ("flow-mixed", rep("[{a: ", d / 2) + "1" + &rep("}]", d / 2)),
    ];
    if d <= 5000 {
        let mut s = String::new();
        for i in 0..d {
            s.push_str(&" ".repeat(i));
            s.push_str("a:\n");
        }
        v.push(("block-map-indent", s));
        let mut s = String::new();
        for i in 0..d {
            s.push_str(&" ".repeat(i));
            s.push_str("-\n");
        }
        v.push(("block-seq-indent", s));
    }
    v.into_iter().map(|(n, s)| (n, s.into_bytes())).collect()
}

/// jq programs whose syntax tree (or parse recursion) has depth `d`.
pub fn program_nest(d: usize) -> Vec<(&'static str, String)> {
    vec![
        ("array", rep("[", d) + &rep("]", d)),
        ("paren", rep("(", d) + "1" + &rep(")", d)),
        ("object", rep("{a:", d) + "1" + &rep("}", d)),
        ("index", rep(".[", d) + "0" + &rep("]", d)),
        ("neg", rep("-", d) + "1"),
        ("plus-chain", "1".to_string() + &rep("+1", d)),
        ("pipe-chain", ".".to_string() + &rep("|.", d)),
        ("comma-chain", ".".to_string() + &rep(",.", d)),
        ("field-chain", rep(".a", d)),
        ("opt-chain", ".a".to_string() + &rep("?", d)),
        ("interp", rep("\"\\(", d) + "1" + &rep(")\"", d)),
        ("if", rep("if 1 then ", d) + "1" + &rep(" else 1 end", d)),
        ("try", rep("try ", d) + "1"),
        ("as", rep(". as $x | ", d) + "1"),
        ("def", rep("def f: ", d) + "1" + &rep("; f", d)),
        ("alt-chain", "1".to_string() + &rep("//1", d)),
        ("open-array", rep("[", d)),
        ("reduce", rep("reduce . as $x (", d) + "1" + &rep("; .)", d)),
        ("not-chain", ".".to_string() + &rep("|not", d)),
        ("destructure", ". as ".to_string() + &rep("[", d) + "$a" + &rep("]", d) + " | 1"),
    ]
}

pub fn hexs(b: &[u8]) -> String {
    const D: &[u8; 16] = b"0123456789abcdef";
    let mut s = String::with_capacity(b.len() * 2);
    for x in b {
        s.push(D[(x >> 4) as usize] as char);
        s.push(D[(x & 15) as usize] as char);
    }
    s
}

/// Everything the Python drivers need (alphabets, seeds, mutation bytes, depths).
pub fn dump_spec(quick: bool) -> Value {
    let hx = |v: Vec<Vec<u8>>| v.iter().map(|b| hexs(b)).collect::<Vec<_>>();
    json!({
        "JT": JT.iter().map(|b| hexs(b)).collect::<Vec<_>>(),
        "YT": YT.iter().map(|b| hexs(b)).collect::<Vec<_>>(),
        "DT": DT.iter().map(|b| hexs(b)).collect::<Vec<_>>(),
        "PT": PT.iter().map(|s| hexs(s.as_bytes())).collect::<Vec<_>>(),
        "json_seeds": hx(json_seeds(quick)),
        "yaml_seeds": hx(yaml_seeds(quick)),
        "dsv_seeds": hx(dsv_seeds()),
        "mutation_bytes_cli": mutation_bytes_cli(quick),
        "depths": DEPTHS,
    })
}
