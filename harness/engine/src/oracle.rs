//! Independent reference models. None of these calls the code under test.

/// Line starts under the rule "LF, CR and CRLF are single line breaks"; a break
/// at the very end of the text does not start another line.
pub fn line_starts(t: &[u8]) -> Vec<usize> {
    let mut s = vec![0];
    let mut i = 0;
    while i < t.len() {
        let w = if t[i] == b'\n' {
            1
        } else if t[i] == b'\r' {
            if i + 1 < t.len() && t[i + 1] == b'\n' {
                2
            } else {
                1
            }
        } else {
            0
        };
        if w == 0 {
            i += 1;
            continue;
        }
        i += w;
        if i < t.len() {
            s.push(i);
        }
    }
    s
}

/// (line, column), both 1-based, of byte offset `off` under the LF/CR/CRLF rule,
/// computed by a forward scan (columns count bytes).
pub fn line_col_crlf(t: &[u8], off: usize) -> (usize, usize) {
    let mut line = 1;
    let mut ls = 0;
    let mut i = 0;
    let lim = off.min(t.len());
    while i < lim {
        match t[i] {
            b'\r' => {
                let w = if t.get(i + 1) == Some(&b'\n') { 2 } else { 1 };
                if i + w > lim {
                    // offset points between CR and LF: still on the old line
                    break;
                }
                line += 1;
                i += w;
                ls = i;
            }
            b'\n' => {
                line += 1;
                i += 1;
                ls = i;
            }
            _ => i += 1,
        }
    }
    (line, off.wrapping_sub(ls).wrapping_add(1))
}

/// (line, column) counting only LF as a break.
pub fn line_col_lf(t: &[u8], off: usize) -> (usize, usize) {
    let lim = off.min(t.len());
    let line = 1 + t[..lim].iter().filter(|&&b| b == b'\n').count();
    let ls = t[..lim].iter().rposition(|&b| b == b'\n').map_or(0, |i| i + 1);
    (line, off - ls + 1)
}
