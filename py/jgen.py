import itertools, json, sys
SCAL=[('null',None),('true',True),('false',False),('0',0),('-0',-0.0),('1',1),('-1',-1),('10',10),('1.5',1.5),('0.10',0.1),('1e2',100.0),('1E+2',100.0),('-1.5e-3',-0.0015),('100000000000000000000',1e20),('9007199254740993',9007199254740993)]
STR=[('""',''),('"a"','a'),('" a "',' a '),('"\\""','"'),('"\\\\"','\\'),('"\\/"','/'),('"\\b\\f\\n\\r\\t"','\b\f\n\r\t'),('"\\u0041"','A'),('"\\u00e9"','é'),('"\\ud83d\\ude00"','😀'),('"é"','é'),('"😀"','😀'),('"a\\u0000b"','a\x00b'),('"\\u007f"','\x7f'),('"'+'x'*70+'"','x'*70)]
KEYS=[('"a"','a'),('"b"','b'),('""',''),('"a b"','a b'),('"\\u0061"','a'),('"1x"','1x'),('"é"','é'),('"a\\"b"','a"b'),('"a.b"','a.b')]
class N:
    def __init__(s,kind,src=None,val=None,kids=None,keys=None): s.kind=kind; s.src=src; s.val=val; s.kids=kids or []; s.keys=keys or []
def render(n, ws, out, table, path, gapsel=None, ctr=[0]):
    """append text to out(list of str); record spans in table"""
    def gap():
        i=ctr[0]; ctr[0]+=1
        if gapsel is None: return ws
        return ws if i==gapsel else ''
    start=sum(len(x.encode()) for x in out)
    if n.kind=='scalar':
        out.append(n.src)
    elif n.kind=='arr':
        out.append('[')
        for i,k in enumerate(n.kids):
            if i: out.append(gap()); out.append(','); 
            out.append(gap()); render(k,ws,out,table,path+[i],gapsel,ctr)
        out.append(gap()); out.append(']')
    else:
        out.append('{')
        for i,(ks,k) in enumerate(zip(n.keys,n.kids)):
            if i: out.append(gap()); out.append(',')
            out.append(gap()); kst=sum(len(x.encode()) for x in out); out.append(ks[0]); ken=sum(len(x.encode()) for x in out)
            out.append(gap()); out.append(':'); out.append(gap())
            render(k,ws,out,table,path+[ks[1]],gapsel,ctr)
            table[-1 if False else len(table)-1]  # noop
            # attach key span to the child's entry
            for e in table:
                if e['path']==path+[ks[1]] and 'kspan' not in e and e.get('_idx')==i and e.get('_parent')==id(n): pass
            table.append({'path':path+[ks[1]],'kind':'key','start':kst,'end':ken,'val':ks[1],'idx':i})
        out.append(gap()); out.append('}')
    end=sum(len(x.encode()) for x in out)
    table.append({'path':path,'kind':n.kind,'start':start,'end':end,'val':value(n)})
def value(n):
    if n.kind=='scalar': return n.val
    if n.kind=='arr': return [value(k) for k in n.kids]
    d={}
    for (ks,k) in zip(n.keys,n.kids): d[ks[1]]=value(k)   # last wins, python dict keeps first position
    return d
def pairs(n):
    """value with duplicate info preserved: nested list form"""
    if n.kind=='scalar': return n.val
    if n.kind=='arr': return ['A']+[pairs(k) for k in n.kids]
    return ['O']+[[ks[1],pairs(k)] for ks,k in zip(n.keys,n.kids)]
def scalars(): return [N('scalar',s,v) for s,v in SCAL+STR]
def trees(maxn, leaves, keys):
    """all trees with <= maxn nodes"""
    memo={}
    def gen(n):
        if n in memo: return memo[n]
        res=[]
        if n==1:
            res+= leaves; res.append(N('arr')); res.append(N('obj'))
        else:
            # containers with children total n-1 nodes
            for parts in compositions(n-1):
                for kids in itertools.product(*[gen(p) for p in parts]):
                    res.append(N('arr',kids=list(kids)))
                    for ks in itertools.product(keys,repeat=len(kids)):
                        res.append(N('obj',kids=list(kids),keys=list(ks)))
        memo[n]=res; return res
    out=[]
    for n in range(1,maxn+1): out+=gen(n)
    return out
def compositions(n):
    if n==0: yield (); return
    for first in range(1,n+1):
        for rest in compositions(n-first): yield (first,)+rest
WS=['',' ','\n','\r\n','\t',' \n\t\r ']
def docs(maxn, small=True):
    leaves=scalars() if not small else [N('scalar',s,v) for s,v in [SCAL[0],SCAL[3],SCAL[8],SCAL[11]]+[STR[0],STR[1],STR[3],STR[9],STR[10]]]
    keys=KEYS if not small else [KEYS[0],KEYS[1],KEYS[3],KEYS[4]]
    for t in trees(maxn, leaves, keys):
        for ws in WS:
            out=[]; table=[]; ctr=[0]
            out.append(ws); render(t,ws,out,table,[],None,ctr); out.append(ws)
            off=len(ws.encode())
            # spans were computed including the leading ws already (out had ws first)
            yield ''.join(out), table, t
if __name__=='__main__':
    maxn=int(sys.argv[1]); f=open('/tmp/scratch/jcases.txt','w'); n=0
    seen=set()
    # all scalars alone + in one container, full alphabets
    for s in scalars():
        for t in [s, N('arr',kids=[s]), N('obj',kids=[s],keys=[KEYS[0]])]:
            for ws in WS:
                out=[ws]; table=[]; render(t,ws,out,table,[],None,[0]); out.append(ws)
                f.write(''.join(out).encode().hex()+'\t'+json.dumps({'t':table,'p':pairs(t)})+'\n'); n+=1
    for k in KEYS:
        for k2 in KEYS[:3]:
            t=N('obj',kids=[N('scalar','1',1),N('scalar','2',2)],keys=[k,k2])
            out=['']; table=[]; render(t,'',out,table,[],None,[0])
            f.write(''.join(out).encode().hex()+'\t'+json.dumps({'t':table,'p':pairs(t)})+'\n'); n+=1
    for doc,table,t in docs(maxn):
        f.write(doc.encode().hex()+'\t'+json.dumps({'t':table,'p':pairs(t)})+'\n'); n+=1
    print("cases",n)
