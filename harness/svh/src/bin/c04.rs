//! C04 — balanced-parentheses navigation equals its linear excess-scan definition.
//!
//! S2: ALL bit strings of length <= 12 (quick) / 16 (thorough), every word vector of
//! <= 3 words over W8 at every word-boundary length; S3: scale families whose lengths
//! and nesting depths straddle the structural constants visible in the code (64-bit
//! word, 512-bit rank block, 2 048-bit L1 block, 65 536-bit L2 block, i16 range
//! 32 767/32 768), each with single-bit flips at the boundary positions. Every input
//! is built through every constructor (`new`, `from_words`, `new_with_select`,
//! `from_words_with_select`, `new_with_cspoppy(_config)`,
//! `from_words_with_cspoppy(_config)`), owned and borrowed, clean storage / all bits
//! >= len set / one surplus word, CS-Poppy sample rates {0,1,2,3,64,256,4096}; every
//! position x every operation, plus out-of-range positions; the free
//! `find_close` / `find_open` / `enclose` on the same storage. S5: default and `simd`
//! builds (SSE4.1 L1/L2 index builders).
//!
//! Oracle: one stack pass over the first `len` bits (read one at a time) gives the
//! partner and the enclosing open of every position; prefix sums give rank / excess.
//! On every input of <= 320 bits the stack model is itself checked, position by
//! position, against the literal left-to-right / right-to-left excess scans of the
//! property statement (a disagreement is a machinery error, not a verdict).
#![allow(deprecated)]
#[path = "../bitmodel.rs"]
mod bitmodel;

use bitmodel::*;
use engine::gen::W8;
use engine::*;
use serde_json::{json, Value};
use succinctly::trees::{self, BalancedParens, SelectSupport};
use succinctly::Config;

const CS_RATES: [u32; 7] = [0, 1, 2, 3, 64, 256, 4096];

// ------------------------------------------------------------------ ctors --

#[derive(Clone, Copy, Debug, PartialEq)]
enum Ctor {
    New,
    FromWordsRef,
    FromWordsVec,
    NewWithSelect,
    FromWordsWithSelectRef,
    NewCsPoppy,
    FromWordsCsPoppyRef,
    NewCsPoppyCfg(u32),
    FromWordsCsPoppyCfgRef(u32),
}

impl Ctor {
    fn name(self) -> &'static str {
        match self {
            Ctor::New => "new",
            Ctor::FromWordsRef => "from_words(&[u64])",
            Ctor::FromWordsVec => "from_words(Vec)",
            Ctor::NewWithSelect => "new_with_select",
            Ctor::FromWordsWithSelectRef => "from_words_with_select(&[u64])",
            Ctor::NewCsPoppy => "new_with_cspoppy",
            Ctor::FromWordsCsPoppyRef => "from_words_with_cspoppy(&[u64])",
            Ctor::NewCsPoppyCfg(_) => "new_with_cspoppy_config",
            Ctor::FromWordsCsPoppyCfgRef(_) => "from_words_with_cspoppy_config(&[u64])",
        }
    }
    fn rate(self) -> Option<u32> {
        match self {
            Ctor::NewCsPoppyCfg(r) | Ctor::FromWordsCsPoppyCfgRef(r) => Some(r),
            _ => None,
        }
    }
    fn sel(self) -> &'static str {
        match self {
            Ctor::New | Ctor::FromWordsRef | Ctor::FromWordsVec => "NoSelect",
            Ctor::NewWithSelect | Ctor::FromWordsWithSelectRef => "WithSelect",
            _ => "WithCsPoppy",
        }
    }
    fn from_json(name: &str, rate: Option<u32>) -> Ctor {
        match name {
            "new" => Ctor::New,
            "from_words(&[u64])" => Ctor::FromWordsRef,
            "from_words(Vec)" => Ctor::FromWordsVec,
            "new_with_select" => Ctor::NewWithSelect,
            "from_words_with_select(&[u64])" => Ctor::FromWordsWithSelectRef,
            "new_with_cspoppy" => Ctor::NewCsPoppy,
            "from_words_with_cspoppy(&[u64])" => Ctor::FromWordsCsPoppyRef,
            "new_with_cspoppy_config" => Ctor::NewCsPoppyCfg(rate.unwrap()),
            "from_words_with_cspoppy_config(&[u64])" => Ctor::FromWordsCsPoppyCfgRef(rate.unwrap()),
            o => panic!("unknown ctor {o}"),
        }
    }
}

fn all_ctors(rates: &[u32]) -> Vec<Ctor> {
    let mut v = vec![Ctor::New, Ctor::FromWordsRef, Ctor::FromWordsVec, Ctor::NewWithSelect, Ctor::FromWordsWithSelectRef, Ctor::NewCsPoppy, Ctor::FromWordsCsPoppyRef];
    for &r in rates {
        v.push(Ctor::NewCsPoppyCfg(r));
        v.push(Ctor::FromWordsCsPoppyCfgRef(r));
    }
    v
}

/// Reduced constructor set used on flipped / block-family inputs: one of each select support, owned and borrowed.
fn few_ctors() -> Vec<Ctor> {
    vec![Ctor::New, Ctor::FromWordsRef, Ctor::NewWithSelect, Ctor::FromWordsWithSelectRef, Ctor::NewCsPoppyCfg(64), Ctor::FromWordsCsPoppyCfgRef(3)]
}

// ------------------------------------------------------------------- case --

fn feature(words: &[u64], len: usize) -> &'static str {
    if words.len() > len.div_ceil(64) {
        // more words than `len` needs; "clean" = no bit set at or past len anywhere
        if has_stray(words, len) {
            ":surplus-words+stray-bits"
        } else {
            ":surplus-words(clean)"
        }
    } else if has_stray(words, len) {
        ":stray-bits"
    } else {
        ""
    }
}

struct Case<'a> {
    words: &'a [u64],
    len: usize,
    ctor: Ctor,
    feat: &'static str,
    size: usize,
}

impl Case<'_> {
    fn json(&self) -> Value {
        json!({"kind":"bp","words":words_json(self.words),"len":self.len,"ctor":self.ctor.name(),"rate":self.ctor.rate()})
    }
}

/// Which positions the (linear-time in the implementation) backward scans and the free forward scan are asked at.
struct Plan {
    /// positions for find_open / enclose / parent (methods and free functions)
    back: Vec<usize>,
    /// positions for the free find_close
    fwd: Vec<usize>,
}

fn every_pos(len: usize) -> impl Iterator<Item = usize> {
    (0..len + 3).chain([usize::MAX - 1, usize::MAX])
}

fn make_plan(m: &Parens, marks: &[usize], d: usize) -> Plan {
    let len = m.len();
    if len <= 2 * d {
        let all: Vec<usize> = every_pos(len).collect();
        return Plan { back: all.clone(), fwd: all };
    }
    let mut inb = vec![false; len + 3];
    let mut anchors: Vec<usize> = vec![0, 64, 128, 512, 1024, 2048, 4096, 32768, 65536, 131072, len / 2, len];
    anchors.extend_from_slice(marks);
    for a in anchors {
        for x in a.saturating_sub(3)..=a + 3 {
            if x < len + 3 {
                inb[x] = true;
            }
        }
    }
    let mut back = Vec::new();
    let mut fwd = Vec::new();
    for p in 0..len + 3 {
        let (cb, cf) = if p >= len {
            (0, 0)
        } else if m.r.bits[p] == 1 {
            // open: enclose scans back to the enclosing open (or to 0); free find_close scans forward to the partner (or to len)
            let e = m.encl[p];
            let cb = if e == NONE { p } else { p - e as usize };
            let c = m.mate[p];
            let cf = if c == NONE { len - p } else { c as usize - p };
            (cb, cf)
        } else {
            let o = m.mate[p];
            (if o == NONE { p } else { p - o as usize }, 0)
        };
        if inb[p] || cb <= d {
            back.push(p);
        }
        if inb[p] || cf <= 8 * d {
            fwd.push(p);
        }
    }
    back.extend([usize::MAX - 1, usize::MAX]);
    fwd.extend([usize::MAX - 1, usize::MAX]);
    Plan { back, fwd }
}

// ------------------------------------------------------------------ checks --

fn opt_kind(got: Option<usize>, exp: Option<usize>) -> &'static str {
    match (got, exp) {
        (Some(_), Some(_)) => "wrong-position",
        (None, Some(_)) => "none-though-defined",
        (Some(_), None) => "some-though-undefined",
        (None, None) => unreachable!(),
    }
}

fn check_bp<W: AsRef<[u64]>, S: SelectSupport>(bp: &BalancedParens<W, S>, m: &Parens, plan: &Plan, c: &Case, rep: &mut Report) {
    let len = c.len;
    let feat = c.feat;
    let size = c.size;
    let sel = c.ctor.sel();
    let n1 = m.r.ones.len();
    let n0 = m.r.zeros.len();
    let mut calls = 0u64;
    macro_rules! bad {
        ($sig:expr, $($k:tt : $v:expr),*) => {
            rep.fail(&format!("bp.{}{}", $sig, feat), size, || {
                let mut j = c.json();
                $( j[$k] = json!($v); )*
                j
            })
        };
    }
    macro_rules! run_op {
        ($name:expr, $body:block) => {
            if let Err(msg) = catch(|| $body) {
                rep.fail(&format!("PANIC:bp.{}{}", $name, feat), size, || {
                    let mut j = c.json();
                    j["panic"] = json!(msg);
                    j
                });
            }
        };
    }
    macro_rules! opt_op {
        ($name:literal, $positions:expr, $call:expr, $model:expr) => {
            run_op!($name, {
                for p in $positions {
                    let g: Option<usize> = $call(p);
                    let e: Option<usize> = $model(p);
                    if g != e {
                        bad!(format!("{}:{}", $name, opt_kind(g, e)), "p": p as u64, "got": format!("{g:?}"), "exp": format!("{e:?}"));
                    }
                }
            });
        };
    }
    run_op!("len", {
        if bp.len() != len {
            bad!("len:mismatch", "got": bp.len());
        }
        if bp.is_empty() != (len == 0) {
            bad!("is_empty:mismatch", "got": bp.is_empty());
        }
    });
    run_op!("total_ones", {
        let g = bp.total_ones();
        if g != n1 {
            bad!("total_ones:mismatch", "got": g, "exp": n1);
        }
    });
    run_op!("total_zeros", {
        let g = bp.total_zeros();
        if g != n0 {
            bad!("total_zeros:mismatch", "got": g, "exp": n0);
        }
    });
    calls += 4;
    run_op!("is_open", {
        for p in every_pos(len) {
            if bp.is_open(p) != m.is_open(p) {
                bad!("is_open:mismatch", "p": p as u64);
            }
            if bp.is_close(p) != m.is_close(p) {
                bad!("is_close:mismatch", "p": p as u64);
            }
        }
    });
    run_op!("rank1", {
        for p in every_pos(len) {
            let g = bp.rank1(p);
            if g != m.r.rank1(p) {
                bad!(if p <= len { "rank1:p<=len:mismatch" } else { "rank1:p>len:not-total" }, "p": p as u64, "got": g, "exp": m.r.rank1(p));
            }
        }
    });
    run_op!("rank0", {
        for p in every_pos(len) {
            let g = bp.rank0(p);
            if g != m.r.rank0(p) {
                bad!(if p <= len { "rank0:p<=len:mismatch" } else { "rank0:p>len:not-total" }, "p": p as u64, "got": g, "exp": m.r.rank0(p));
            }
        }
    });
    run_op!("excess", {
        for p in every_pos(len) {
            let g = bp.excess(p);
            // the statement defines excess by the scan over the first len bits; out of range it defines nothing (no panic is all that is asked)
            if p < len && g as i64 != m.excess(p) {
                bad!("excess:mismatch", "p": p as u64, "got": g, "exp": m.excess(p));
            }
        }
    });
    run_op!("depth", {
        for p in every_pos(len) {
            let g = bp.depth(p);
            if p >= len {
                if g.is_some() {
                    bad!("depth:out-of-range:not-none", "p": p as u64, "got": format!("{g:?}"));
                }
            } else {
                let e = m.excess(p);
                // a negative excess has no representation as usize; the statement defines depth by the excess scan, so only e >= 0 is compared
                if e >= 0 && g != Some(e as usize) {
                    bad!("depth:mismatch", "p": p as u64, "got": format!("{g:?}"), "exp": e);
                }
                if e < 0 && g.is_none() {
                    bad!("depth:in-range:none", "p": p as u64);
                }
            }
        }
    });
    calls += 7 * (len as u64 + 5);
    opt_op!("find_close", every_pos(len), |p| bp.find_close(p), |p| m.find_close(p));
    opt_op!("first_child", every_pos(len), |p| bp.first_child(p), |p| m.first_child(p));
    opt_op!("next_sibling", every_pos(len), |p| bp.next_sibling(p), |p| m.next_sibling(p));
    opt_op!("subtree_size", every_pos(len), |p| bp.subtree_size(p), |p| m.subtree_size(p));
    calls += 4 * (len as u64 + 5);
    opt_op!("find_open", plan.back.iter().copied(), |p| bp.find_open(p), |p| m.find_open(p));
    opt_op!("enclose", plan.back.iter().copied(), |p| bp.enclose(p), |p| m.enclose(p));
    opt_op!("parent", plan.back.iter().copied(), |p| bp.parent(p), |p| m.enclose(p));
    calls += 3 * plan.back.len() as u64;
    let ks1 = (0..n1 + 3).chain([n1 + 64, usize::MAX - 1, usize::MAX]);
    if sel == "NoSelect" {
        // documented: NoSelect has no select1 support and answers None for every k
        run_op!("select1[NoSelect]", {
            for k in ks1 {
                if let Some(g) = bp.select1(k) {
                    bad!("select1[NoSelect]:not-none", "k": k as u64, "got": g);
                }
            }
        });
    } else {
        run_op!(format!("select1[{sel}]"), {
            for k in ks1 {
                let g = bp.select1(k);
                let e = m.r.select1(k);
                if g != e {
                    let kind = match (g, e) {
                        (Some(_), Some(_)) => "k<count:wrong-position",
                        (None, Some(_)) => "k<count:none",
                        _ => "k>=count:some",
                    };
                    bad!(format!("select1[{sel}]:{kind}"), "k": k as u64, "got": format!("{g:?}"), "exp": format!("{e:?}"));
                }
            }
        });
    }
    run_op!("select0", {
        for k in (0..n0 + 3).chain([n0 + 64, usize::MAX - 1, usize::MAX]) {
            let g = bp.select0(k);
            let e = m.r.select0(k);
            if g != e {
                let kind = match (g, e) {
                    (Some(_), Some(_)) => "k<count:wrong-position",
                    (None, Some(_)) => "k<count:none",
                    _ => "k>=count:some",
                };
                bad!(format!("select0:{kind}"), "k": k as u64, "got": format!("{g:?}"), "exp": format!("{e:?}"));
            }
        }
    });
    calls += (n1 + n0) as u64 + 12;
    rep.trans(calls);
}

fn run_ctor(ctor: Ctor, words: &[u64], len: usize, m: &Parens, plan: &Plan, rep: &mut Report) {
    let c = Case { words, len, ctor, feat: feature(words, len), size: len * 64 + words.len() };
    macro_rules! build {
        ($e:expr) => {
            match catch(|| $e) {
                Ok(bp) => check_bp(&bp, m, plan, &c, rep),
                Err(msg) => rep.fail(&format!("PANIC:bp.construct{}", c.feat), c.size, || {
                    let mut j = c.json();
                    j["panic"] = json!(msg);
                    j
                }),
            }
        };
    }
    let cfg = |r: u32| Config { select_sample_rate: r };
    match ctor {
        Ctor::New => build!(BalancedParens::new(words.to_vec(), len)),
        Ctor::FromWordsRef => build!(BalancedParens::<&[u64], trees::NoSelect>::from_words(words, len)),
        Ctor::FromWordsVec => build!(BalancedParens::<Vec<u64>, trees::NoSelect>::from_words(words.to_vec(), len)),
        Ctor::NewWithSelect => build!(BalancedParens::new_with_select(words.to_vec(), len)),
        Ctor::FromWordsWithSelectRef => build!(BalancedParens::<&[u64], trees::WithSelect>::from_words_with_select(words, len)),
        Ctor::NewCsPoppy => build!(BalancedParens::new_with_cspoppy(words.to_vec(), len)),
        Ctor::FromWordsCsPoppyRef => build!(BalancedParens::<&[u64], trees::WithCsPoppy>::from_words_with_cspoppy(words, len)),
        Ctor::NewCsPoppyCfg(r) => build!(BalancedParens::new_with_cspoppy_config(words.to_vec(), len, cfg(r))),
        Ctor::FromWordsCsPoppyCfgRef(r) => build!(BalancedParens::<&[u64], trees::WithCsPoppy>::from_words_with_cspoppy_config(words, len, cfg(r))),
    }
}

/// The free linear-scan functions on one storage.
fn check_free(words: &[u64], len: usize, m: &Parens, plan: &Plan, rep: &mut Report) {
    // the free functions never count bits past len, so stray bits and surplus words are separate features for them
    let feat = if words.len() > len.div_ceil(64) { ":surplus-words" } else { feature(words, len) };
    let size = len * 64 + words.len();
    let case = |p: usize| json!({"kind":"free","words":words_json(words),"len":len,"p":p as u64});
    let one = |name: &str, p: usize, got: Result<Option<usize>, String>, exp: Option<usize>, rep: &mut Report| match got {
        Err(msg) => rep.fail(&format!("PANIC:free.{name}{feat}"), size, || {
            let mut j = case(p);
            j["panic"] = json!(msg);
            j
        }),
        Ok(g) if g != exp => rep.fail(&format!("free.{name}:{}{feat}", opt_kind(g, exp)), size, || {
            let mut j = case(p);
            j["got"] = json!(format!("{g:?}"));
            j["exp"] = json!(format!("{exp:?}"));
            j
        }),
        _ => {}
    };
    // a panic is expensive (unwinding is serialised across threads by the runtime), and one defect makes the same
    // function panic at most positions of an input: each function's sweep over ONE input stops at its first panic
    let mut calls = 0u64;
    for &p in &plan.fwd {
        calls += 1;
        let r = catch(|| trees::find_close(words, len, p));
        let stop = r.is_err();
        one("find_close", p, r, m.find_close(p), rep);
        if stop {
            break;
        }
    }
    for &p in &plan.back {
        calls += 1;
        let r = catch(|| trees::find_open(words, len, p));
        let stop = r.is_err();
        one("find_open", p, r, m.find_open(p), rep);
        if stop {
            break;
        }
    }
    for &p in &plan.back {
        calls += 1;
        let r = catch(|| trees::enclose(words, len, p));
        let stop = r.is_err();
        one("enclose", p, r, m.enclose(p), rep);
        if stop {
            break;
        }
    }
    rep.trans(calls);
}

#[derive(Clone, Copy, PartialEq, Debug)]
enum Depth {
    /// every constructor x {clean, stray bits, surplus MAX word, clean surplus 0 word}
    Full,
    /// every constructor x {clean, stray bits}; surplus MAX word for `new` and one borrowed CS-Poppy constructor
    Mid,
    /// one constructor per select support, owned and borrowed (6) x {clean, stray bits}; surplus word for two of them
    Few,
    /// `new` (clean), `new_with_select` (clean), borrowed CS-Poppy rate 3 (stray bits); free functions on clean + surplus storage
    Min,
}

/// `base` must be clean (exactly ceil(len/64) words, nothing set at or past len).
fn check_input(base: &[u64], len: usize, marks: &[usize], depth: Depth, rates: &[u32], d: usize, rep: &mut Report) {
    rep.input();
    let m = Parens::new(base, len);
    if len <= 320 {
        selftest_parens(&m);
    }
    if m.mate.iter().any(|&x| x != NONE) {
        rep.distinct(&(len, &m.r.bits));
    }
    let plan = make_plan(&m, marks, d);
    let mut dirty = base.to_vec();
    dirty_tail(&mut dirty, len);
    let mut surplus = dirty.clone();
    surplus.push(u64::MAX);
    let mut surplus0 = base.to_vec();
    surplus0.push(0);
    let has_tail = len % 64 != 0;
    if depth == Depth::Min {
        run_ctor(Ctor::New, base, len, &m, &plan, rep);
        run_ctor(Ctor::NewWithSelect, base, len, &m, &plan, rep);
        run_ctor(Ctor::FromWordsCsPoppyCfgRef(3), &dirty, len, &m, &plan, rep);
        check_free(base, len, &m, &plan, rep);
        check_free(&surplus, len, &m, &plan, rep);
        return;
    }
    let ctors = if depth == Depth::Few { few_ctors() } else { all_ctors(rates) };
    for &ct in &ctors {
        run_ctor(ct, base, len, &m, &plan, rep);
        if has_tail {
            run_ctor(ct, &dirty, len, &m, &plan, rep);
        }
        // surplus-word storage: Full = every constructor function once (the CS-Poppy rate sweep is not repeated there)
        let rate_repeat = matches!(ct.rate(), Some(r) if r != 3 && r != 1);
        let on_surplus = match depth {
            Depth::Full => !rate_repeat,
            _ => ct == Ctor::New || ct == Ctor::FromWordsCsPoppyCfgRef(3) || ct == Ctor::FromWordsCsPoppyCfgRef(1),
        };
        if on_surplus {
            run_ctor(ct, &surplus, len, &m, &plan, rep);
            if depth == Depth::Full {
                run_ctor(ct, &surplus0, len, &m, &plan, rep);
            }
        }
    }
    check_free(base, len, &m, &plan, rep);
    if has_tail {
        check_free(&dirty, len, &m, &plan, rep);
    }
    check_free(&surplus, len, &m, &plan, rep);
    if depth == Depth::Full {
        check_free(&surplus0, len, &m, &plan, rep);
    }
}

// ---------------------------------------------------------------- spaces --

#[derive(Clone, Copy, Debug)]
enum Piece {
    Ones(usize),
    Zeros(usize),
    /// (10)^m
    Alt(usize),
    /// nwords words from the 7-word cycle, starting at `off`, stepping `step`
    Cyc { nwords: usize, step: usize, off: usize },
}

const A7: [u64; 7] = [u64::MAX, 0, 0xAAAA_AAAA_AAAA_AAAA, 0x5555_5555_5555_5555, 0x0000_FFFF_0000_FFFF, 0xFFFF_0000_FFFF_0000, 0x0000_0000_FFFF_FFFF];

#[derive(Clone, Debug)]
struct Shape {
    fam: &'static str,
    pieces: Vec<Piece>,
    /// keep only this many leading bits (unbalanced tail)
    truncate: Option<usize>,
    flip: Option<usize>,
}

impl Shape {
    fn bits(&self) -> Vec<u8> {
        let mut b: Vec<u8> = Vec::new();
        for p in &self.pieces {
            match *p {
                Piece::Ones(n) => b.extend(std::iter::repeat(1u8).take(n)),
                Piece::Zeros(n) => b.extend(std::iter::repeat(0u8).take(n)),
                Piece::Alt(m) => {
                    for _ in 0..m {
                        b.push(1);
                        b.push(0);
                    }
                }
                Piece::Cyc { nwords, step, off } => {
                    for i in 0..nwords {
                        let w = A7[(off + i * step) % 7];
                        for k in 0..64 {
                            b.push(((w >> k) & 1) as u8);
                        }
                    }
                }
            }
        }
        if let Some(t) = self.truncate {
            b.truncate(t);
        }
        if let Some(f) = self.flip {
            if f < b.len() {
                b[f] ^= 1;
            }
        }
        b
    }
    fn json(&self) -> Value {
        json!({"family": self.fam, "pieces": format!("{:?}", self.pieces), "truncate": self.truncate, "flip": self.flip})
    }
}

fn lens_for(tier_quick: bool) -> Vec<usize> {
    let mut cs: Vec<usize> = vec![64, 128, 512, 2048, 4096];
    if !tier_quick {
        cs.extend([65536, 131072]);
    }
    let mut v = gen::boundaries(&cs, usize::MAX);
    if tier_quick {
        v.extend([65535, 65536, 65537]);
    }
    v
}

fn base_shapes(quick: bool) -> Vec<Shape> {
    let mut out: Vec<Shape> = Vec::new();
    let sh = |fam: &'static str, pieces: Vec<Piece>| Shape { fam, pieces, truncate: None, flip: None };
    let lens = lens_for(quick);
    for &l in &lens {
        // 1^a 0^b, balanced or off by one either way
        out.push(sh("nest", vec![Piece::Ones(l.div_ceil(2)), Piece::Zeros(l / 2)]));
        if l % 2 == 1 {
            out.push(sh("nest", vec![Piece::Ones(l / 2), Piece::Zeros(l.div_ceil(2))]));
        }
        // (10)^m [1]
        out.push(sh("flat", vec![Piece::Alt(l / 2), Piece::Ones(l % 2)]));
        // 1 (10)^m 0 [1]
        out.push(sh("wrapped", vec![Piece::Ones(1), Piece::Alt((l - 2) / 2), Piece::Zeros(1), Piece::Ones(l % 2)]));
        // 1^a (10)^b 0^a [1]
        let a = l / 4;
        out.push(sh("nestflat", vec![Piece::Ones(a), Piece::Alt((l - 2 * a) / 2), Piece::Zeros(a), Piece::Ones(l % 2)]));
    }
    // nesting depth across the i16 range and the L2 block
    // (49 152 opens + 16 384 closes is the first L2 block whose relative excess leaves the i16 range)
    let depths: Vec<usize> = if quick { vec![32767, 32768, 32769, 49151, 49152, 49153, 65536] } else { gen::boundaries(&[32767, 32768, 49152, 65536], usize::MAX) };
    for &dd in &depths {
        out.push(sh("deep-nest", vec![Piece::Ones(dd), Piece::Zeros(dd)]));
    }
    // unmatched closes first: block-relative minima below -32 768, then a nest on top of them
    for &dd in if quick { &[49153usize][..] } else { &[49151usize, 49152, 49153, 65537][..] } {
        out.push(sh("deep-closes-first", vec![Piece::Ones(3), Piece::Zeros(dd), Piece::Ones(dd), Piece::Zeros(dd)]));
    }
    if !quick {
        for &(a, b) in &[(32767usize, 1usize), (32768, 1), (32769, 1), (32768, 32768), (16384, 16384), (40000, 3)] {
            out.push(sh("deep-nestflat", vec![Piece::Ones(a), Piece::Alt(b), Piece::Zeros(a)]));
        }
        // three L2 blocks and a bit
        for dd in [98303usize, 98304, 98305] {
            out.push(sh("deep-nest", vec![Piece::Ones(dd), Piece::Zeros(dd)]));
        }
    }
    // unbalanced tails: every prefix length of the boundary sets, of a nest and of a nestflat that are longer than all of them
    let big = if quick { 2200 } else { 70000 };
    for &l in &lens {
        if l < 2 * big {
            out.push(Shape { fam: "prefix-of-nest", pieces: vec![Piece::Ones(big), Piece::Zeros(big)], truncate: Some(l), flip: None });
            out.push(Shape { fam: "prefix-of-nestflat", pieces: vec![Piece::Ones(big / 2), Piece::Alt(big / 2), Piece::Zeros(big / 2)], truncate: Some(l), flip: None });
        }
    }
    // leading closes
    let lead_l: &[usize] = if quick { &[64, 512, 2048] } else { &[64, 512, 2048, 65536] };
    for &j in &[1usize, 2, 63, 64, 65] {
        for &l in lead_l {
            out.push(sh("leading-closes", vec![Piece::Zeros(j), Piece::Ones(l / 2), Piece::Zeros(l / 2)]));
            out.push(sh("leading-closes", vec![Piece::Zeros(j), Piece::Alt(l / 2)]));
            out.push(sh("leading-closes", vec![Piece::Zeros(j), Piece::Ones(1), Piece::Alt(l / 2 - 1), Piece::Zeros(1)]));
        }
    }
    // valleys: x opens, closes down to a bottom, opens again past the block, closes to balance. The bottom visits every word
    // of an L1 block (= every lane of the 8-wide SIMD L1 builder and its scalar tail) and every L1 block of an L2 block (= every
    // lane of the L2 builder); the closes start before / at / inside the block, so the running excess at the lane is negative.
    let l1_blocks: &[usize] = if quick { &[2] } else { &[2, 3] };
    for &b in l1_blocks {
        for w in 0..32usize {
            for o in [0usize, 63] {
                for kind in 0..3 {
                    let block_start = 2048 * b;
                    let bottom = block_start + 64 * w + o;
                    let s = match kind {
                        0 => block_start - 64,
                        1 => block_start,
                        _ => block_start + 64 * (w / 2),
                    };
                    if kind == 2 && w / 2 == 0 {
                        continue;
                    }
                    let y = bottom - s + 1;
                    let x = s;
                    let z = 2048 + 640;
                    out.push(sh("valley-l1", vec![Piece::Ones(x), Piece::Zeros(y), Piece::Ones(z), Piece::Zeros(x - y + z)]));
                }
            }
        }
    }
    let l2_lanes: Vec<usize> = if quick { vec![8, 17] } else { (0..32).collect() };
    for l in l2_lanes {
        for o in [0usize, 2047] {
            let block_start = 131072usize;
            let bottom = block_start + 2048 * l + o;
            let x = block_start - 2048;
            let y = bottom - x + 1;
            let z = 4096 + 64;
            out.push(sh("valley-l2", vec![Piece::Ones(x), Piece::Zeros(y), Piece::Ones(z), Piece::Zeros(x - y + z)]));
        }
    }
    // word-cyclic content (period 7, coprime to the 8-lane SIMD builders), bare and lifted by 128 opens
    let small_n: &[usize] = if quick { &[8, 9, 32, 33, 65] } else { &[8, 9, 31, 32, 33, 40, 64, 65, 256, 257] };
    let steps: &[usize] = if quick { &[1, 3] } else { &[1, 2, 3] };
    let cuts: &[usize] = if quick { &[0, 1] } else { &[0, 1, 63] };
    for &n in small_n {
        for &step in steps {
            for off in 0..7 {
                for lift in [0usize, 128] {
                    for &cut in cuts {
                        out.push(Shape { fam: "cyclic", pieces: vec![Piece::Ones(lift), Piece::Cyc { nwords: n, step, off }], truncate: Some(lift + n * 64 - cut), flip: None });
                    }
                }
            }
        }
    }
    if !quick {
        for &n in &[1023usize, 1024, 1025, 2047, 2048, 2049] {
            for &(step, off) in &[(1usize, 0usize), (3, 3), (2, 5)] {
                for lift in [0usize, 128, 40000] {
                    out.push(sh("cyclic-long", vec![Piece::Ones(lift), Piece::Cyc { nwords: n, step, off }]));
                }
            }
        }
    }
    out
}

fn flips_for(len: usize, quick: bool) -> Vec<usize> {
    let mut v: Vec<usize> = Vec::new();
    let mut around = |c: usize, spread: usize, v: &mut Vec<usize>| {
        for x in c.saturating_sub(spread)..=c + spread {
            if x < len {
                v.push(x);
            }
        }
    };
    if len > 20000 {
        if !quick {
            for c in [64, 2048, 65536, len / 2, len - 1] {
                around(c, 0, &mut v);
            }
        }
    } else if quick {
        for c in [63, 64, 2048, len / 2, len - 1] {
            around(c, 0, &mut v);
        }
    } else {
        for c in [0, 64, 512, 2048, len / 2, len - 1] {
            around(c, 2, &mut v);
        }
    }
    v.sort_unstable();
    v.dedup();
    v
}

fn scale_shapes(quick: bool) -> Vec<Shape> {
    let mut out = Vec::new();
    for b in base_shapes(quick) {
        let len = b.bits().len();
        if len == 0 {
            continue;
        }
        let flips = if b.fam.starts_with("cyclic") || b.fam.starts_with("valley") { vec![] } else { flips_for(len, quick) };
        out.push(b.clone());
        for f in flips {
            let mut s = b.clone();
            s.flip = Some(f);
            out.push(s);
        }
    }
    out
}

fn block_inputs(quick: bool) -> Vec<(Vec<u64>, usize)> {
    let sizes: &[usize] = if quick { &[9, 33] } else { &[7, 8, 9, 31, 32, 33, 65] };
    let mut out = Vec::new();
    for &n in sizes {
        for f in [0u64, u64::MAX, 0x5555_5555_5555_5555] {
            for p in 0..n {
                for &s in W8.iter() {
                    if s == f && p > 0 {
                        continue;
                    }
                    let mut w = vec![f; n];
                    w[p] = s;
                    for len in [64 * n, 64 * n - 63] {
                        let mut c = w.clone();
                        clean_to_len(&mut c, len);
                        out.push((c, len));
                    }
                }
            }
        }
    }
    out
}

fn mid_inputs(maxwords: usize) -> Vec<(Vec<u64>, usize)> {
    let mut out = Vec::new();
    for c in gen::sequences(&W8, maxwords) {
        let n = c.len();
        if n == 0 {
            continue;
        }
        let lens: Vec<usize> = if n == 1 {
            (17..=64).collect() // <= 16 bits is covered completely by the all-strings space
        } else {
            let mut v = Vec::new();
            for b in [64 * (n - 1), 64 * n] {
                for dlt in [-7i64, -2, -1, 0, 1, 2, 7] {
                    let x = b as i64 + dlt;
                    if x > (64 * (n - 1)) as i64 && x <= (64 * n) as i64 {
                        v.push(x as usize);
                    }
                }
            }
            v.sort_unstable();
            v.dedup();
            v
        };
        for len in lens {
            let mut w = c.clone();
            clean_to_len(&mut w, len);
            out.push((w, len));
        }
    }
    out.sort();
    out.dedup();
    out
}

// --------------------------------------------------------------- explore --

fn explore(ctx: &Ctx, rep: &mut Report) {
    let q = ctx.quick();
    let d = 2048usize;
    rep.path(if cfg!(feature = "simd") { "bp-index-builders:simd(sse4.1)" } else { "bp-index-builders:scalar" });
    #[cfg(all(feature = "simd", target_arch = "x86_64"))]
    {
        if !std::arch::is_x86_feature_detected!("sse4.1") {
            rep.notes.push("simd build, but the host lacks SSE4.1: the scalar fallback builders ran".into());
        }
    }

    let mut phases: Vec<(String, f64)> = Vec::new();
    let mut t0 = std::time::Instant::now();
    let mut lap = |name: &str, phases: &mut Vec<(String, f64)>| {
        phases.push((name.to_string(), t0.elapsed().as_secs_f64()));
        t0 = std::time::Instant::now();
    };
    // (a) all bit strings
    let maxlen = ctx.pick(12u32, 16u32);
    let nstr = count_strings(2, maxlen);
    let r = par_range_in(ctx, "all-strings", nstr, 64, |i, rep| {
        let mut idx = Vec::new();
        nth_string(2, maxlen, i, &mut idx);
        let bits: Vec<u8> = idx.iter().map(|&x| x as u8).collect();
        let words = if bits.is_empty() { vec![] } else { pack(&bits) };
        check_input(&words, bits.len(), &[], Depth::Full, &CS_RATES, d, rep);
        if i == 5000 {
            rep.sample(|| json!({"space":"all-strings","bits":bits.iter().map(|b| if *b==1 {'('} else {')'}).collect::<String>(),"ctors":"all 21 x {clean, stray bits, +1 surplus MAX word, +1 surplus 0 word}","positions":"0..=len+2, usize::MAX-1, usize::MAX for every operation"}));
        }
    });
    rep.merge(r);
    rep.mark_exhaustive("all-strings", &format!("all {nstr} bit strings of length 0..={maxlen} x 21 constructors x {{clean, stray bits}} and 11 of them (every constructor function, CS-Poppy rates 1 and 3) x {{surplus MAX word, surplus 0 word}} x every position x every operation; free functions on every storage variant"));

    lap("all-strings", &mut phases);
    // (a2) word vectors over W8
    let maxw = ctx.pick(2usize, 3usize);
    let mids = mid_inputs(maxw);
    let r = par_range_in(ctx, "w8-vectors", mids.len() as u64, 4, |i, rep| {
        let (w, len) = &mids[i as usize];
        check_input(w, *len, &[], Depth::Full, &CS_RATES, d, rep);
    });
    rep.merge(r);
    rep.mark_exhaustive("w8-vectors", &format!("all vectors of 1..={maxw} words over W8; 1 word: every len 17..=64; more words: every len within ±{{0,1,2,7}} of the last two word boundaries; 21 constructors x {{clean, stray bits}}, 11 of them also with a surplus MAX / surplus 0 word, x every position x every operation"));

    lap("w8-vectors", &mut phases);
    // (a3) block families
    let blocks = block_inputs(q);
    let r = par_range_in(ctx, "block-families", blocks.len() as u64, 2, |i, rep| {
        let (w, len) = &blocks[i as usize];
        check_input(w, *len, &[], Depth::Few, &[], d, rep);
        if i == 3000 {
            rep.sample(|| json!({"space":"block-families","words":words_json(w),"len":len}));
        }
    });
    rep.merge(r);
    rep.mark_exhaustive(
        "block-families",
        &format!("special word s at position p in filler f: all p, s in W8, f in {{0, MAX, 0x5555..}}, sizes {} words, len in {{cap, cap-63}}; 6 constructors (each select support, owned+borrowed) x {{clean, stray bits}}, surplus word for 2 of them", if q { "9,33" } else { "7,8,9,31,32,33,65" }),
    );

    lap("block-families", &mut phases);
    // (b) scale families
    let shapes = scale_shapes(q);
    let rates_big: [u32; 2] = [1, 4096];
    let r = par_range_in(ctx, "scale-families", shapes.len() as u64, 1, |i, rep| {
        let s = &shapes[i as usize];
        let bits = s.bits();
        let len = bits.len();
        let words = pack(&bits);
        let marks: Vec<usize> = s.flip.into_iter().collect();
        let long = len > 20000;
        let (depth, rates): (Depth, &[u32]) = match (long, s.flip.is_some()) {
            // valleys target the index builders, which every constructor shares: the minimal constructor set
            _ if s.fam.starts_with("valley") => (Depth::Min, &[]),
            // short unflipped bases: every constructor, every storage variant (cyclic content beyond 40 words: the reduced set)
            (false, false) => {
                if s.fam == "cyclic" && len > 40 * 64 + 128 {
                    (Depth::Few, &[])
                } else {
                    (Depth::Full, &CS_RATES)
                }
            }
            (false, true) => (Depth::Few, &[]),
            // long unflipped bases: every constructor at rates 1/4096 (quick: the minimal set)
            (true, false) => {
                if q || s.fam == "cyclic-long" {
                    (Depth::Min, &[])
                } else {
                    (Depth::Mid, &rates_big)
                }
            }
            (true, true) => (Depth::Min, &[]),
        };
        check_input(&words, len, &marks, depth, rates, d, rep);
        if i % 1501 == 7 {
            rep.sample(|| json!({"space":"scale-families","shape":s.json(),"len":len,"depth":format!("{depth:?}")}));
        }
    });
    rep.merge(r);
    rep.mark_exhaustive(
        "scale-families",
        "nest 1^a0^b, flat (10)^m, wrapped 1(10)^m0, nestflat 1^a(10)^b0^a at every length of the boundary sets {c-2..c+2} of 64,128,512,2048,4096 (quick also 65535..65537; thorough also 65536,131072), nesting depths across 32767/32768/49152/65536 (thorough also 98304), 49152+ unmatched closes first, every boundary-set prefix of a long nest / nestflat, 1/2/63/64/65 leading closes, period-7 word-cyclic content of 8..65 (thorough ..257, 1023..2049) words, valleys 1^x 0^y 1^z 0^(x-y+z) whose bottom visits every word of L1 block 2 (thorough also 3) at bit 0 and 63 and every L1 block of L2 block 2 (quick: blocks 8 and 17); each base also with one bit flipped at every position within ±2 of 0/64/512/2048/len/2/len-1 (quick: at 63, 64, 2048, len/2, len-1) (long inputs, thorough only: at 64, 2048, 65536, len/2, len-1). Constructor depth: short unflipped = all 21 x 4 storage variants; short flipped / long cyclic = 6 constructors; long unflipped = 11 constructors (rates 1/4096) x {clean, stray bits} (quick: 3); long flipped = 3 constructors",
    );

    lap("scale-families", &mut phases);
    rep.extra.insert("phase_wall_s".into(), json!(phases.iter().map(|(k, v)| (k.clone(), json!((v * 10.0).round() / 10.0))).collect::<serde_json::Map<String, Value>>()));
    rep.extra.insert("cs_poppy_rates".into(), json!(CS_RATES));
    rep.extra.insert(
        "query_rule".into(),
        json!(format!(
            "every operation at every position 0..=len+2 and usize::MAX-1, usize::MAX; except that on inputs longer than {} bits the linear-time backward scans (find_open, enclose, parent; methods and free functions) are asked where the defined answer is within {} bits (or undefined with p <= {}) and at every position within ±3 of 0,64,128,512,1024,2048,4096,32768,65536,131072,len/2,len and of the flipped bit; the free find_close where the answer is within {} bits or at those positions",
            2 * d, d, d, 8 * d
        )),
    );
    rep.extra.insert("oracle_decisions".into(), json!(["depth(p) is compared only where the excess is >= 0 (a negative excess has no usize representation)", "excess(p) for p >= len is not defined by the statement; only 'no panic' is required", "NoSelect::select1 is documented to answer None for every k; that is what is required of it"]));
}

fn replay(case: &Value, rep: &mut Report) {
    let words = words_from_json(&case["words"]);
    let len = usize_from(&case["len"]);
    let m = Parens::new(&words, len);
    let marks: Vec<usize> = case["p"].as_u64().map(|p| p as usize).filter(|&p| p < len).into_iter().collect();
    let plan = make_plan(&m, &marks, 2048);
    match case["kind"].as_str().unwrap_or("bp") {
        "bp" => {
            let ctor = Ctor::from_json(case["ctor"].as_str().unwrap(), case["rate"].as_u64().map(|r| r as u32));
            run_ctor(ctor, &words, len, &m, &plan, rep);
        }
        "free" => check_free(&words, len, &m, &plan, rep),
        k => panic!("unknown case kind {k}"),
    }
}

fn main() {
    drive("C04", explore, replay);
}
