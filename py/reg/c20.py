SPEC = dict(
    kind="rust",
    bins=rust("c20"),
    design_ref="§3-C20",
    technique="automaton-product exploration (S4): exhaustive enumeration of class strings of the 2-state DSV quote DFA placed at chunk "
              "offsets under both carry-in states, differential over 5 engines (S5), every rank/select answer compared with the reference DFA",
    rule="inputs: every string of length <= 8 (quick) / 11 (thorough) over {other, delimiter, quote, separator} for (',','\"',LF), <= 6 / 8 for "
         "(0x80,0xff,0x00) and (TAB,',CR); each placed at offsets {0,1,15,16,31,32,33,47,48,62,63,64,65,127,128} x carry-in {outside, inside via a "
         "quote at bit 63 of a preceding full chunk} x suffix {0,1,70} bytes; quote runs 1..=130 at every offset 0..65 (quick) / 0..130 x carry x gap; "
         "all 1716 distinct (delimiter,quote,separator) triples over {00 09 0a 0d 20 22 27 2c 3b 7c 7f 80 ff}, all 256 values per role singly and all "
         "256 values of the 'other' byte on a 193-string placed sub-corpus. A window is counted distinct+non-trivial when in at least one placement "
         "quoting (or the carry-in state) suppresses a delimiter/separator byte or a quote sits at bit 63 of a full chunk; configurations are counted once each.",
    level_text="For every enumerated text and configuration each engine (scalar, SSE2, AVX2, BMI2 and the runtime dispatcher) builds its index and "
               "every markers_/newlines_ rank1 (all i in 0..=len+2, usize::MAX) and select1 (all k in 0..=count+1, usize::MAX) answer, marker_count, "
               "row_count and is_empty is compared with an independent byte-at-a-time 2-state DFA. Exhaustive within the stated alphabets; the only state "
               "a chunked engine carries (one quote bit per 64-byte chunk) is driven through both values at every stated offset.",
    level_note="The length-11 windows (3/4 of the thorough cost) run last under a wall budget of 660 s; if it is reached the remaining windows are skipped, "
               "the sub-space is reported in caps_hit and `exhaustive` is false for it (lengths <= 10 and all other families are always complete). "
               "Bounded: window length <= 11 classes, texts <= 275 bytes (up to 5 chunks), quote runs <= 130. Byte values outside the class "
               "representatives are covered singly (every value per role and as filler), not in combination. Only x86-64 paths present on the host run "
               "(evidence lists them); NEON/SVE2 are out of reach. Oracle: dsvref::scan (own DFA), self-tested against hand-written cases.",
    assumptions=["configurations have three distinct special bytes (as the statement requires)",
                 "AVX2/BMI2 engines are only called when the host CPU reports the features"],
)
