//! C18 — strict YAML validation never rejects a well-formed document of the C14 space; on
//! arbitrary byte strings it terminates with accept or a positioned error whose line/column
//! match its offset (S2).
//!
//! Sub-spaces: (1) the whole `ygen::plan` presentation space — every document must be accepted;
//! (2) every token string of length <= 5 (quick 4) over 28 YAML tokens; (3) every single-byte
//! mutation (replace by each of 16 bytes, delete) of every Y(2) document with LF breaks.
//! For (2) and (3) no verdict on accept/reject is demanded — only termination (watchdog),
//! no panic, offset <= len, and (line, column) == naive LF/CR/CRLF line splitter at offset.
use engine::*;
use serde_json::{json, Value};
use std::io::Write;
use std::sync::atomic::{AtomicUsize, Ordering};
use std::sync::Mutex;
use std::time::Instant;
use succinctly::yaml::validate::validate;

#[path = "../ygen.rs"]
mod ygen;

const TOKENS: [&[u8]; 28] = [
    b"a", b": ", b":", b"- ", b"-", b"\n", b" ", b"#", b"\"", b"'", b"[", b"]", b"{", b"}", b",", b"&a ", b"*a", b"!t ", b"|", b">", b"? ", b"---", b"...", b"\t", b"\r", b"%Y", b"\\", b"\xc3",
];
const MUT_BYTES: [u8; 16] = [b' ', b'\n', b'\r', b'\t', b':', b'-', b'#', b'"', b'\'', b'[', b'}', b',', b'&', b'|', b'a', 0xc3];

// ---- watchdog: a validator call that does not return within LIMIT aborts the run as
// "undecided" (machinery error) with the case printed; never a verdict.
const LIMIT_S: u64 = 20;
const NSLOT: usize = 256;
static SLOTS: [Mutex<Option<(Instant, Vec<u8>)>>; NSLOT] = [const { Mutex::new(None) }; NSLOT];
static NEXT_SLOT: AtomicUsize = AtomicUsize::new(0);
thread_local! { static MY_SLOT: usize = NEXT_SLOT.fetch_add(1, Ordering::Relaxed) % NSLOT; }

fn watchdog() {
    std::thread::spawn(|| loop {
        std::thread::sleep(std::time::Duration::from_secs(2));
        for s in SLOTS.iter() {
            if let Ok(g) = s.try_lock() {
                if let Some((t, case)) = g.as_ref() {
                    if t.elapsed().as_secs() > LIMIT_S {
                        eprintln!("WATCHDOG: yaml::validate::validate did not return within {LIMIT_S}s on input hex={} ({})", hex(case), show(case));
                        std::process::exit(3);
                    }
                }
            }
        }
    });
}

/// Run the validator under the watchdog; returns (result, micros).
fn timed_validate(text: &[u8]) -> (Result<Result<(), succinctly::yaml::validate::YamlValidationError>, String>, u128) {
    MY_SLOT.with(|&i| *SLOTS[i].lock().unwrap() = Some((Instant::now(), text.to_vec())));
    let t0 = Instant::now();
    let r = catch(|| validate(text));
    let us = t0.elapsed().as_micros();
    MY_SLOT.with(|&i| *SLOTS[i].lock().unwrap() = None);
    (r, us)
}

fn kind_name(e: &succinctly::yaml::validate::YamlValidationError) -> String {
    let d = format!("{:?}", e.kind);
    d.split(|c: char| !c.is_alphanumeric()).next().unwrap_or("").to_string()
}

/// Position consistency of an error on arbitrary input. Returns a signature when inconsistent.
fn position_check(text: &[u8], e: &succinctly::yaml::validate::YamlValidationError) -> Option<String> {
    let p = e.position;
    if p.offset > text.len() {
        return Some("validate:position:offset>len".to_string());
    }
    let (l, c) = oracle::line_col_crlf(text, p.offset);
    if (l, c) != (p.line, p.column) {
        // structural feature: which break kinds precede the offset, and whether the offset sits between CR and LF
        let pre = &text[..p.offset];
        let has_cr = pre.contains(&b'\r');
        let mid = p.offset > 0 && p.offset < text.len() && text[p.offset - 1] == b'\r' && text[p.offset] == b'\n';
        let what = if p.line != l { "line" } else { "column" };
        // position tracking is independent of the error kind: the kind is not part of the signature
        return Some(format!("validate:position:{what}-mismatch:{}{}", if has_cr { "cr-before-offset" } else { "lf-only" }, if mid { ":offset-inside-crlf" } else { "" }));
    }
    None
}

fn arbitrary(text: &[u8], space: &str, rep: &mut Report, max_us: &mut u128) {
    rep.input();
    rep.trans(1);
    let (r, us) = timed_validate(text);
    if us > *max_us {
        *max_us = us;
    }
    let case = || json!({"kind":"arbitrary","space":space,"hex":hex(text),"text":show(text)});
    match r {
        Err(p) => rep.fail("PANIC:validate", text.len(), || {
            let mut c = case();
            c["panic"] = json!(p);
            c
        }),
        Ok(Ok(())) => rep.distinct(&("accept", text.len() % 7)),
        Ok(Err(e)) => {
            rep.evals(1);
            rep.distinct(&(kind_name(&e), e.position.line, e.position.column));
            if let Some(sig) = position_check(text, &e) {
                rep.fail(&sig, text.len(), || {
                    let mut c = case();
                    c["got"] = json!({"offset": e.position.offset, "line": e.position.line, "column": e.position.column, "kind": format!("{:?}", e.kind)});
                    let (l, col) = oracle::line_col_crlf(text, e.position.offset.min(text.len()));
                    c["expected"] = json!({"line": l, "column": col});
                    c
                });
            }
        }
    }
}

/// Does the line containing `off` return to the column at which a compact collection entry
/// (`- x` inside `- - x` / `- k: v`) started on the nearest earlier less-indented line?
fn dedent_to_compact_level(text: &[u8], off: usize) -> bool {
    let is_brk = |b: u8| b == b'\n' || b == b'\r';
    let ls = text[..off.min(text.len())].iter().rposition(|&b| is_brk(b)).map_or(0, |i| i + 1);
    let d = text[ls..].iter().take_while(|&&b| b == b' ').count();
    // walk back over earlier lines
    let mut end = ls;
    while end > 0 {
        // strip the break(s) before `end`
        let mut e = end;
        while e > 0 && is_brk(text[e - 1]) {
            e -= 1;
        }
        let s = text[..e].iter().rposition(|&b| is_brk(b)).map_or(0, |i| i + 1);
        let line = &text[s..e];
        let ind = line.iter().take_while(|&&b| b == b' ').count();
        if ind < line.len() && line[ind] != b'#' {
            if ind == d {
                return false; // the level was established by a line of its own
            }
            if ind < d {
                // columns at which compact entries start on this line
                let mut col = ind;
                while col + 1 < line.len() && line[col] == b'-' && line[col + 1] == b' ' {
                    col += 1;
                    while col < line.len() && line[col] == b' ' {
                        col += 1;
                    }
                    if col == d {
                        return true;
                    }
                }
                return false;
            }
        }
        end = s;
    }
    false
}

fn wellformed(text: &[u8], marks: &[ygen::Mark], brk: ygen::Brk, wrap: ygen::Wrap, space: &str, rep: &mut Report) {
    rep.trans(1);
    let (r, _) = timed_validate(text);
    let case = || json!({"kind":"wellformed","space":space,"hex":hex(text),"doc":show(text),"brk":brk.name()});
    match r {
        Err(p) => rep.fail("PANIC:validate", text.len(), || {
            let mut c = case();
            c["panic"] = json!(p);
            c
        }),
        Ok(Ok(())) => {}
        Ok(Err(e)) => {
            // signature: error kind + what stands at the error offset (the style of the token that covers
            // it, else the byte itself) + break kind
            let off = e.position.offset.min(text.len());
            let at = match marks.iter().find(|m| (m.start as usize) <= off && off < m.end as usize) {
                Some(m) => format!("in-{}{}", if m.key { "key-" } else { "" }, m.style.name()),
                None => match text.get(off) {
                    Some(&b) if b.is_ascii_graphic() => format!("at-byte-{}", b as char),
                    Some(&b) => format!("at-byte-0x{b:02x}"),
                    None => "at-end".to_string(),
                },
            };
            let _ = wrap;
            let sig = if kind_name(&e) == "BadIndentation" && dedent_to_compact_level(text, off) {
                // narrow class: the rejected line returns to the column of a compact collection (`- k:` / `- -`)
                // opened on an earlier line, with only deeper lines in between
                "validate:false-reject:BadIndentation:dedent-to-compact-collection-level".to_string()
            } else {
                format!("validate:false-reject:{}:{at}:{}", kind_name(&e), brk.name())
            };
            rep.fail(&sig, text.len(), || {
                let mut c = case();
                c["signature_hint"] = json!(sig);
                c["error"] = json!({"kind": format!("{:?}", e.kind), "offset": e.position.offset, "line": e.position.line, "column": e.position.column});
                c
            });
            if let Some(sig) = position_check(text, &e) {
                rep.fail(&sig, text.len(), case);
            }
        }
    }
}

static DUMP: Mutex<Option<std::io::BufWriter<std::fs::File>>> = Mutex::new(None);

fn explore(ctx: &Ctx, rep: &mut Report) {
    watchdog();
    let spaces = ygen::plan(ctx.quick());
    let dump_mod: u64 = ctx.arg("--dump-mod").and_then(|s| s.parse().ok()).unwrap_or(0);
    if let Some(p) = ctx.arg("--dump-cases") {
        *DUMP.lock().unwrap() = Some(std::io::BufWriter::new(std::fs::File::create(p).expect("dump file")));
    }
    let dump_only = ctx.args.iter().any(|a| a == "--dump-only");
    // (1) the C14 space must be accepted
    let r = ygen::explore_plan(ctx, &spaces, |c, rep| {
        if dump_mod > 0 && h64(c.text) % dump_mod == 0 {
            if let Some(w) = DUMP.lock().unwrap().as_mut() {
                w.write_all(format!("{}\n", hex(c.text)).as_bytes()).unwrap();
            }
        }
        if dump_only {
            return;
        }
        rep.input();
        rep.distinct(c.text);
        wellformed(c.text, c.marks, c.brk, c.wrap, c.space, rep);
        if h64(c.text) % 2_000_003 == 1 {
            rep.sample(|| json!({"space": c.space, "doc": show(c.text), "verdict": "must be accepted"}));
        }
    });
    if let Some(w) = DUMP.lock().unwrap().as_mut() {
        w.flush().unwrap();
    }
    if dump_only {
        return;
    }
    rep.merge(r);
    // (1b) wide families: many *sibling* collections at small real depth, in one document or across a stream. A
    // validator whose nesting counter is not restored on every exit path (an early return for `[]` / `{}`, a counter
    // that is not reset at `---`) drifts with the number of siblings and starts rejecting shallow documents.
    let mut wide: Vec<(String, Vec<u8>)> = Vec::new();
    for n in [3usize, 126, 127, 128, 129, 130, 200, 1000] {
        for item in ["[]", "{}", "[ ]", "{ }", "[a]", "{k: v}", "[[]]", "{k: {}}", "\"\"", "a"] {
            wide.push((format!("block-seq/{item}/{n}"), (0..n).map(|_| format!("- {item}\n")).collect::<String>().into_bytes()));
            wide.push((format!("block-map/{item}/{n}"), (0..n).map(|i| format!("k{i}: {item}\n")).collect::<String>().into_bytes()));
            wide.push((format!("flow-seq/{item}/{n}"), format!("[{}]\n", vec![item; n].join(", ")).into_bytes()));
            wide.push((format!("flow-map/{item}/{n}"), format!("{{{}}}\n", (0..n).map(|i| format!("k{i}: {item}")).collect::<Vec<_>>().join(", ")).into_bytes()));
            wide.push((format!("stream/{item}/{n}"), (0..n).map(|_| format!("--- {item}\n")).collect::<String>().into_bytes()));
            wide.push((format!("stream-end/{item}/{n}"), (0..n).map(|_| format!("---\nk: {item}\n...\n")).collect::<String>().into_bytes()));
        }
        wide.push((format!("records/{n}"), (0..n).map(|i| format!("- name: r{i}\n  labels: {{}}\n  ports: []\n")).collect::<String>().into_bytes()));
        wide.push((format!("nested-records/{n}"), format!("items:\n{}tail: [{{}}, []]\n", (0..n).map(|i| format!("  - id: {i}\n    tags: []\n")).collect::<String>()).into_bytes()));
    }
    let r = par_range_in(ctx, "wide-siblings", wide.len() as u64, 4, |i, rep| {
        let (name, text) = &wide[i as usize];
        rep.input();
        rep.distinct(name);
        wellformed(text, &[], ygen::Brk::Lf, ygen::Wrap::None, "wide-siblings", rep);
    });
    let mut r = r;
    r.mark_exhaustive("wide-siblings", "{3,126..130,200,1000} sibling items (empty / whitespace-only / non-empty flow collections, scalars) as block sequence, block mapping, flow sequence, flow mapping, multi-document stream, and record lists; all must be accepted");
    rep.merge(r);
    // (2) token strings
    let maxlen = ctx.pick(4, 5);
    let max_us = Mutex::new(0u128);
    let r = par_strings(ctx, "tokens", &TOKENS, maxlen, |s, _idx, rep| {
        let mut m = 0u128;
        arbitrary(s, "tokens", rep, &mut m);
        let mut g = max_us.lock().unwrap();
        if m > *g {
            *g = m;
        }
    });
    rep.merge(r);
    rep.extra.insert("tokens".into(), json!(TOKENS.iter().map(|t| show(t)).collect::<Vec<_>>()));
    rep.extra.insert("slowest_validate_call_us".into(), json!(*max_us.lock().unwrap() as u64));
    // (3) single-byte mutations of Y(2) documents (LF, no wrapper)
    let y2 = vec![ygen::Space {
        name: "mutations",
        what: format!("every document of styles/n<=2 with LF breaks and no wrapper; every byte replaced by each of {} bytes, and deleted", MUT_BYTES.len()),
        trees: spaces[0].trees.clone(),
        opts: vec![ygen::Opts::full()],
        wraps: vec![ygen::Wrap::None],
        brks: vec![ygen::Brk::Lf, ygen::Brk::CrLf],
        stream: 0,
    }];
    let r = ygen::explore_plan(ctx, &y2, |c, rep| {
        let mut m = 0u128;
        let mut buf = c.text.to_vec();
        for i in 0..c.text.len() {
            let orig = buf[i];
            for &b in &MUT_BYTES {
                if b == orig {
                    continue;
                }
                buf[i] = b;
                arbitrary(&buf, "mutations", rep, &mut m);
            }
            buf[i] = orig;
            let mut del = c.text.to_vec();
            del.remove(i);
            arbitrary(&del, "mutations", rep, &mut m);
        }
    });
    rep.merge(r);
    rep.extra.insert("mutation_bytes".into(), json!(MUT_BYTES.iter().map(|&b| show(&[b])).collect::<Vec<_>>()));
}

fn replay(case: &Value, rep: &mut Report) {
    watchdog();
    let text = unhex(case["hex"].as_str().unwrap());
    rep.space("replay");
    match case["kind"].as_str().unwrap_or("arbitrary") {
        "wellformed" => {
            rep.input();
            // marks are not needed to decide; recompute the signature's style component from the stored one
            let brk = match case["brk"].as_str().unwrap_or("lf") {
                "crlf" => ygen::Brk::CrLf,
                "cr" => ygen::Brk::Cr,
                _ => ygen::Brk::Lf,
            };
            let (r, _) = timed_validate(&text);
            match r {
                Err(_) => rep.fail("PANIC:validate", text.len(), || case.clone()),
                Ok(Ok(())) => {}
                Ok(Err(e)) => {
                    let sig = case["signature_hint"].as_str().map(|s| s.to_string()).unwrap_or_else(|| format!("validate:false-reject:{}:at-none:{}:bare", kind_name(&e), brk.name()));
                    rep.fail(&sig, text.len(), || case.clone());
                }
            }
        }
        _ => {
            let mut m = 0;
            arbitrary(&text, "replay", rep, &mut m);
        }
    }
}

fn main() {
    drive("C18", explore, replay);
}
