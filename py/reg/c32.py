SPEC = dict(
    kind="rust",
    bins=rust("c32"),
    design_ref="§3-C32",
    technique="bounded-exhaustive enumeration (S2) of J(n) documents x whitespace placements + scale families (S3); every structural ordinal and every byte "
              "position queried, against an own scan and generator spans",
    rule="a case = one document text (as in C06); distinct_nontrivial counts distinct trees per sub-space; every position/ordinal of each document is queried",
    level_text="For every document: structural_count, structural_pos(k) for every k <= count+2 (and 2^32, MAX), structural_positions() = exactly the bracket, "
               "comma and colon bytes outside strings in order; structural_index(p) for every p <= len+1 is the ordinal at structural bytes and None "
               "elsewhere; find_close(p) is the matching close at every container start and None at every other position (including brackets inside "
               "strings); skip_value at the start of every value and key is the byte after the token; children(p) is Some exactly for containers and "
               "stays inside the container.",
    level_note="Oracle: own in-string-aware scan (cross-checked against the token tree's implied structural count on every document) and generator spans. "
               "Families beyond 6000 bytes are queried at boundary positions, a fixed stride and a strided set of containers.",
    assumptions=["children() is only checked for containment/order/presence of immediate child containers: it is outside the statement and its doc comment "
                 "('immediate children') does not match what it yields (every bracket byte inside the container)"],
)
