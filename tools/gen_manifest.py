#!/usr/bin/env python3
"""Regenerate /verif/MANIFEST.json from py/registry.py (run after editing the registry)."""
import json, os, sys
ROOT = os.path.dirname(os.path.dirname(os.path.abspath(__file__)))
sys.path.insert(0, os.path.join(ROOT, "py"))
import registry
props = [json.loads(l) for l in open(os.path.join(ROOT, "properties.jsonl"))]
ids = [p["id"] for p in props]
hooks_commits = getattr(registry, "HOOK_COMMITS", [])
checks = []
for pid in ids:
    if pid not in registry.CHECKS:
        continue
    s = registry.CHECKS[pid]
    checks.append({
        "property_id": pid,
        "quick_cmd": f"./check {pid} --tier quick",
        "thorough_cmd": f"./check {pid} --tier thorough",
        "evidence_file": f"/verif/evidence/{pid}.json",
        "replay_cmd_template": f"./check {pid} --replay {{path}}",
        "engine": s.get("engine", "svh" if s["kind"] == "rust" else "clibatch"),
        "level_claimed": {"category": "model_checking", "text": s["level_text"], "design_ref": s.get("design_ref", "")},
        "level_note": s["level_note"],
        "technique": s["technique"],
    })
na = [{"property_id": pid, "reason": registry.NOT_APPLICABLE.get(pid, "check not built yet in this session (planned; see DESIGN.md §3)")}
      for pid in ids if pid not in registry.CHECKS]
m = {
    "version": 1,
    "setup_cmd": "./setup.sh",
    "hooks": {
        "guard": "cargo feature verif-hooks",
        "enable": "harness links succinctly with features std,verif-hooks (path dependency on /repo); CLI built with --features cli,verif-hooks",
        "baseline_off_cmd": "cd /repo && if cargo nextest --version >/dev/null 2>&1; then cargo nextest run --workspace --no-fail-fast --test-threads 8 --offline; else cargo test --workspace --no-fail-fast --offline; fi",
        "source_commits": hooks_commits,
        "fix_commits": getattr(registry, "FIX_COMMITS", []),
        "add_only": True,
    },
    "engines": [
        {"name": "svh", "path": "/verif/harness", "serves_properties": [c["property_id"] for c in checks if c["engine"] == "svh"],
         "kind_free_text": "Rust explorer binaries (one per property) linking the real crate: bounded-exhaustive enumeration, closed-state BFS, automaton-product DFS; sharded over 16 threads"},
        {"name": "clibatch", "path": "/verif/py", "serves_properties": [c["property_id"] for c in checks if c["engine"] == "clibatch"],
         "kind_free_text": "Python drivers enumerating (document, program, option) products and running them through the real CLI code path via the __verif-batch hook; violations confirmed by real process spawns"},
    ],
    "checks": checks,
    "not_applicable": na,
    "notes": "All checks: ./check <ID> --tier quick|thorough (replay: ./check <ID> --replay <file>). Known findings: known_findings.json + known.d/*.json (FINDINGS.md is the generated table). /repo carries 2 hook commits (feature verif-hooks, off by default) and 20 'fix:' commits, listed in py/registry.py and DESIGN.md 7.1; the whole 4190-test suite passes on HEAD with the feature off. Seeded property-breaking changes: seeded/<id>/ and seeded/RESULTS.md. VERIF_REPO=<worktree> points any check at a scratch copy of the repository.",
}
json.dump(m, open(os.path.join(ROOT, "MANIFEST.json"), "w"), indent=1)
print("checks:", len(checks), "not_applicable:", len(na))
