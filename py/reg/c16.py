SPEC = dict(
    kind="py", module="c16", bins=rust("c16", (("default", ()), ("scalar-yaml", ("scalar-yaml",)))), design_ref="§3-C16",
    technique="differential exploration between three kernel configurations (S5) over a bounded-exhaustive corpus (S2/S3), plus exhaustive kernel-vs-reference comparison on every (buffer, start)",
    rule="corpus (identical in all runs): (1) long constructs — plain / double / single-quoted scalars and keys, flow items, indentation runs, block scalars, "
         "anchor and alias names, comments — of EVERY length 0..=72 (thorough 100) x 10/8/6 window bytes x LF/CRLF/CR x with/without 40 bytes of following text; "
         "(2) every token string of length <= 3 (thorough 4) over 23 YAML tokens, alone and followed by a 44-byte line; (3) the Y(2) documents of the C14 space "
         "(every style, LF/CRLF/CR) + comment space + 1/8 of the anchor space under a leading comment of p bytes (quick 2 values, thorough 17 values around "
         "16/32/48/64) and a trailing comment of 0/40 bytes. Kernel corpus: buffers of every length 0..=50 (100) with one of 14 special bytes or 10 two-byte "
         "windows at every position, break+indent shapes; every start; 9 ends; 7 indents. distinct = distinct digest tuples / (buffer, answers) pairs.",
    level_text="Every input of the corpus is indexed by the real code under each of the three kernel configurations in its own process; the Debug rendering of the "
               "whole index (every bitvector and table), the JSON and YAML output or the error must be identical. Every public yaml::simd kernel is compared with a "
               "byte-at-a-time reference on every (buffer, start[, end | indent]) of the kernel corpus in every configuration.",
    level_note="The dispatch level of each run is observed (classify width) and a clamp that did not take effect is a machinery error. Digests are 64-bit "
               "SipHash (DefaultHasher); on a mismatch the full observations are fetched and compared. Kernel references are written from the doc comments and "
               "self-tested on the repo's unit-test examples. find_json_escape belongs to C09.",
    assumptions=["x86-64 host; NEON/broadword paths are not reachable", "inputs outside the corpus (e.g. arbitrary binary data, documents beyond ~200 bytes) are out of scope"],
    wall_cap={"quick": 900, "thorough": 3300},
)
