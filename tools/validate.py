#!/opt/veriftools/pyvenv/bin/python
"""Validate MANIFEST.json and every evidence file against the schemas in /root/.vp."""
import json, glob, sys, os, jsonschema
ROOT = os.path.dirname(os.path.dirname(os.path.abspath(__file__)))
ms = json.load(open('/root/.vp/MANIFEST.schema.json')); es = json.load(open('/root/.vp/EVIDENCE.schema.json'))
m = json.load(open(os.path.join(ROOT, 'MANIFEST.json')))
jsonschema.validate(m, ms)
ids = [json.loads(l)['id'] for l in open(os.path.join(ROOT, 'properties.jsonl'))]
claimed = [c['property_id'] for c in m['checks']]; na = [n['property_id'] for n in m.get('not_applicable', [])]
assert sorted(claimed + na) == sorted(ids), (set(ids) - set(claimed) - set(na), set(claimed) & set(na))
bad = 0
for c in m['checks']:
    f = c['evidence_file']
    if not os.path.exists(f):
        print('MISSING', f); bad += 1; continue
    e = json.load(open(f))
    try:
        jsonschema.validate(e, es)
        assert e['property_id'] == c['property_id']
        cov = e['coverage']
        print(f"{c['property_id']} ok tier={e['tier']} states={cov['states']} transitions={cov['transitions']} distinct={cov['distinct_nontrivial']} exhaustive={cov.get('exhaustive')} violations={e.get('violations')} wall={e['wall_s']}")
    except Exception as ex:
        print('INVALID', f, str(ex)[:300]); bad += 1
print('manifest ok; claimed', len(claimed), 'not_applicable', len(na), 'bad evidence', bad)
sys.exit(1 if bad else 0)
