//! C30 — jq programs never crash the process (in-process half; the CLI half is
//! py/c30cli.py).
//!
//! S2 with a crash oracle over programs x inputs x evaluators:
//!   * ~118 operand templates x N, M in the 15-operand set x 4 inputs (explicit
//!     exclusions: programs that legitimately allocate gigabytes or do not
//!     terminate — counted in the evidence),
//!   * programs that build a value nested K deep and then consume it,
//!   * every program token string (shared with C19; joined by " " and by ""),
//!   * program nesting families (syntax-tree depth up to 100000),
//! each parsed and evaluated by the full evaluator (jq and yq semantics) and the
//! generic cursor evaluator, all outputs materialised and printed. Oracle: outputs
//! and/or an error value; a panic (caught per evaluator) or a process death
//! (allocation failure, stack overflow — contained in worker processes under an
//! address-space limit and a CPU watchdog) is a violation; a watchdog hit is
//! "undecided" and only reported.
#[path = "../c19space.rs"]
mod c19space;
#[path = "../c30space.rs"]
mod c30space;
#[path = "../crashkit.rs"]
mod crashkit;

use c19space::{nstrings, program_at, program_nest, DEPTHS, PT};
use c30space::*;
use crashkit::*;
use engine::*;
use serde_json::{json, Value};
use std::sync::OnceLock;
use succinctly::jq::eval_generic::eval_with_cursor;
use succinctly::jq::{eval, parse_with_mode, Expr, JqSemantics, OwnedValue, ParserMode, YqSemantics};
use succinctly::json::JsonIndex;

const TOKEN_INPUTS: [&str; 2] = ["null", "{\"a\":[1,{\"a\":\"\u{e9}\"}],\"f\":1}"];

struct Spaces {
    templ: Vec<TemplCase>,
    excl: Vec<(String, usize)>,
    deep: Vec<(String, String)>,
    pnest_: OnceLock<Vec<(String, String)>>,
    pt_len: u32,
}

const SP_TEMPL: usize = 0;
const SP_DEEP: usize = 1;
const SP_TOK_SP: usize = 2;
const SP_TOK_CAT: usize = 3;
const SP_NEST: usize = 4;
const NAMES: [&str; 5] = ["templates", "deep-values", "tokens-spaced", "tokens-concatenated", "program-nesting"];
const NEV: u64 = 3;

impl Spaces {
    fn new(quick: bool) -> Self {
        let (templ, excl) = template_cases();
        Spaces { templ, excl, deep: deep_value_programs(quick), pnest_: OnceLock::new(), pt_len: if quick { 3 } else { 4 } }
    }
    fn pnest(&self) -> &Vec<(String, String)> {
        self.pnest_.get_or_init(|| DEPTHS.iter().flat_map(|&d| program_nest(d).into_iter().map(move |(n, p)| (format!("{n}/{d}"), p))).collect())
    }
    /// In the first, second and last space one case is (program, evaluator): a program that kills its
    /// worker under one evaluator is still run under the others (chunk = 1: deaths do not serialise).
    fn defs(&self) -> Vec<SpaceDef> {
        let d = |i: usize, n: u64, chunk: u64| SpaceDef { name: NAMES[i].to_string(), n, chunk };
        let nt = nstrings(PT.len() as u64, self.pt_len);
        let npn = (DEPTHS.len() * program_nest(1).len()) as u64;
        vec![d(SP_TEMPL, self.templ.len() as u64 * NEV, 12), d(SP_DEEP, self.deep.len() as u64 * NEV, 1), d(SP_TOK_SP, nt, 8192), d(SP_TOK_CAT, nt, 8192), d(SP_NEST, npn * NEV, 1)]
    }
    /// (program, inputs, label, evaluator restriction)
    fn case(&self, space: usize, idx: u64) -> (String, &'static [&'static str], String, Option<&'static str>) {
        let ev = Some(EVALUATORS[(idx % NEV) as usize]);
        let pi = (idx / NEV) as usize;
        match space {
            SP_TEMPL => {
                let c = &self.templ[pi];
                (c.program.clone(), &INPUTS, format!("template:{}", TEMPLATES[c.template].0), ev)
            }
            SP_DEEP => (self.deep[pi].1.clone(), &INPUTS[..1], self.deep[pi].0.clone(), ev),
            SP_TOK_SP => (program_at(idx, " "), &TOKEN_INPUTS, String::new(), None),
            SP_TOK_CAT => (program_at(idx, ""), &TOKEN_INPUTS, String::new(), None),
            SP_NEST => (self.pnest()[pi].1.clone(), &INPUTS[..1], self.pnest()[pi].0.clone(), ev),
            _ => unreachable!(),
        }
    }
}

static SPACES: OnceLock<Spaces> = OnceLock::new();
fn spaces() -> &'static Spaces {
    SPACES.get_or_init(|| Spaces::new(tier_is_quick()))
}

fn tier_is_quick() -> bool {
    let a: Vec<String> = std::env::args().collect();
    a.iter().position(|x| x == "--tier").and_then(|i| a.get(i + 1)).map(|t| t == "quick").unwrap_or(true)
}

const EVALUATORS: [&str; 3] = ["full-jq", "generic-jq", "full-yq"];

/// Evaluate and materialise everything; returns a short outcome class.
fn run_eval(which: &str, e: &Expr, input: &[u8]) -> (String, usize) {
    let ix = JsonIndex::build(input);
    let cur = ix.root(input);
    let (outs, term): (Vec<OwnedValue>, String) = match which {
        "full-jq" => {
            let r = eval::<Vec<u64>, JqSemantics>(e, cur);
            let t = format!("{:?}", std::mem::discriminant(&r));
            let is_err = r.is_error();
            (r.collect_owned(), if is_err { "error".into() } else { t })
        }
        "full-yq" => {
            let r = eval::<Vec<u64>, YqSemantics>(e, cur);
            let is_err = r.is_error();
            (r.collect_owned(), if is_err { "error".into() } else { "ok".into() })
        }
        _ => {
            let r = eval_with_cursor(e, cur);
            let is_err = r.is_error();
            (r.collect_owned(), if is_err { "error".into() } else { "ok".into() })
        }
    };
    let mut printed = 0usize;
    for o in &outs {
        printed += o.to_json().len();
    }
    (term, printed + outs.len())
}

fn example(space: &str, label: &str, program: &str, input: &str, evaluator: &str, p: Option<&PanicRec>) -> Value {
    let big = program.len() > 4096;
    let mut v = json!({"kind": "lib", "side": "rust", "space": space, "label": label, "program": if big { Value::Null } else { json!(program) }, "program_len": program.len(),
                       "program_head": program.chars().take(120).collect::<String>(), "input": input, "evaluator": evaluator});
    if let (Some(p), Value::Object(m)) = (p, &mut v) {
        m.insert("panic".into(), panic_json(p));
    }
    v
}

fn run_program(space: &str, label: &str, program: &str, inputs: &[&str], only_eval: Option<&str>, rep: &mut Report) {
    rep.space(space);
    rep.input();
    let size = program.len();
    for mode in [ParserMode::Jq, ParserMode::Yq] {
        let evs: &[&str] = if matches!(mode, ParserMode::Jq) { &EVALUATORS[..2] } else { &EVALUATORS[2..] };
        if let Some(o) = only_eval {
            if o != "parse" && !evs.contains(&o) {
                continue;
            }
        }
        stage("parse");
        rep.trans(1);
        let parsed = pcatch(|| parse_with_mode(program, mode));
        let expr = match parsed {
            Err(p) => {
                let sig = panic_sig(&p);
                rep.fail(&sig, size, || example(space, label, program, "", "parse", Some(&p)));
                continue;
            }
            Ok(Err(_)) => {
                rep.distinct(&("parse-error", space));
                continue;
            }
            Ok(Ok(e)) => e,
        };
        for ev in evs {
            if let Some(o) = only_eval {
                if o != *ev && o != "parse" {
                    continue;
                }
            }
            for inp in inputs {
                stage(ev);
                rep.trans(1);
                match pcatch(|| run_eval(ev, &expr, inp.as_bytes())) {
                    Ok((term, n)) => rep.distinct(&(label, *ev, term, n.min(64), *inp)),
                    Err(p) => {
                        let sig = panic_sig(&p);
                        rep.fail(&sig, size, || example(space, label, program, inp, ev, Some(&p)));
                    }
                }
            }
        }
        stage("drop");
        let r = pcatch(move || drop(expr));
        if let Err(p) = r {
            let sig = panic_sig(&p);
            rep.fail(&sig, size, || example(space, label, program, "", "drop", Some(&p)));
        }
    }
}

fn run_idx(space: usize, idx: u64, rep: &mut Report) {
    let (program, inputs, label, ev) = spaces().case(space, idx);
    stage_journal(matches!(space, SP_TEMPL | SP_DEEP | SP_NEST));
    run_program(NAMES[space], &label, &program, inputs, ev, rep);
    if space == SP_TEMPL && idx % 3607 == 7 {
        rep.sample(|| json!({"space": NAMES[space], "program": program, "inputs": inputs, "evaluators": EVALUATORS}));
    }
}

fn case_program(case: &Value) -> String {
    if let Some(p) = case["program"].as_str() {
        return p.to_string();
    }
    let label = case["label"].as_str().unwrap_or("");
    spaces().pnest().iter().find(|x| x.0 == label).map(|x| x.1.clone()).unwrap_or_else(|| panic!("replay case has neither a program nor a known nesting label"))
}

fn run_case(case: &Value, rep: &mut Report) {
    let program = case_program(case);
    let space = case["space"].as_str().unwrap_or("replay").to_string();
    let label = case["label"].as_str().unwrap_or("").to_string();
    let inputs: Vec<&str> = match case["input"].as_str() {
        Some(s) if !s.is_empty() => vec![s],
        _ => INPUTS.to_vec(),
    };
    stage_journal(true);
    let ev = case["evaluator"].as_str().filter(|e| *e != "any" && *e != "drop");
    run_program(&space, &label, &program, &inputs, ev, rep);
}

fn on_crash(cr: CaseRef<'_>, crash: &Crash, rep: &mut Report) {
    let (space, label, program, input, ev) = match cr {
        CaseRef::Idx(s, i) => {
            let (p, inputs, l, ev) = spaces().case(s, i);
            (NAMES[s].to_string(), l, p, if inputs.len() == 1 { inputs[0].to_string() } else { String::new() }, ev.unwrap_or("any").to_string())
        }
        CaseRef::Val(v) => (v["space"].as_str().unwrap_or("replay").to_string(), v["label"].as_str().unwrap_or("").to_string(), case_program(v), v["input"].as_str().unwrap_or("").to_string(), v["evaluator"].as_str().unwrap_or("any").to_string()),
    };
    rep.space(&space);
    rep.input();
    rep.trans(1);
    let family = label.split('/').next().unwrap_or("").to_string();
    // the three evaluators share one recursive engine: a stack overflow is named by phase (parse / eval / drop)
    // and by the nesting construct, not by evaluator (which is recorded in the example)
    let phase = if crash.stage.is_empty() || EVALUATORS.contains(&crash.stage.as_str()) { "eval" } else { crash.stage.as_str() };
    let seam = format!("{phase}:{}", if family.is_empty() { space.clone() } else { family });
    let evaluator = if !crash.stage.is_empty() && crash.stage != "drop" { crash.stage.clone() } else { ev };
    let probe_case = example(&space, &label, &program, &input, &evaluator, None);
    let key = format!("{space}|{label}");
    let tier = if tier_is_quick() { "quick" } else { "thorough" };
    match death_verdict(crash, &seam, &|| probe_frame(&key, tier, 1 << 30, &probe_case)) {
        Ok(sig) => {
            let tail: String = crash.stderr_tail.chars().rev().take(1500).collect::<String>().chars().rev().collect();
            rep.fail(&sig, program.len(), || {
                let mut e = example(&space, &label, &program, &input, &evaluator, None);
                if let Value::Object(m) = &mut e {
                    m.insert("died".into(), json!({"status": crash.status, "stage": crash.stage, "stderr_tail": tail}));
                }
                e
            });
        }
        Err(why) => {
            rep.notes.push(format!("undecided ({why}) in stage {:?}: space={space} label={label} program={}", crash.stage, program.chars().take(80).collect::<String>()));
        }
    }
}

fn explore(ctx: &Ctx, rep: &mut Report) {
    install_hook();
    let sp = spaces();
    let mut defs = sp.defs();
    only_spaces(&mut defs);
    let mut cfg = Contain::from_ctx(ctx);
    cfg.rlimit_as = 1 << 30; // 16 workers: at most 16 GiB even if every worker hits its limit at once
    supervise(&cfg, &defs, rep, &on_crash);
    let nexcl: usize = sp.excl.iter().map(|e| e.1).sum();
    for (i, d) in defs.iter().enumerate() {
        let note = match i {
            SP_TEMPL => format!("{} templates x operands N, M in the 15-operand set minus {} excluded instances = {} programs x 3 evaluators (one contained case each), x 4 inputs", TEMPLATES.len(), nexcl, d.n / NEV),
            SP_DEEP => format!("builders x depths {:?} x consumers = {} programs x 3 evaluators", if ctx.quick() { &DEEP_K_QUICK[..] } else { &DEEP_K[..] }, d.n / NEV),
            SP_NEST => format!("every nesting shape x depth {:?} = {} programs x 3 evaluators", DEPTHS, d.n / NEV),
            _ => format!("all strings of 0..={} tokens over the 62-token program alphabet = {}, each x 2 inputs x 3 evaluators when it parses", sp.pt_len, d.n),
        };
        rep.mark_exhaustive(&d.name, &note);
    }
    rep.extra.insert("operands".into(), json!(OPS.iter().map(|o| o.0).collect::<Vec<_>>()));
    rep.extra.insert("inputs".into(), json!(INPUTS));
    rep.extra.insert("excluded_by_construction".into(), json!(sp.excl.iter().map(|e| json!({"reason": e.0, "instances": e.1})).collect::<Vec<_>>()));
    rep.extra.insert("containment".into(), json!({"worker_processes": cfg.threads, "stack_bytes": cfg.stack_bytes, "rlimit_as_bytes": cfg.rlimit_as, "case_cpu_watchdog_s": cfg.case_timeout_s}));
    let und = rep.notes.iter().filter(|n| n.starts_with("undecided")).count();
    rep.extra.insert("undecided".into(), json!(und));
}

fn replay(case: &Value, rep: &mut Report) {
    install_hook();
    let tier = if tier_is_quick() { "quick" } else { "thorough" };
    let cfg = Contain { backtrace: false, tier: tier.into(), threads: 1, rlimit_as: 1 << 30, case_timeout_s: 30.0, stack_bytes: 8 << 20 };
    supervise_one(&cfg, case, rep, &on_crash);
}

fn main() {
    let args: Vec<String> = std::env::args().collect();
    if args.iter().any(|a| a == "--dump-spec") {
        println!("{}", dump_spec(tier_is_quick()));
        return;
    }
    if is_worker() {
        worker_main(
            &|| {
                spaces();
            },
            &run_idx,
            &run_case,
        );
    }
    drive("C30", explore, replay);
}
