SPEC = dict(
    kind="rust",
    bins=rust("c07"),
    design_ref="§3-C07",
    technique="bounded-exhaustive enumeration (S2+S3): every rank position, every select rank, every (rank, hint) pair, every offset and (line, column) "
              "on every index of the bounded input space, against naive bit scans and generator spans",
    rule="inputs = J(n) documents x whitespace placements, all strings of length <= 3/4 over the 27-byte class alphabet at 9 word-boundary placements, "
         "and scale families (sparse-IB arrays leaving 1..20/33/70 zero IB words, arrays to 100 000 elements, deep nesting, > 1 MiB); "
         "a case is distinct+non-trivial when its interest-bit pattern (positions of the set bits, or (count, first gap, last word) for documents) is new",
    level_text="On every index: ib_rank1(p) for every p <= len+2 and far beyond; ib_select1(k) for every k <= ones+2 and k in {2^32-1, 2^32, 2^32+1, "
               "2^33+1, MAX-1, MAX}; ib_select1_from(k, h) for the same k and every hint h in 0..=words+10 and usize::MAX (forward and backward gallop "
               "over several doublings on the sparse families); the set interest bits must be exactly the generator's token starts; text_position of "
               "every node; cursor_at_offset(o) for every o <= len+1 = node with the greatest start <= o (None past the end); "
               "cursor_at_position(l, c) for the naive (line, column) of every offset (LF, CR, CRLF) and out-of-range pairs.",
    level_note="For documents > 3000 bytes ranks/offsets are taken at boundary values plus a fixed stride, k at boundary ranks when ones exceed the "
               "tier's limit (300 quick / 6000 thorough), hints at boundary values when (words+12) x |k| > 3e7. Oracle: naive scan of ix.ib() and "
               "generator spans; the line map is engine::oracle (LF/CR/CRLF).",
    assumptions=["indexes of more than ~1.2 MB of text are out of reach", "k >= 2^32 cannot be paired with a real 2^32-bit index; the probes use small indexes"],
)
