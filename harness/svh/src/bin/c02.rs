//! C02 — word-level bit kernels are exact on every word, on every dispatch path.
//!
//! 2^64 words cannot be enumerated; the bounded space follows the structure of
//! the kernels (byte tables, SWAR lanes, PDEP deposit, nibble LUT of the AVX2
//! block popcount): all low-popcount words and complements, every 16-bit pattern
//! in every 16-bit lane over several backgrounds, every byte value in every byte
//! lane, all words made of few runs — each crossed with EVERY rank k (select) or
//! EVERY start bit (parenthesis kernels). 8-word blocks: every byte value at each
//! of the 64 byte positions over 5 backgrounds, all blocks over W8 with few
//! non-filler words. The oracle counts bits one at a time.
//!
//! Each dispatch path is driven directly through `succinctly::verif_hooks`
//! (PDEP / CTZ loop / broadword / byte table / AVX2 block popcount) next to the
//! public dispatching entry points; a path absent on the host is reported as not
//! exercised.
#[path = "../bitmodel.rs"]
mod bitmodel;

use bitmodel::*;
use engine::gen::W8;
use engine::*;
use serde_json::{json, Value};
use std::cell::Cell;
use succinctly::bits::block_popcount_portable;
use succinctly::trees::{find_close_in_word, find_unmatched_close_in_word};
use succinctly::verif_hooks as vh;
use succinctly::{popcount_word, popcount_word_portable, popcount_words, select_in_word};

const K_EXTREME: [u32; 5] = [65, 127, 128, 255, u32::MAX];
const P_EXTREME: [u32; 4] = [65, 127, 128, u32::MAX];

// ---------------------------------------------------------------- spaces --

/// All words with popcount <= maxpop, and their complements.
fn words_lowpop(maxpop: usize) -> Vec<u64> {
    fn rec(start: u32, left: usize, cur: u64, out: &mut Vec<u64>) {
        out.push(cur);
        out.push(!cur);
        if left == 0 {
            return;
        }
        for b in start..64 {
            rec(b + 1, left - 1, cur | (1u64 << b), out);
        }
    }
    let mut out = Vec::new();
    rec(0, maxpop, 0, &mut out);
    out.sort_unstable();
    out.dedup();
    out
}

/// Every 16-bit pattern in each of the 4 lanes; the other lanes hold a background
/// pattern, or (`same`) the pattern itself, or (`inverse`) its complement.
fn words_lanes16(bgs: &[u16], same: bool, inverse: bool) -> Vec<u64> {
    let rep16 = |p: u16| -> u64 { (p as u64) * 0x0001_0001_0001_0001 };
    let mut out = Vec::new();
    for lane in 0..4 {
        let sh = lane * 16;
        let m = 0xFFFFu64 << sh;
        for p in 0..=u16::MAX {
            for &bg in bgs {
                out.push((rep16(bg) & !m) | ((p as u64) << sh));
            }
            if same && lane == 0 {
                out.push(rep16(p));
            }
            if inverse {
                out.push((rep16(!p) & !m) | ((p as u64) << sh));
            }
        }
    }
    out.sort_unstable();
    out.dedup();
    out
}

/// Every byte value in each of the 8 byte lanes over the backgrounds.
fn words_bytes(bgs: &[u64]) -> Vec<u64> {
    let mut out = Vec::new();
    for lane in 0..8 {
        let sh = lane * 8;
        let m = 0xFFu64 << sh;
        for v in 0..=255u64 {
            for &bg in bgs {
                out.push((bg & !m) | (v << sh));
            }
        }
    }
    out.sort_unstable();
    out.dedup();
    out
}

/// All words consisting of at most `max_runs` maximal runs of equal bits.
fn words_runs(max_runs: usize) -> Vec<u64> {
    // a word is determined by the value of bit 0 and the set of positions where the bit value changes
    fn rec(start: u32, left: usize, cuts: &mut Vec<u32>, out: &mut Vec<u64>) {
        for first in [false, true] {
            let mut w = 0u64;
            let mut v = first;
            let mut ci = 0;
            for b in 0..64u32 {
                if ci < cuts.len() && cuts[ci] == b {
                    v = !v;
                    ci += 1;
                }
                if v {
                    w |= 1u64 << b;
                }
            }
            out.push(w);
        }
        if left == 0 {
            return;
        }
        for c in start..64 {
            cuts.push(c);
            rec(c + 1, left - 1, cuts, out);
            cuts.pop();
        }
    }
    let mut out = Vec::new();
    rec(1, max_runs - 1, &mut Vec::new(), &mut out);
    out.sort_unstable();
    out.dedup();
    out
}

/// 8-word blocks: every byte value at each of the 64 byte positions over backgrounds.
fn blocks_bytes() -> Vec<[u64; 8]> {
    let bgs: [u64; 5] = [0, u64::MAX, 0xAAAA_AAAA_AAAA_AAAA, 0x5555_5555_5555_5555, 0x0F0F_0F0F_0F0F_0F0F];
    let mut out = Vec::new();
    for &bg in &bgs {
        for pos in 0..64 {
            for v in 0..=255u64 {
                let mut b = [bg; 8];
                let sh = (pos % 8) * 8;
                b[pos / 8] = (bg & !(0xFFu64 << sh)) | (v << sh);
                out.push(b);
            }
        }
    }
    out
}

/// All blocks with at most `k` non-filler words; filler and specials range over W8.
fn blocks_w8(k: usize) -> Vec<[u64; 8]> {
    fn rec(start: usize, left: usize, cur: &mut [u64; 8], filler: u64, out: &mut Vec<[u64; 8]>) {
        out.push(*cur);
        if left == 0 {
            return;
        }
        for p in start..8 {
            for &s in W8.iter() {
                if s == filler {
                    continue;
                }
                cur[p] = s;
                rec(p + 1, left - 1, cur, filler, out);
            }
            cur[p] = filler;
        }
    }
    let mut out = Vec::new();
    for &f in W8.iter() {
        let mut cur = [f; 8];
        rec(0, k, &mut cur, f, &mut out);
    }
    out
}

/// Word slices for `popcount_words`: all of length <= 3 over W8, and "special s at p in filler f" around
/// the 8-word (AVX-512 / block) boundaries.
fn slices() -> Vec<Vec<u64>> {
    let mut out = gen::sequences(&W8, 3);
    for n in [4usize, 7, 8, 9, 15, 16, 17, 23, 24, 25, 31, 32, 33, 63, 64, 65] {
        for &f in W8.iter() {
            for p in 0..n {
                for &s in W8.iter() {
                    if s == f && p > 0 {
                        continue;
                    }
                    let mut v = vec![f; n];
                    v[p] = s;
                    out.push(v);
                }
            }
        }
    }
    out
}

// ---------------------------------------------------------------- checks --

thread_local! {
    static CUR_API: Cell<&'static str> = const { Cell::new("?") };
}
fn api(name: &'static str) {
    CUR_API.with(|c| c.set(name));
}

fn sel_sig(name: &str, k: u32, pop: u32) -> String {
    if k < pop {
        format!("{name}:k<popcount:wrong-position")
    } else if k <= 64 {
        format!("{name}:k>=popcount:not-64")
    } else {
        format!("{name}:k>64:not-64")
    }
}

/// Every kernel that takes one word, on word `w`: every k / every start bit.
fn check_word(w: u64, rep: &mut Report) {
    let case = || json!({"kind":"word","word":format!("{w:016x}")});
    // oracle, one bit at a time
    let mut pos = [64u32; 65];
    let mut pop = 0u32;
    for b in 0..64 {
        if (w >> b) & 1 == 1 {
            pos[pop as usize] = b;
            pop += 1;
        }
    }
    // second, independent source for the bit counter itself (core, not succinctly)
    assert_eq!(pop, w.count_ones(), "oracle self-test: bit counter");
    let exp = |k: u32| -> u32 {
        if k < pop {
            pos[k as usize]
        } else {
            64
        }
    };
    let mut calls = 0u64;
    let has_pdep = vh::select_in_word_pdep(0, 0).is_some();
    for k in (0..=64u32).chain(K_EXTREME) {
        let e = exp(k);
        api("select_in_word");
        let g = select_in_word(w, k);
        if g != e {
            rep.fail(&sel_sig("select_in_word(dispatch)", k, pop), 0, || json!({"kind":"word","word":format!("{w:016x}"),"k":k,"got":g,"exp":e}));
        }
        api("select_in_word_ctz");
        let g = vh::select_in_word_ctz(w, k);
        if g != e {
            rep.fail(&sel_sig("select_in_word_ctz", k, pop), 0, || json!({"kind":"word","word":format!("{w:016x}"),"k":k,"got":g,"exp":e}));
        }
        api("select_in_word_broadword");
        let g = vh::select_in_word_broadword(w, k);
        if g != e {
            rep.fail(&sel_sig("select_in_word_broadword", k, pop), 0, || json!({"kind":"word","word":format!("{w:016x}"),"k":k,"got":g,"exp":e}));
        }
        calls += 3;
        if has_pdep {
            api("select_in_word_pdep");
            let g = vh::select_in_word_pdep(w, k).unwrap();
            if g != e {
                rep.fail(&sel_sig("select_in_word_pdep", k, pop), 0, || json!({"kind":"word","word":format!("{w:016x}"),"k":k,"got":g,"exp":e}));
            }
            calls += 1;
        }
    }
    api("popcount_word");
    if popcount_word(w) != pop {
        rep.fail("popcount_word:mismatch", 0, case);
    }
    api("popcount_word_portable");
    if popcount_word_portable(w) != pop {
        rep.fail("popcount_word_portable:mismatch", 0, case);
    }
    api("popcount_words");
    if popcount_words(&[w]) != pop as usize {
        rep.fail("popcount_words:single-word:mismatch", 0, case);
    }
    calls += 3;
    // unmatched close: first position where the running excess (open +1, close -1) goes below 0
    let mut e = 0i32;
    let mut um = 64u32;
    for b in 0..64 {
        e += if (w >> b) & 1 == 1 { 1 } else { -1 };
        if e < 0 {
            um = b;
            break;
        }
    }
    api("find_unmatched_close_in_word");
    let g = find_unmatched_close_in_word(w);
    if g != um {
        rep.fail("find_unmatched_close_in_word:mismatch", 0, || json!({"kind":"word","word":format!("{w:016x}"),"got":g,"exp":um}));
    }
    calls += 1;
    api("find_close_in_word");
    for p in (0..=64u32).chain(P_EXTREME) {
        // documented: None for p >= 64; a close "matches itself"; an open is matched by the first later
        // position where the excess (1 after the open) returns to 0, None when that is past bit 63
        let (ex, class): (Option<u32>, &str) = if p >= 64 {
            (None, "p>=64:not-none")
        } else if (w >> p) & 1 == 0 {
            (Some(p), "close:not-self")
        } else {
            let mut e = 1i32;
            let mut r = None;
            for q in p + 1..64 {
                e += if (w >> q) & 1 == 1 { 1 } else { -1 };
                if e == 0 {
                    r = Some(q);
                    break;
                }
            }
            (r, if r.is_some() { "open:matched-in-word:wrong" } else { "open:no-match-in-word:not-none" })
        };
        let g = find_close_in_word(w, p);
        if g != ex {
            rep.fail(&format!("find_close_in_word:{class}"), 0, || {
                json!({"kind":"word","word":format!("{w:016x}"),"p":p,"got":format!("{g:?}"),"exp":format!("{ex:?}")})
            });
        }
        calls += 1;
    }
    rep.trans(calls);
    if pop > 0 && pop < 64 {
        rep.distinct(&w);
    }
}

fn check_word_guarded(w: u64, rep: &mut Report) {
    rep.input();
    if let Err(m) = catch(|| check_word(w, rep)) {
        if m.starts_with("oracle self-test") {
            panic!("{m}");
        }
        let a = CUR_API.with(|c| c.get());
        rep.fail(&format!("PANIC:{a}"), 0, || json!({"kind":"word","word":format!("{w:016x}"),"panic":m}));
    }
}

fn check_bytes(rep: &mut Report) {
    rep.space("select_in_byte");
    for b in 0..=255u8 {
        rep.input();
        let mut pos = [8u32; 9];
        let mut pop = 0usize;
        for i in 0..8 {
            if (b >> i) & 1 == 1 {
                pos[pop] = i;
                pop += 1;
            }
        }
        for k in (0..=8u32).chain([9, 63, 64, u32::MAX]) {
            let e = if (k as usize) < pop { pos[k as usize] } else { 8 };
            rep.trans(1);
            match catch(|| vh::select_in_byte(b, k)) {
                Ok(g) if g == e => {}
                Ok(g) => rep.fail(
                    if (k as usize) < pop { "select_in_byte:k<popcount:wrong-position" } else { "select_in_byte:k>=popcount:not-8" },
                    0,
                    || json!({"kind":"byte","byte":b,"k":k,"got":g,"exp":e}),
                ),
                Err(m) => rep.fail("PANIC:select_in_byte", 0, || json!({"kind":"byte","byte":b,"k":k,"panic":m})),
            }
        }
        if b != 0 {
            rep.distinct(&("byte", b));
        }
    }
    rep.mark_exhaustive("select_in_byte", "all 256 byte values x k in 0..=8 and {9,63,64,u32::MAX}: complete");
}

fn check_block(b: &[u64; 8], rep: &mut Report) {
    rep.input();
    let mut exp = 0usize;
    for w in b.iter() {
        exp += count_bits(*w) as usize;
    }
    let case = || json!({"kind":"block","words":words_json(b)});
    let r = catch(|| (block_popcount_portable(b), vh::block_popcount(b), vh::block_popcount_avx2(b), popcount_words(b)));
    match r {
        Err(m) => rep.fail("PANIC:block_popcount", 0, || json!({"kind":"block","words":words_json(b),"panic":m})),
        Ok((p, d, a, s)) => {
            rep.trans(3);
            if p != exp {
                rep.fail("block_popcount_portable:mismatch", 0, case);
            }
            if d != exp {
                rep.fail("block_popcount(dispatch):mismatch", 0, case);
            }
            if s != exp {
                rep.fail("popcount_words:8-word-block:mismatch", 0, case);
            }
            if let Some(a) = a {
                rep.trans(1);
                if a != exp {
                    rep.fail("block_popcount_avx2:mismatch", 0, case);
                }
            }
        }
    }
    if exp > 0 && exp < 512 {
        rep.distinct(&("block", b));
    }
}

fn check_slice(s: &[u64], rep: &mut Report) {
    rep.input();
    let mut exp = 0usize;
    for w in s {
        exp += count_bits(*w) as usize;
    }
    rep.trans(1);
    match catch(|| popcount_words(s)) {
        Ok(g) if g == exp => {}
        Ok(g) => rep.fail("popcount_words:mismatch", s.len(), || json!({"kind":"slice","words":words_json(s),"got":g,"exp":exp})),
        Err(m) => rep.fail("PANIC:popcount_words", s.len(), || json!({"kind":"slice","words":words_json(s),"panic":m})),
    }
    if exp > 0 {
        rep.distinct(&("slice", s));
    }
}

// --------------------------------------------------------------- explore --

fn run_words(ctx: &Ctx, rep: &mut Report, name: &str, words: Vec<u64>, note: &str) {
    let r = par_range_in(ctx, name, words.len() as u64, 2048, |i, rep| {
        check_word_guarded(words[i as usize], rep);
        if i == (words.len() as u64) / 3 {
            let w = words[i as usize];
            rep.sample(|| json!({"space": name, "word": format!("{w:016x}"), "select_k": "0..=64 and {65,127,128,255,u32::MAX} on every path", "paren_start": "0..=64 and {65,127,128,u32::MAX}"}));
        }
    });
    rep.merge(r);
    rep.mark_exhaustive(name, &format!("{note}: {} distinct words, each x every k / every start bit", words.len()));
}

fn explore(ctx: &Ctx, rep: &mut Report) {
    let q = ctx.quick();
    // dispatch paths present on this host
    rep.path("select_in_word:dispatch");
    rep.path("select_in_word:ctz");
    rep.path("select_in_word:broadword");
    rep.path("select_in_byte:table");
    if vh::select_in_word_pdep(1, 0).is_some() {
        rep.path("select_in_word:pdep(bmi2)");
    } else {
        rep.notes.push("select_in_word_pdep NOT exercised: host has no BMI2".into());
    }
    rep.path("block_popcount:portable");
    rep.path("block_popcount:dispatch");
    if vh::block_popcount_avx2(&[0u64; 8]).is_some() {
        rep.path("block_popcount:avx2");
    } else {
        rep.notes.push("block_popcount_avx2 NOT exercised: host has no AVX2".into());
    }
    rep.path(if cfg!(feature = "portable-popcount") {
        "popcount_word(s):portable-popcount"
    } else if cfg!(feature = "simd") {
        "popcount_word(s):simd"
    } else {
        "popcount_word(s):default"
    });
    if cfg!(feature = "simd") && !cfg!(feature = "portable-popcount") {
        #[cfg(target_arch = "x86_64")]
        {
            if std::arch::is_x86_feature_detected!("avx512vpopcntdq") {
                rep.path("popcount_words:avx512vpopcntdq");
            } else {
                rep.notes.push("popcount_words AVX-512 VPOPCNTDQ kernel NOT exercised: host lacks avx512vpopcntdq (scalar POPCNT fallback ran)".into());
            }
        }
    }
    rep.notes.push("NEON / SVE2-BITPERM kernels NOT exercised: x86-64 host".into());

    check_bytes(rep);

    // the select kernels are the same code in every feature build; the widest space runs once, in the default build
    let maxpop = if q { 3 } else if cfg!(any(feature = "simd", feature = "portable-popcount")) { 4 } else { 5 };
    run_words(ctx, rep, "words/low-popcount", words_lowpop(maxpop), &format!("all words with popcount <= {maxpop} and their complements"));
    let bgs16: &[u16] = if q { &[0, 0xFFFF, 0xAAAA] } else { &[0, 0xFFFF, 0xAAAA, 0x5555, 0x00FF, 0x8001] };
    run_words(
        ctx,
        rep,
        "words/16-bit-lanes",
        words_lanes16(bgs16, true, !q),
        &format!("every 16-bit pattern in each of 4 lanes; other lanes = each of {bgs16:04x?}, the pattern itself{}", if q { "" } else { ", its complement" }),
    );
    run_words(
        ctx,
        rep,
        "words/byte-lanes",
        words_bytes(&[0, u64::MAX, 0xAAAA_AAAA_AAAA_AAAA, 0x5555_5555_5555_5555, 0x0101_0101_0101_0101, 0x8080_8080_8080_8080, 0x0F0F_0F0F_0F0F_0F0F]),
        "every byte value in each of 8 byte lanes over 7 backgrounds",
    );
    let maxruns = ctx.pick(4, 5);
    run_words(ctx, rep, "words/runs", words_runs(maxruns), &format!("all words made of <= {maxruns} runs of equal bits"));

    let mut blocks = blocks_bytes();
    let nb1 = blocks.len();
    let kb = ctx.pick(3, 4);
    blocks.extend(blocks_w8(kb));
    let r = par_range_in(ctx, "blocks", blocks.len() as u64, 1024, |i, rep| {
        check_block(&blocks[i as usize], rep);
        if i == 12345 {
            rep.sample(|| json!({"space":"blocks","block":words_json(&blocks[i as usize])}));
        }
    });
    rep.merge(r);
    rep.mark_exhaustive(
        "blocks",
        &format!("{nb1} blocks = every byte value at each of the 64 byte positions over 5 backgrounds; {} blocks = every filler in W8 with <= {kb} words replaced by every other W8 word", blocks.len() - nb1),
    );

    let sl = slices();
    let r = par_range_in(ctx, "popcount_words/slices", sl.len() as u64, 256, |i, rep| check_slice(&sl[i as usize], rep));
    rep.merge(r);
    rep.mark_exhaustive("popcount_words/slices", "all slices of length 0..=3 over W8; special word s at position p in filler f for lengths 4..65 around multiples of 8 (all p, s, f in W8)");

    rep.extra.insert("k_alphabet".into(), json!("0..=64 plus 65,127,128,255,u32::MAX"));
    rep.extra.insert("start_bit_alphabet".into(), json!("0..=64 plus 65,127,128,u32::MAX"));
    rep.extra.insert("W8".into(), json!(W8.iter().map(|w| format!("{w:016x}")).collect::<Vec<_>>()));
}

fn replay(case: &Value, rep: &mut Report) {
    match case["kind"].as_str().unwrap_or("word") {
        "word" => {
            let w = u64::from_str_radix(case["word"].as_str().unwrap(), 16).unwrap();
            check_word_guarded(w, rep);
        }
        "byte" => check_bytes(rep),
        "block" => {
            let v = words_from_json(&case["words"]);
            let mut b = [0u64; 8];
            b.copy_from_slice(&v[..8]);
            check_block(&b, rep);
        }
        "slice" => check_slice(&words_from_json(&case["words"]), rep),
        k => panic!("unknown case kind {k}"),
    }
}

fn main() {
    drive("C02", explore, replay);
}
