//! C01 — BitVec access / rank / select are exact.
//!
//! S2: every vector of <= 3 (quick) / 4 (thorough) words over the word alphabet W8,
//! every `len` for <= 2 words and every word-boundary len ±{0,1,2,7} beyond, each as
//! given (raw), clean, with all bits >= len set (stray bits), and with 1–2 surplus
//! u64::MAX words. S3: block families (special word at every position of a filler
//! run, sizes around the 8-word scan block / 512-bit rank block) and sparse families
//! (one-carrying words separated by all-zero gaps that cross several scan blocks).
//! Every vector x every select sample rate x EVERY query argument, including the
//! out-of-range ones. S5: the binary is built three times (default / simd /
//! portable-popcount). The free `scan_select`, `scan_select_scalar`, `select_from`
//! are driven directly from every start word.
//!
//! Oracle: the first `len` bits of the raw words, read one at a time; prefix sums and
//! position lists built by that single scan.
#[path = "../bitmodel.rs"]
mod bitmodel;

use bitmodel::*;
use engine::gen::{RATES, W8};
use engine::*;
use serde_json::{json, Value};
use std::cell::Cell;
use succinctly::bits::{scan_select, scan_select_scalar, select_from};
use succinctly::{BitVec, Config, RankSelect};

#[derive(Clone)]
struct Input {
    fam: &'static str,
    words: Vec<u64>,
    len: usize,
}

thread_local! {
    static CUR_OP: Cell<&'static str> = const { Cell::new("?") };
}
fn op(name: &'static str) {
    CUR_OP.with(|c| c.set(name));
}

/// Structural feature of the input named in signatures.
fn feature(words: &[u64], len: usize) -> &'static str {
    if words.len() > len.div_ceil(64) {
        ":surplus-words"
    } else if has_stray(words, len) {
        ":stray-bits"
    } else {
        ""
    }
}

fn case_bv(words: &[u64], len: usize, rate: Option<u32>) -> Value {
    json!({"kind":"bitvec","words":words_json(words),"len":len,"rate":rate})
}

/// One BitVec (one constructor / sample rate) against the model, every query argument.
fn check_bitvec(words: &[u64], len: usize, rate: Option<u32>, m: &Ranks, full_panic_probe: bool, rep: &mut Report) {
    let feat = feature(words, len);
    let size = len * 16 + words.len();
    let r = catch(|| {
        op("construct");
        let bv = match rate {
            Some(r) => BitVec::with_config(words.to_vec(), len, Config { select_sample_rate: r }),
            None => BitVec::from_words(words.to_vec(), len),
        };
        let mut calls = 0u64;
        let n1 = m.ones.len();
        let n0 = m.zeros.len();
        macro_rules! bad {
            ($sig:expr, $($k:tt : $v:expr),*) => {
                rep.fail(&format!("{}{}", $sig, feat), size, || {
                    let mut c = case_bv(words, len, rate);
                    $( c[$k] = json!($v); )*
                    c
                })
            };
        }
        op("len");
        if bv.len() != len {
            bad!("len:mismatch", "got": bv.len());
        }
        if bv.is_empty() != (len == 0) {
            bad!("is_empty:mismatch", "got": bv.is_empty());
        }
        op("count_ones");
        if bv.count_ones() != n1 {
            bad!("count_ones:mismatch", "got": bv.count_ones(), "exp": n1);
        }
        op("count_zeros");
        if bv.count_zeros() != n0 {
            bad!("count_zeros:mismatch", "got": bv.count_zeros(), "exp": n0);
        }
        calls += 4;
        op("get");
        for i in 0..len {
            if bv.get(i) != (m.bits[i] == 1) {
                bad!("get:wrong-bit", "i": i);
            }
        }
        calls += len as u64;
        op("rank1");
        for i in (0..=len + 2).chain([len + 63, len + 64, len + 65, usize::MAX - 1, usize::MAX]) {
            let g = bv.rank1(i);
            if g != m.rank1(i) {
                bad!(if i <= len { "rank1:i<=len:mismatch" } else { "rank1:i>len:not-count_ones" }, "i": i as u64, "got": g, "exp": m.rank1(i));
            }
        }
        op("rank0");
        for i in (0..=len + 2).chain([len + 63, len + 64, len + 65, usize::MAX - 1, usize::MAX]) {
            let g = bv.rank0(i);
            if g != m.rank0(i) {
                bad!(if i <= len { "rank0:i<=len:mismatch" } else { "rank0:i>len:not-count_zeros" }, "i": i as u64, "got": g, "exp": m.rank0(i));
            }
        }
        calls += 2 * (len as u64 + 8);
        op("select1");
        for k in (0..=n1 + 2).chain([n1 + 64, usize::MAX - 1, usize::MAX]) {
            let g = bv.select1(k);
            let e = m.select1(k);
            if g != e {
                let s = match (g, e) {
                    (Some(_), Some(_)) => "select1:k<count:wrong-position",
                    (None, Some(_)) => "select1:k<count:none",
                    _ => "select1:k>=count:some",
                };
                bad!(s, "k": k as u64, "got": format!("{g:?}"), "exp": format!("{e:?}"));
            }
        }
        op("select0");
        for k in (0..=n0 + 2).chain([n0 + 64, usize::MAX - 1, usize::MAX]) {
            let g = bv.select0(k);
            let e = m.select0(k);
            if g != e {
                let s = match (g, e) {
                    (Some(_), Some(_)) => "select0:k<count:wrong-position",
                    (None, Some(_)) => "select0:k<count:none",
                    _ => "select0:k>=count:some",
                };
                bad!(s, "k": k as u64, "got": format!("{g:?}"), "exp": format!("{e:?}"));
            }
        }
        calls += (n1 + n0) as u64 + 12;
        (bv, calls)
    });
    match r {
        Ok((bv, calls)) => {
            rep.trans(calls);
            if full_panic_probe {
                // documented: get(i) panics for i >= len
                for i in [len, len + 1, words.len() * 64, usize::MAX] {
                    rep.trans(1);
                    if catch(|| bv.get(i)).is_ok() {
                        rep.fail(&format!("get:i>=len:no-panic{feat}"), size, || {
                            let mut c = case_bv(words, len, rate);
                            c["i"] = json!(i as u64);
                            c
                        });
                    }
                }
            }
        }
        Err(msg) => {
            let o = CUR_OP.with(|c| c.get());
            rep.fail(&format!("PANIC:{o}{feat}"), size, || {
                let mut c = case_bv(words, len, rate);
                c["panic"] = json!(msg);
                c
            });
        }
    }
}

fn rates_for(inp: &Input, quick: bool) -> Vec<Option<u32>> {
    let mut v: Vec<Option<u32>> = vec![None];
    if inp.words.len() <= 4 || inp.fam == "sparse" {
        v.extend(RATES.iter().map(|&r| Some(r)));
    } else if quick {
        v.extend([1u32, 3, 64, 256].map(Some));
    } else {
        v.extend([0u32, 1, 3, 64, 65, 256, 4096].map(Some));
    }
    v
}

fn check_input(inp: &Input, quick: bool, rep: &mut Report) {
    rep.space(&format!("bitvec/{}", inp.fam));
    rep.input();
    let m = Ranks::new(&inp.words, inp.len);
    // oracle self-test against an independent source (core's popcount of the masked words), machinery error on mismatch
    {
        let mut c = 0usize;
        for (wi, w) in inp.words.iter().enumerate() {
            let lo = wi * 64;
            if lo >= inp.len {
                break;
            }
            let valid = (inp.len - lo).min(64);
            let mw = if valid == 64 { *w } else { w & ((1u64 << valid) - 1) };
            c += mw.count_ones() as usize;
        }
        assert_eq!(c, m.ones.len(), "oracle self-test: ones count");
        assert_eq!(m.ones.len() + m.zeros.len(), inp.len, "oracle self-test: partition");
    }
    if !m.ones.is_empty() && !m.zeros.is_empty() {
        rep.distinct(&(inp.len, &m.bits, feature(&inp.words, inp.len)));
    }
    if inp.len == 0 && inp.words.is_empty() {
        // BitVec::new() / Default: the empty vector
        for bv in [BitVec::new(), BitVec::default()] {
            rep.trans(8);
            let ok = bv.len() == 0 && bv.is_empty() && bv.count_ones() == 0 && bv.count_zeros() == 0 && bv.rank1(0) == 0 && bv.rank1(usize::MAX) == 0 && bv.rank0(5) == 0
                && bv.select1(0).is_none() && bv.select0(0).is_none() && bv.select1(usize::MAX).is_none() && catch(|| bv.get(0)).is_err();
            if !ok {
                rep.fail("new():not-empty-vector", 0, || json!({"kind":"bitvec","words":[],"len":0,"rate":null}));
            }
        }
    }
    for (ri, rate) in rates_for(inp, quick).into_iter().enumerate() {
        check_bitvec(&inp.words, inp.len, rate, &m, ri == 0, rep);
    }
}

// ---- free scan functions ----

fn check_scan(words: &[u64], fam: &'static str, rep: &mut Report) {
    rep.space(&format!("scan/{fam}"));
    rep.input();
    let n = words.len();
    let m = Ranks::new(words, n * 64);
    let total = m.ones.len();
    let starts: Vec<usize> = if n <= 40 {
        (0..=n + 1).collect()
    } else {
        let mut v: Vec<usize> = (0..=17).collect();
        let mut b = 24;
        while b <= n + 8 {
            v.extend(gen::boundary(b));
            b += 8;
        }
        v.extend([n.saturating_sub(2), n.saturating_sub(1), n, n + 1]);
        v.retain(|&s| s <= n + 1);
        v.sort_unstable();
        v.dedup();
        v
    };
    let size = n;
    for &s in &starts {
        let before = if s >= n { total } else { m.pre[s * 64] as usize };
        let avail = total - before;
        let mut rems: Vec<usize> = Vec::new();
        if avail <= 160 {
            rems.extend(0..=avail + 1);
        } else {
            // for every word w >= s: the first and last one of w, and one before/after
            for w in s..n {
                let cb = m.pre[w * 64] as usize - before;
                let ce = m.pre[(w + 1) * 64] as usize - before;
                rems.extend([cb.wrapping_sub(1), cb, cb + 1, ce.wrapping_sub(2), ce.wrapping_sub(1)]);
            }
            rems.extend([0, 1, avail - 1, avail, avail + 1]);
            rems.retain(|&r| r <= avail + 1);
            rems.sort_unstable();
            rems.dedup();
        }
        rems.extend([usize::MAX - 1, usize::MAX]);
        for &rem in &rems {
            let target = if s < n { before.checked_add(rem).and_then(|k| m.ones.get(k)).map(|&p| p as usize) } else { None };
            let exp = target.map(|p| (p / 64, (m.pre[p] - m.pre[(p / 64) * 64]) as usize));
            let case = || json!({"kind":"scan","words":words_json(words),"start_word":s,"remaining":rem as u64});
            rep.trans(3);
            match catch(|| (scan_select(words, s, rem), scan_select_scalar(words, s, rem), select_from(words, s, rem))) {
                Err(msg) => rep.fail("PANIC:scan_select", size, || {
                    let mut c = case();
                    c["panic"] = json!(msg);
                    c
                }),
                Ok((a, b, c)) => {
                    if a != exp {
                        let sig = match (a, exp) {
                            (Some(_), Some(_)) => "scan_select:wrong-word-or-rank",
                            (None, Some(_)) => "scan_select:none-though-enough-ones",
                            _ => "scan_select:some-though-too-few-ones",
                        };
                        rep.fail(sig, size, || {
                            let mut c = case();
                            c["got"] = json!(format!("{a:?}"));
                            c["exp"] = json!(format!("{exp:?}"));
                            c
                        });
                    }
                    if b != exp {
                        rep.fail("scan_select_scalar:mismatch", size, || {
                            let mut c = case();
                            c["got"] = json!(format!("{b:?}"));
                            c["exp"] = json!(format!("{exp:?}"));
                            c
                        });
                    }
                    if c != target {
                        rep.fail("select_from:mismatch", size, || {
                            let mut cc = case();
                            cc["got"] = json!(format!("{c:?}"));
                            cc["exp"] = json!(format!("{target:?}"));
                            cc
                        });
                    }
                }
            }
        }
    }
    if total > 0 {
        rep.distinct(&("scan", words));
    }
}

// ---------------------------------------------------------------- spaces --

fn push_variants(out: &mut Vec<Input>, fam: &'static str, c: &[u64], len: usize) {
    let mut vs: Vec<Vec<u64>> = Vec::with_capacity(5);
    vs.push(c.to_vec()); // raw: as given (strays / surplus words are whatever the content has)
    let mut clean = c.to_vec();
    clean_to_len(&mut clean, len);
    let mut dirty = clean.clone();
    dirty_tail(&mut dirty, len);
    let mut s1 = dirty.clone();
    s1.push(u64::MAX);
    let mut s2 = s1.clone();
    s2.push(u64::MAX);
    vs.push(clean);
    vs.push(dirty);
    vs.push(s1);
    vs.push(s2);
    for i in 0..vs.len() {
        if vs[..i].contains(&vs[i]) {
            continue;
        }
        out.push(Input { fam, words: vs[i].clone(), len });
    }
}

fn small_inputs(maxwords: usize) -> Vec<Input> {
    let mut out = Vec::new();
    for c in gen::sequences(&W8, maxwords) {
        let n = c.len();
        let cap = 64 * n;
        let lens: Vec<usize> = if n <= 2 {
            (0..=cap).collect()
        } else {
            // every word boundary ±{0,1,2,7} inside the last two words (earlier boundaries are the same
            // situation one word shorter, with one more surplus content word)
            let mut v = Vec::new();
            for b in (0..=n).map(|k| 64 * k) {
                for d in [-7i64, -2, -1, 0, 1, 2, 7] {
                    let x = b as i64 + d;
                    if x > (64 * (n - 2)) as i64 && x <= cap as i64 {
                        v.push(x as usize);
                    }
                }
            }
            v.sort_unstable();
            v.dedup();
            v
        };
        for len in lens {
            push_variants(&mut out, if n <= 2 { "small<=2w" } else { "small>2w" }, &c, len);
        }
    }
    out
}

fn block_inputs(quick: bool) -> Vec<Input> {
    let sizes: &[usize] = if quick { &[7, 8, 9, 15, 16, 17, 24, 25, 33] } else { &[7, 8, 9, 15, 16, 17, 24, 25, 33, 65, 128, 129] };
    let mut out = Vec::new();
    for &n in sizes {
        for f in [0u64, u64::MAX, 0xAAAA_AAAA_AAAA_AAAA] {
            for p in 0..n {
                for &s in W8.iter() {
                    if s == f && p > 0 {
                        continue;
                    }
                    let mut w = vec![f; n];
                    w[p] = s;
                    for len in [64 * n, 64 * n - 1, 64 * n - 65] {
                        out.push(Input { fam: "block", words: w.clone(), len });
                    }
                }
            }
        }
    }
    out
}

const GAPS_T: [usize; 12] = [0, 1, 7, 8, 9, 15, 16, 17, 24, 31, 32, 33];
const GAPS_Q: [usize; 7] = [0, 1, 7, 8, 9, 16, 17];

fn sparse_inputs(quick: bool) -> Vec<Input> {
    let gaps: &[usize] = if quick { &GAPS_Q } else { &GAPS_T };
    let carriers: [[u64; 4]; 4] = [
        [1, 1, 1, 1],
        [1 << 63, 1 << 63, 1 << 63, 1 << 63],
        [0x8000_0000_0000_0001; 4],
        [1 << 63, 1, 0x8000_0000_0000_0001, 3],
    ];
    let leads: &[usize] = if quick { &[0] } else { &[0, 9] };
    let mut out = Vec::new();
    for car in carriers.iter() {
        for &lead in leads {
            for &g1 in gaps {
                for &g2 in gaps {
                    for &g3 in gaps {
                        let mut w = vec![0u64; lead];
                        w.push(car[0]);
                        w.extend(std::iter::repeat(0).take(g1));
                        w.push(car[1]);
                        w.extend(std::iter::repeat(0).take(g2));
                        w.push(car[2]);
                        w.extend(std::iter::repeat(0).take(g3));
                        w.push(car[3]);
                        let len = w.len() * 64;
                        out.push(Input { fam: "sparse", words: w, len });
                    }
                }
            }
        }
    }
    out
}

// --------------------------------------------------------------- explore --

fn explore(ctx: &Ctx, rep: &mut Report) {
    let q = ctx.quick();
    rep.path(if cfg!(feature = "portable-popcount") {
        "popcount:portable-popcount"
    } else if cfg!(feature = "simd") {
        "popcount:simd"
    } else {
        "popcount:default"
    });
    if cfg!(feature = "simd") && !cfg!(feature = "portable-popcount") {
        #[cfg(target_arch = "x86_64")]
        {
            if std::arch::is_x86_feature_detected!("avx512vpopcntdq") {
                rep.path("popcount_words:avx512vpopcntdq");
            } else {
                rep.notes.push("simd build: AVX-512 VPOPCNTDQ kernel of popcount_words NOT exercised (host lacks it); the scalar POPCNT fallback ran".into());
            }
        }
    }
    #[cfg(target_arch = "x86_64")]
    {
        rep.path(if std::arch::is_x86_feature_detected!("avx2") { "scan_select:block_popcount:avx2" } else { "scan_select:block_popcount:portable" });
        rep.path(if std::arch::is_x86_feature_detected!("bmi2") { "select_in_word:bmi2-present(dispatcher decides pdep/ctz)" } else { "select_in_word:ctz" });
    }
    let maxw = ctx.pick(3, 4);
    let small = small_inputs(maxw);
    let blocks = block_inputs(q);
    let sparse = sparse_inputs(q);
    let r = par_range(ctx, small.len() as u64, 64, |i, rep| {
        check_input(&small[i as usize], q, rep);
        if i % 50_021 == 777 {
            let inp = &small[i as usize];
            rep.sample(|| json!({"family": inp.fam, "words": words_json(&inp.words), "len": inp.len, "rates": "from_words + every rate of R", "queries": "get all i<len (+panic beyond); rank1/0 all i<=len+2 and len+63..65, usize::MAX-1, usize::MAX; select1/0 all k<=count+2, count+64, usize::MAX-1, usize::MAX"}));
        }
    });
    rep.merge(r);
    let r = par_range(ctx, blocks.len() as u64, 4, |i, rep| {
        check_input(&blocks[i as usize], q, rep);
        if i % 3 == 0 {
            // every third (the `len = cap` instance of each word vector): drive the free scan functions on the raw words
            check_scan(&blocks[i as usize].words, "block", rep);
        }
        if i == 4000 {
            let inp = &blocks[i as usize];
            rep.sample(|| json!({"family": inp.fam, "words": words_json(&inp.words), "len": inp.len}));
        }
    });
    rep.merge(r);
    let r = par_range(ctx, sparse.len() as u64, 2, |i, rep| {
        check_input(&sparse[i as usize], q, rep);
        check_scan(&sparse[i as usize].words, "sparse", rep);
        if i == 700 {
            let inp = &sparse[i as usize];
            rep.sample(|| json!({"family": inp.fam, "words": words_json(&inp.words), "len": inp.len}));
        }
    });
    rep.merge(r);
    // free scan functions on every short word vector over W8
    let shorts = gen::sequences(&W8, 3);
    let r = par_range(ctx, shorts.len() as u64, 16, |i, rep| check_scan(&shorts[i as usize], "small", rep));
    rep.merge(r);

    let rates_small = format!("from_words + {RATES:?}");
    rep.mark_exhaustive("bitvec/small<=2w", &format!("all vectors of <= 2 words over W8 x every len 0..=64n x {{raw, clean, stray bits, +1 and +2 surplus MAX words}} x {rates_small} x every query"));
    rep.mark_exhaustive("bitvec/small>2w", &format!("all vectors of 3..={maxw} words over W8 x every word-boundary len ±{{0,1,2,7}} in the last two words x the same 5 storage variants x {rates_small} x every query"));
    rep.mark_exhaustive(
        "bitvec/block",
        &format!(
            "special word s at position p in filler f, all p, s in W8, f in {{0, MAX, 0xAAAA..}}, sizes {} words, len in {{cap, cap-1, cap-65}} x from_words + rates {} x every query",
            if q { "7,8,9,15,16,17,24,25,33" } else { "7,8,9,15,16,17,24,25,33,65,128,129" },
            if q { "1,3,64,256" } else { "0,1,3,64,65,256,4096" }
        ),
    );
    rep.mark_exhaustive(
        "bitvec/sparse",
        &format!("4 one-carrying words (4 carrier choices) separated by all-zero gaps, every gap triple over {:?}, leading gap in {:?}, x {rates_small} x every query", if q { &GAPS_Q[..] } else { &GAPS_T[..] }, if q { &[0usize][..] } else { &[0usize, 9][..] }),
    );
    for k in ["scan/block", "scan/sparse", "scan/small"] {
        rep.mark_exhaustive(k, "scan_select / scan_select_scalar / select_from from every start word (long vectors: 0..=17, every multiple of 8 ±2, n-2..=n+1) x every remaining (more than 160 ones: first/last one of every later word ±1, total ±1) plus usize::MAX-1, usize::MAX");
    }
    rep.extra.insert("W8".into(), json!(W8.iter().map(|w| format!("{w:016x}")).collect::<Vec<_>>()));
    rep.extra.insert("rates_R".into(), json!(RATES));
}

fn replay(case: &Value, rep: &mut Report) {
    let words = words_from_json(&case["words"]);
    match case["kind"].as_str().unwrap_or("bitvec") {
        "bitvec" => {
            let len = usize_from(&case["len"]);
            let rate = case["rate"].as_u64().map(|r| r as u32);
            let m = Ranks::new(&words, len);
            check_bitvec(&words, len, rate, &m, true, rep);
        }
        "scan" => check_scan(&words, "replay", rep),
        k => panic!("unknown case kind {k}"),
    }
}

fn main() {
    drive("C01", explore, replay);
}
