//! C14 — YAML loading reproduces the value of every well-formed document of the generated
//! presentation space (S2).
//!
//! Space: `ygen::plan` — trees of mappings / sequences / string / int / bool / null leaves,
//! every presentation choice made independently at every node (block / flow / multi-line
//! flow collections; plain / single / double / multi-line quoted / literal / folded scalars;
//! plain / quoted / explicit keys; comments; blank lines; indentation 1/2/4; LF / CRLF / CR;
//! `---` / `...`; streams of 2-3 documents; `&anchor` + `*alias`).
//! Oracle: the tree. Observations per document: `YamlIndex::build` succeeds;
//! `root().to_json_document()` parses (serde_json) to exactly the tree's JSON (key order
//! included); `stream_json_document` (compact) parses to the same; a walk through
//! `value()` / fields / elements / `YamlString::as_str` / alias targets rebuilds the same tree.
use engine::*;
use serde_json::{json, Value};
use std::io::Write;
use std::sync::Mutex;
use succinctly::jq::document::IndentSpec;
use succinctly::yaml::{resolve_plain, ResolvedScalar, YamlCursor, YamlIndex, YamlValue};

#[path = "../ygen.rs"]
mod ygen;
use ygen::{Brk, Mark, Step, Style};

/// Rebuild a JSON value by walking the public cursor API.
fn walk(c: YamlCursor<'_, Vec<u64>>, depth: usize) -> Result<Value, String> {
    if depth > 64 {
        return Err("depth".into());
    }
    match c.value() {
        YamlValue::Null => Ok(Value::Null),
        YamlValue::String(s) => {
            let t = s.as_str().map_err(|e| format!("as_str:{e:?}"))?;
            if s.is_unquoted() {
                Ok(match resolve_plain(&t) {
                    ResolvedScalar::Null => Value::Null,
                    ResolvedScalar::Bool(b) => Value::Bool(b),
                    ResolvedScalar::Int(i) => Value::from(i),
                    ResolvedScalar::Float(f) => serde_json::Number::from_f64(f).map(Value::Number).unwrap_or(Value::Null),
                    ResolvedScalar::Str => Value::String(t.into_owned()),
                })
            } else {
                Ok(Value::String(t.into_owned()))
            }
        }
        YamlValue::Mapping(fields) => {
            let mut m = serde_json::Map::new();
            for f in fields {
                let k = match f.key() {
                    YamlValue::String(s) => s.as_str().map_err(|e| format!("key as_str:{e:?}"))?.into_owned(),
                    YamlValue::Null => String::new(),
                    _ => return Err("non-scalar key".into()),
                };
                let v = walk(f.value_cursor(), depth + 1)?;
                m.insert(k, v);
            }
            Ok(Value::Object(m))
        }
        YamlValue::Sequence(mut els) => {
            let mut a = Vec::new();
            while let Some((cur, rest)) = els.uncons_cursor() {
                a.push(walk(cur, depth + 1)?);
                els = rest;
            }
            Ok(Value::Array(a))
        }
        YamlValue::Alias { target, .. } => match target {
            Some(t) => walk(t, depth + 1),
            None => Err("unresolved alias".into()),
        },
        YamlValue::Error(e) => Err(format!("error value:{e}")),
    }
}

fn step_json(p: &[Step]) -> Value {
    Value::Array(p.iter().map(|s| match s { Step::Key(k) => Value::String(k.clone()), Step::Idx(i) => Value::from(*i) }).collect())
}

/// Interpret what `to_json_document` printed as the array of documents.
fn as_docs(exp_docs: &Value, got: &Value) -> Value {
    let e = exp_docs.as_array().unwrap();
    if e.len() != 1 {
        return got.clone();
    }
    // a single expected document is printed bare; if several documents were loaded the
    // output is their array — only distinguishable when the expected document is no array
    if got.is_array() && !e[0].is_array() {
        got.clone()
    } else {
        Value::Array(vec![got.clone()])
    }
}

fn col_of(text: &[u8], off: usize) -> usize {
    let ls = text[..off].iter().rposition(|&b| b == b'\n' || b == b'\r').map_or(0, |i| i + 1);
    off - ls
}

/// Signature of a value mismatch: names the kind of disagreement and the presentation style
/// of the node that differs (never the input). `exp` / `got` are arrays of documents.
fn classify(text: &[u8], marks: &[Mark], paths: &[Vec<Step>], exp: &Value, got: &Value, brk: Brk) -> (String, Value) {
    // (a) narrow class: a block scalar that is the ROOT node of a document and whose header
    // starts its own line (no `--- ` before it on that line), with `: ` inside its content,
    // loads correctly but is followed by spurious extra root nodes (the text after the colon).
    if let (Some(e), Some(g)) = (exp.as_array(), got.as_array()) {
        if g.len() > e.len() {
            let qualifies = |d: usize| {
                marks.iter().any(|m| {
                    !m.key && paths[m.pid as usize] == [Step::Idx(d)] && matches!(m.style, Style::Literal | Style::Folded) && col_of(text, m.start as usize) == 0 && e[d].as_str().map_or(false, |s| s.contains(": ") || s.contains(":\n") || s.ends_with(':'))
                })
            };
            let mut j = 0;
            let mut ok = true;
            let mut skipped = 0;
            for d in 0..e.len() {
                if j >= g.len() || g[j] != e[d] {
                    ok = false;
                    break;
                }
                j += 1;
                if qualifies(d) {
                    while j < g.len() && (d + 1 >= e.len() || g[j] != e[d + 1]) && g[j].is_string() {
                        j += 1;
                        skipped += 1;
                    }
                }
            }
            if ok && j == g.len() && skipped > 0 {
                return ("load:root-block-scalar-on-own-line:colon-space-in-content:spurious-extra-node".into(), json!({"extra_nodes": skipped}));
            }
        }
    }
    let d = ygen::first_diff(exp, got, &mut Vec::new()).unwrap_or_default();
    let e = ygen::at_path(exp, &d);
    let g = ygen::at_path(got, &d);
    let mark = marks.iter().find(|m| !m.key && paths[m.pid as usize] == d);
    let style = mark.map(|m| m.style.name()).unwrap_or("collection");
    let (ek, gk) = (e.map(ygen::kind_name).unwrap_or("absent"), g.map(ygen::kind_name).unwrap_or("absent"));
    let detail = json!({"path": step_json(&d), "expected_at_path": e, "got_at_path": g, "style": style});
    // (c) narrow class: block scalar with an explicit indentation indicator on a line that
    // starts with `- ` where the scalar's parent node does not start at the line's indentation
    // (`- - |2`, `- - k: |2`, `-   k: |4`): the loader derives the parent indentation from the
    // first dash of the line, so the content keeps surplus (or loses) leading spaces.
    if let (Some(m), Some(Value::String(es)), Some(Value::String(gs))) = (mark, e, g) {
        let hdr_end = text[m.start as usize..m.end as usize].iter().position(|&b| b == b'\n' || b == b'\r').map_or(m.end as usize, |i| m.start as usize + i);
        let has_digit = text[m.start as usize..hdr_end].iter().any(|b| b.is_ascii_digit());
        if matches!(m.style, Style::Literal | Style::Folded) && has_digit {
            let ls = m.start as usize - col_of(text, m.start as usize);
            let prefix = &text[ls..m.start as usize];
            let li = prefix.iter().take_while(|&&b| b == b' ').count();
            if prefix.get(li) == Some(&b'-') && prefix.get(li + 1) == Some(&b' ') {
                let has_colon = prefix[li + 2..].contains(&b':');
                let assumed = li + if has_colon { 2 } else { 0 };
                let actual = if has_colon {
                    marks.iter().find(|k| k.key && paths[k.pid as usize] == d).map_or(usize::MAX, |k| col_of(text, k.start as usize))
                } else {
                    prefix.iter().rposition(|&b| b == b'-').unwrap_or(0)
                };
                let strip = |s: &str| s.lines().map(|l| l.trim_start_matches(' ').to_string()).collect::<Vec<_>>();
                // with a too-small content indentation, following less-indented lines may be swallowed too
                let (se, sg) = (strip(es), strip(gs));
                if assumed != actual && sg.len() >= se.len() && sg[..se.len()] == se[..] {
                    return ("load:block-scalar-explicit-indent:compact-line:parent-indent-taken-from-first-dash".into(), detail);
                }
            }
        }
    }
    // (b) narrow class: an EMPTY mapping value that is followed, at the same or a smaller
    // indentation, by an entry whose key is QUOTED, loads as that key's string.
    if let (Some(m), Some(Value::Null), Some(Value::String(gs))) = (mark, e, g) {
        if m.style == Style::NullEmpty && matches!(d.last(), Some(Step::Key(_))) {
            let next_key = marks.iter().filter(|k| k.key && k.start >= m.end).min_by_key(|k| k.start);
            if let Some(nk) = next_key {
                let quoted = matches!(nk.style, Style::Double | Style::Single);
                let nk_name = match paths[nk.pid as usize].last() {
                    Some(Step::Key(k)) => k.clone(),
                    _ => String::new(),
                };
                let own_key = marks.iter().filter(|k| k.key && k.end <= m.start).max_by_key(|k| k.start);
                let dedent_or_same = own_key.map_or(false, |ok| col_of(text, nk.start as usize) <= col_of(text, ok.start as usize));
                if quoted && &nk_name == gs && dedent_or_same {
                    return ("load:empty-value-takes-following-quoted-key".into(), detail);
                }
            }
        }
    }
    (format!("load:value-mismatch:{style}:{ek}->{gk}:{}", brk.name()), detail)
}

struct Obs {
    json: Result<Value, String>,
    stream: Result<Value, String>,
    walk: Result<Value, String>,
}

fn observe(text: &[u8]) -> Result<Obs, String> {
    let ix = YamlIndex::build(text).map_err(|e| {
        let d = format!("{e:?}");
        d.split(|c: char| !c.is_alphanumeric()).next().unwrap_or("").to_string()
    })?;
    let root = ix.root(text);
    let j = root.to_json_document();
    let json = serde_json::from_str::<Value>(&j).map_err(|e| format!("{e}: {}", j.chars().take(120).collect::<String>()));
    let mut s = String::new();
    let stream = match root.stream_json_document(&mut s, IndentSpec::COMPACT, false) {
        Ok(()) => serde_json::from_str::<Value>(&s).map_err(|e| format!("{e}: {}", s.chars().take(120).collect::<String>())),
        Err(_) => Err("fmt error".into()),
    };
    // walk: the root is the array of documents
    let walk = walk(root, 0);
    Ok(Obs { json, stream, walk })
}

/// Returns the signature of the first disagreement of `to_json_document` (None when it agrees).
fn check(text: &[u8], marks: &[Mark], paths: &[Vec<Step>], expected: &Value, docs: &Value, brk: Brk, space: &str, rep: &mut Report) -> Option<String> {
    rep.trans(1);
    let size = text.len();
    let case = || json!({"kind":"doc","space":space,"hex":hex(text),"doc":show(text),"expected":expected,"docs":docs,"brk":brk.name(),"marks":ygen::marks_json(marks, paths)});
    let r = catch(|| observe(text));
    let obs = match r {
        Err(p) => {
            rep.fail("PANIC:load", size, || {
                let mut c = case();
                c["panic"] = json!(p);
                c
            });
            return Some("PANIC:load".into());
        }
        Ok(Err(e)) => {
            let st = ygen::style_at(marks, text.len());
            let sig = format!("load:build-error:{e}:last-token={st}:{}", brk.name());
            rep.fail(&sig, size, case);
            return Some(sig);
        }
        Ok(Ok(o)) => o,
    };
    // 1. to_json_document
    let mut sig1: Option<String> = None;
    match &obs.json {
        Err(_) => {
            rep.fail("load:to_json_document:invalid-json", size, case);
            sig1 = Some("load:to_json_document:invalid-json".into());
        }
        Ok(got) => {
            if ygen::first_diff(expected, got, &mut Vec::new()).is_some() {
                let gd = as_docs(docs, got);
                let (sig, detail) = classify(text, marks, paths, docs, &gd, brk);
                rep.fail(&sig, size, || {
                    let mut c = case();
                    c["got"] = got.clone();
                    c["diff"] = detail;
                    c
                });
                sig1 = Some(sig);
            }
        }
    }
    // 2. stream_json_document must agree with the tree as well
    rep.evals(1);
    match &obs.stream {
        Err(_) => rep.fail("load:stream_json_document:invalid-json", size, case),
        Ok(got) => {
            if ygen::first_diff(expected, got, &mut Vec::new()).is_some() {
                let gd = as_docs(docs, got);
                let (sig, detail) = classify(text, marks, paths, docs, &gd, brk);
                // one root cause, one signature: only a DIFFERENT disagreement is reported separately
                if sig1.as_deref() != Some(sig.as_str()) {
                    rep.fail(&format!("stream_json_document/{sig}"), size, || {
                        let mut c = case();
                        c["got"] = got.clone();
                        c["diff"] = detail;
                        c
                    });
                }
            }
        }
    }
    // 3. cursor walk (root = array of documents)
    rep.evals(1);
    match &obs.walk {
        Err(e) => {
            if sig1.is_none() {
                let e = e.split(':').next().unwrap_or("").to_string();
                rep.fail(&format!("walk:error:{e}"), size, case);
            }
        }
        Ok(got) => {
            if ygen::first_diff(docs, got, &mut Vec::new()).is_some() {
                let (sig, detail) = classify(text, marks, paths, docs, got, brk);
                if sig1.as_deref() != Some(sig.as_str()) {
                    rep.fail(&format!("walk/{sig}"), size, || {
                        let mut c = case();
                        c["got"] = got.clone();
                        c["diff"] = detail;
                        c
                    });
                }
            }
        }
    }
    sig1
}

static DUMP: Mutex<Option<std::io::BufWriter<std::fs::File>>> = Mutex::new(None);

fn explore(ctx: &Ctx, rep: &mut Report) {
    let spaces = ygen::plan(ctx.quick());
    let dump_mod: u64 = ctx.arg("--dump-mod").and_then(|s| s.parse().ok()).unwrap_or(0);
    if let Some(p) = ctx.arg("--dump-cases") {
        *DUMP.lock().unwrap() = Some(std::io::BufWriter::new(std::fs::File::create(p).expect("dump file")));
    }
    let r = ygen::explore_plan(ctx, &spaces, |c, rep| {
        rep.input();
        rep.distinct(c.text);
        let lib = check(c.text, c.marks, c.paths, c.expected, c.docs, c.brk, c.space, rep);
        if dump_mod > 0 && h64(c.text) % dump_mod == 0 {
            let line = format!("{}\t{}\t{}\n", hex(c.text), c.docs, lib.as_deref().unwrap_or("-"));
            if let Some(w) = DUMP.lock().unwrap().as_mut() {
                w.write_all(line.as_bytes()).unwrap();
            }
        }
        if h64(c.text) % 2_000_003 == 1 {
            rep.sample(|| json!({"space": c.space, "doc": show(c.text), "expected": c.expected, "break": c.brk.name(), "wrapper": c.wrap.name()}));
        }
    });
    if let Some(w) = DUMP.lock().unwrap().as_mut() {
        w.flush().unwrap();
    }
    rep.merge(r);
    // Scale family: block scalars (literal and folded, >= 3 content lines) at every nesting depth 1..=40 of 2-space
    // block mappings, i.e. content indents 4..82 — beyond the 16 / 32-byte vectors the block-scalar scanner measures
    // indentation with — followed by a sibling at the same level and a top-level key; LF, CRLF and CR.
    let maxd = 40usize;
    let r = par_range_in(ctx, "scale/deep-block-scalars", (maxd as u64) * 2 * 3, 1, |i, rep| {
        let d = 1 + (i / 6) as usize;
        let folded = (i / 3) % 2 == 1;
        let brk = [Brk::Lf, Brk::CrLf, Brk::Cr][(i % 3) as usize];
        let nl = match brk { Brk::Lf => "\n", Brk::CrLf => "\r\n", Brk::Cr => "\r" };
        let mut text = String::new();
        for lvl in 0..d {
            text.push_str(&" ".repeat(2 * lvl));
            text.push_str(&format!("k{lvl}:{nl}"));
        }
        let ind = " ".repeat(2 * d);
        text.push_str(&format!("{ind}text: {}{nl}", if folded { ">-" } else { "|-" }));
        for line in ["first line of text", "second line of text", "third line of text"] {
            text.push_str(&format!("{ind}  {line}{nl}"));
        }
        text.push_str(&format!("{ind}after: 1{nl}tail: some trailing value long enough to fill a chunk{nl}"));
        let scalar = if folded { "first line of text second line of text third line of text" } else { "first line of text\nsecond line of text\nthird line of text" };
        let mut inner = json!({"text": scalar, "after": 1});
        for lvl in (0..d).rev() {
            let mut m = serde_json::Map::new();
            m.insert(format!("k{lvl}"), inner);
            inner = Value::Object(m);
        }
        let mut top = inner.as_object().unwrap().clone();
        top.insert("tail".into(), json!("some trailing value long enough to fill a chunk"));
        let expected = Value::Object(top);
        let docs = json!([expected.clone()]);
        rep.input();
        rep.distinct(&("deep-block-scalar", d, folded, brk.name()));
        check(text.as_bytes(), &[], &[], &expected, &docs, brk, "scale/deep-block-scalars", rep);
    });
    let mut r = r;
    r.mark_exhaustive("scale/deep-block-scalars", "literal and folded block scalars at nesting depth 1..=40 (content indent 4..82) x LF / CRLF / CR");
    rep.merge(r);
    rep.extra.insert("strings".into(), json!(ygen::STRS.to_vec()));
    rep.extra.insert("special_keys".into(), json!(ygen::KEYS.to_vec()));
    rep.extra.insert("observations_per_document".into(), json!(["YamlIndex::build ok", "to_json_document == tree", "stream_json_document == tree", "cursor walk (value/fields/elements/as_str/alias) == tree"]));
}

fn replay(case: &Value, rep: &mut Report) {
    let text = unhex(case["hex"].as_str().unwrap());
    let brk = match case["brk"].as_str().unwrap_or("lf") {
        "crlf" => Brk::CrLf,
        "cr" => Brk::Cr,
        _ => Brk::Lf,
    };
    // rebuild marks / paths
    let mut paths: Vec<Vec<Step>> = Vec::new();
    let mut marks = Vec::new();
    for m in case["marks"].as_array().cloned().unwrap_or_default() {
        let p: Vec<Step> = m["path"].as_array().unwrap().iter().map(|s| if let Some(k) = s.as_str() { Step::Key(k.to_string()) } else { Step::Idx(s.as_u64().unwrap() as usize) }).collect();
        let pid = paths.iter().position(|q| q == &p).unwrap_or_else(|| {
            paths.push(p.clone());
            paths.len() - 1
        });
        let style = [Style::Plain, Style::Single, Style::Double, Style::SingleMultiline, Style::DoubleMultiline, Style::Literal, Style::Folded, Style::IntDec, Style::IntHex, Style::IntOct, Style::Bool, Style::NullWord, Style::NullEmpty]
            .into_iter()
            .find(|s| s.name() == m["style"].as_str().unwrap())
            .unwrap();
        marks.push(Mark { start: m["start"].as_u64().unwrap() as u32, end: m["end"].as_u64().unwrap() as u32, pid: pid as u16, key: m["key"].as_bool().unwrap(), style });
    }
    rep.space("replay");
    rep.input();
    check(&text, &marks, &paths, &case["expected"], &case["docs"], brk, "replay", rep);
}

fn main() {
    drive("C14", explore, replay);
}
