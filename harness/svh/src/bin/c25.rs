//! C25 — jq value identities hold for every value of the bounded grammar.
//!
//! S2 over values x paths, on both evaluators (`jq::eval::<_, JqSemantics>` and
//! `jq::eval_generic::eval_with_cursor`). For every value v of the grammar:
//!   tojson|fromjson == v; to_entries|from_entries == v (objects);
//!   [tostream]|fromstream(.[]) == v (fromstream(tostream) as well);
//!   [paths] == own pre-order path enumeration; for every p in paths:
//!   getpath(p) == own getpath, setpath(p; getpath(p)) == v,
//!   setpath(p; "N"), `<p> = "N"` and `<p> |= "N"` change exactly p (tree diff in
//!   the harness against an own setpath);
//!   sort / unique on arrays: ordered (strictly for unique) under an own
//!   implementation of jq's total order, and a permutation / deduplication.
//! For every string of the string space: @base64|@base64d == s, and @uri decoded by
//! an own percent-decoder == s (the encoded form may only hold unreserved ASCII
//! and %XX).
//! All comparisons are done in the harness on an own JSON value model.
use engine::*;
use serde_json::{json, Value};
use std::cell::RefCell;
use std::cmp::Ordering;
use std::collections::HashMap;
use succinctly::jq::{self, Expr};

#[path = "../jqgen.rs"]
mod jqgen;
use jqgen::{diff, getpath, jq_cmp, parse_json, path_from_v, path_to_expr, path_to_json, paths, run_full_doc, run_generic_doc, setpath, values, veq, Doc, Obs, Path, Term, V};

const EVALUATORS: [&str; 2] = ["full", "generic"];

thread_local! {
    static PROGS: RefCell<HashMap<String, std::rc::Rc<Expr>>> = RefCell::new(HashMap::new());
}

fn prog(text: &str) -> std::rc::Rc<Expr> {
    PROGS.with(|m| {
        let mut m = m.borrow_mut();
        if let Some(e) = m.get(text) {
            return e.clone();
        }
        let e = std::rc::Rc::new(jq::parse(text).unwrap_or_else(|e| panic!("identity program does not parse: {text}: {e:?}")));
        m.insert(text.to_string(), e.clone());
        e
    })
}

fn run(which: usize, d: &Doc, e: &Expr) -> Result<Obs, String> {
    catch(|| if which == 0 { run_full_doc(d, e) } else { run_generic_doc(d, e) })
}

/// Feature of a value for signatures (never the value itself): the root type, plus —
/// only when the value is a scalar — what is special about it. Content features of
/// nested values are deliberately left out: one defect would otherwise be spread over
/// every combination of them (the smallest failing value is kept as the example).
fn feature(v: &V) -> String {
    match v {
        V::Num(f, t) if f.abs() >= 9.007199254740992e15 || t.contains('e') || t.contains('E') => "number(big)".into(),
        V::Str(s) if s.contains('\u{0}') => "string(nul-char)".into(),
        V::Str(s) if !s.is_ascii() => "string(non-ascii)".into(),
        _ => v.type_name().into(),
    }
}

struct Case<'a> {
    fam: &'a str,
    v: &'a V,
    text: &'a str,
}

impl Case<'_> {
    fn json(&self, which: usize, program: &str) -> Value {
        json!({"kind":"identity","family":self.fam,"value":self.text,"program":program,"evaluator":EVALUATORS[which]})
    }
}

/// Run `program` on the case through evaluator `which`; expect exactly one output and a normal end.
/// Returns the parsed output, or reports `<id>:<what>` and returns None.
fn one(c: &Case, d: &Doc, which: usize, id: &str, program: &str, rep: &mut Report) -> Option<V> {
    rep.trans(1);
    let size = c.text.len();
    let ev = EVALUATORS[which];
    match run(which, d, &prog(program)) {
        Err(m) => {
            rep.fail(&format!("{id}:{ev}:panic"), size, || {
                let mut j = c.json(which, program);
                j["panic"] = json!(m);
                j
            });
            None
        }
        Ok(o) => {
            if o.term != Term::End || o.outs.len() != 1 {
                let what = if o.term != Term::End { o.term.kind() } else if o.outs.is_empty() { "no-output" } else { "several-outputs" };
                rep.fail(&format!("{id}:{ev}:{what}:{}", feature(c.v)), size, || {
                    let mut j = c.json(which, program);
                    j["outputs"] = json!(o.outs);
                    j["terminal"] = json!(o.term.show());
                    j
                });
                return None;
            }
            match parse_json(&o.outs[0]) {
                Ok(v) => Some(v),
                Err(e) => {
                    rep.fail(&format!("{id}:{ev}:output-not-json"), size, || {
                        let mut j = c.json(which, program);
                        j["outputs"] = json!(o.outs);
                        j["parse_error"] = json!(e);
                        j
                    });
                    None
                }
            }
        }
    }
}

fn expect_eq(c: &Case, which: usize, id: &str, program: &str, got: &V, exp: &V, rep: &mut Report) {
    if !veq(got, exp) {
        rep.fail(&format!("{id}:{}:value-differs:{}", EVALUATORS[which], feature(c.v)), c.text.len(), || {
            let mut j = c.json(which, program);
            j["got"] = json!(got.to_json());
            j["expected"] = json!(exp.to_json());
            j
        });
    }
}

fn path_feature(p: &Path) -> &'static str {
    match p.last() {
        Some(jqgen::Step::Idx(_)) => "index",
        Some(jqgen::Step::Key(k)) if k.is_empty() => "empty-key",
        Some(jqgen::Step::Key(_)) => "key",
        None => "root",
    }
}

fn check_value(fam: &str, v: &V, rep: &mut Report) {
    let text = v.to_json();
    let d = Doc::new(text.as_bytes());
    let c = Case { fam, v, text: &text };
    rep.input();
    let my_paths = paths(v);
    for which in 0..2 {
        // round trips
        if let Some(g) = one(&c, &d, which, "tojson|fromjson", "tojson|fromjson", rep) {
            expect_eq(&c, which, "tojson|fromjson", "tojson|fromjson", &g, v, rep);
        }
        if let V::Obj(_) = v {
            if let Some(g) = one(&c, &d, which, "to_entries|from_entries", "to_entries|from_entries", rep) {
                expect_eq(&c, which, "to_entries|from_entries", "to_entries|from_entries", &g, v, rep);
            }
        }
        for p in ["[tostream]|fromstream(.[])", "fromstream(tostream)"] {
            if let Some(g) = one(&c, &d, which, "tostream-fromstream", p, rep) {
                expect_eq(&c, which, "tostream-fromstream", p, &g, v, rep);
            }
        }
        // paths
        let Some(ps) = one(&c, &d, which, "paths", "[paths]", rep) else { continue };
        let V::Arr(ps) = ps else { continue };
        let got_paths: Option<Vec<Path>> = ps.iter().map(path_from_v).collect();
        let Some(got_paths) = got_paths else {
            rep.fail(&format!("paths:{}:not-a-path-list", EVALUATORS[which]), text.len(), || c.json(which, "[paths]"));
            continue;
        };
        if got_paths != my_paths {
            let mut a = got_paths.clone();
            let mut b = my_paths.clone();
            a.sort_by_key(|p| path_to_json(p));
            b.sort_by_key(|p| path_to_json(p));
            let what = if a == b { "order" } else { "set" };
            rep.fail(&format!("paths:{}:{what}-differs:{}", EVALUATORS[which], feature(v)), text.len(), || {
                let mut j = c.json(which, "[paths]");
                j["got"] = json!(got_paths.iter().map(|p| path_to_json(p)).collect::<Vec<_>>());
                j["expected"] = json!(my_paths.iter().map(|p| path_to_json(p)).collect::<Vec<_>>());
                j
            });
            if a != b {
                continue;
            }
        }
        for p in &got_paths {
            let pj = path_to_json(p);
            let pe = path_to_expr(p);
            let pf = path_feature(p);
            let at = getpath(v, p).expect("path enumerated from v exists");
            let program = format!("getpath({pj})");
            if let Some(g) = one(&c, &d, which, "getpath", &program, rep) {
                if !veq(&g, at) {
                    rep.fail(&format!("getpath:{}:value-differs:{pf}", EVALUATORS[which]), text.len(), || {
                        let mut j = c.json(which, &program);
                        j["got"] = json!(g.to_json());
                        j["expected"] = json!(at.to_json());
                        j
                    });
                }
            }
            let program = format!("setpath({pj}; getpath({pj}))");
            if let Some(g) = one(&c, &d, which, "setpath-getpath", &program, rep) {
                expect_eq(&c, which, "setpath-getpath", &program, &g, v, rep);
            }
            // assignment changes exactly that path (tree diff against an own setpath)
            let n = V::str("N");
            let want = setpath(v, p, &n);
            let mut forms = vec![("setpath-N", format!("setpath({pj}; \"N\")")), ("assign-N", format!("{pe} = \"N\"")), ("update-N", format!("{pe} |= \"N\""))];
            // the same node addressed by its negative index (i - length) is the same path
            if let Some(jqgen::Step::Idx(i)) = p.last() {
                let parent = getpath(v, &p[..p.len() - 1]).expect("parent exists");
                let V::Arr(items) = parent else { unreachable!("index step under a non-array") };
                let neg = *i as i64 - items.len() as i64;
                let pre_j = path_to_json(&p[..p.len() - 1]);
                let pj_neg = if p.len() == 1 { format!("[{neg}]") } else { format!("{},{neg}]", &pre_j[..pre_j.len() - 1]) };
                let pe_neg = format!("{}[{neg}]", if p.len() == 1 { ".".to_string() } else { path_to_expr(&p[..p.len() - 1]) });
                let program = format!("getpath({pj_neg})");
                if let Some(g) = one(&c, &d, which, "getpath-negative-index", &program, rep) {
                    if !veq(&g, at) {
                        rep.fail(&format!("getpath-negative-index:{}:value-differs", EVALUATORS[which]), text.len(), || {
                            let mut j = c.json(which, &program);
                            j["got"] = json!(g.to_json());
                            j["expected"] = json!(at.to_json());
                            j
                        });
                    }
                }
                forms.push(("setpath-N-negative-index", format!("setpath({pj_neg}; \"N\")")));
                forms.push(("assign-N-negative-index", format!("{pe_neg} = \"N\"")));
            }
            for (id, program) in forms {
                if let Some(g) = one(&c, &d, which, id, &program, rep) {
                    let dg = diff(v, &g);
                    let dw = diff(v, &want);
                    if !veq(&g, &want) || dg != dw {
                        let what = if dg.is_empty() {
                            "nothing-changed"
                        } else if dg.iter().all(|q| q == p) {
                            "wrong-value-at-path"
                        } else {
                            "other-path-changed"
                        };
                        rep.fail(&format!("{id}:{}:{what}:{pf}", EVALUATORS[which]), text.len(), || {
                            let mut j = c.json(which, &program);
                            j["got"] = json!(g.to_json());
                            j["expected"] = json!(want.to_json());
                            j["changed_paths"] = json!(dg.iter().map(|q| path_to_json(q)).collect::<Vec<_>>());
                            j
                        });
                    }
                }
            }
        }
        if let V::Arr(items) = v {
            check_sort(&c, &d, which, items, rep);
        }
    }
    if my_paths.len() >= 2 {
        rep.distinct(&text);
    }
}

/// Multiset equality under value equality.
fn same_multiset(a: &[V], b: &[V]) -> bool {
    if a.len() != b.len() {
        return false;
    }
    let mut used = vec![false; b.len()];
    'outer: for x in a {
        for (i, y) in b.iter().enumerate() {
            if !used[i] && veq(x, y) {
                used[i] = true;
                continue 'outer;
            }
        }
        return false;
    }
    true
}

fn types_feature(items: &[V]) -> String {
    let mut ts: Vec<&str> = items.iter().map(|x| x.type_name()).collect();
    ts.sort_unstable();
    ts.dedup();
    ts.join("+")
}

fn check_sort(c: &Case, d: &Doc, which: usize, items: &[V], rep: &mut Report) {
    let ev = EVALUATORS[which];
    if let Some(g) = one(c, d, which, "sort", "sort", rep) {
        let V::Arr(out) = &g else {
            rep.fail(&format!("sort:{ev}:not-an-array"), c.text.len(), || c.json(which, "sort"));
            return;
        };
        // first adjacent pair out of order names the type pair
        if let Some(w) = out.windows(2).find(|w| jq_cmp(&w[0], &w[1]) == Ordering::Greater) {
            let (a, b) = (w[0].type_name(), w[1].type_name());
            rep.fail(&format!("sort:{ev}:not-ordered:{a}-before-{b}"), c.text.len(), || {
                let mut j = c.json(which, "sort");
                j["got"] = json!(g.to_json());
                j
            });
        }
        if !same_multiset(out, items) {
            rep.fail(&format!("sort:{ev}:not-a-permutation:{}", types_feature(items)), c.text.len(), || {
                let mut j = c.json(which, "sort");
                j["got"] = json!(g.to_json());
                j
            });
        }
    }
    if let Some(g) = one(c, d, which, "unique", "unique", rep) {
        let V::Arr(out) = &g else {
            rep.fail(&format!("unique:{ev}:not-an-array"), c.text.len(), || c.json(which, "unique"));
            return;
        };
        if let Some(w) = out.windows(2).find(|w| jq_cmp(&w[0], &w[1]) != Ordering::Less) {
            let (a, b) = (w[0].type_name(), w[1].type_name());
            let what = if jq_cmp(&w[0], &w[1]) == Ordering::Equal { "duplicate-kept" } else { "not-ordered" };
            rep.fail(&format!("unique:{ev}:{what}:{a}-before-{b}"), c.text.len(), || {
                let mut j = c.json(which, "unique");
                j["got"] = json!(g.to_json());
                j
            });
        }
        let covers = items.iter().all(|x| out.iter().any(|y| jq_cmp(x, y) == Ordering::Equal)) && out.iter().all(|y| items.iter().any(|x| veq(x, y)));
        if !covers {
            rep.fail(&format!("unique:{ev}:not-a-deduplication:{}", types_feature(items)), c.text.len(), || {
                let mut j = c.json(which, "unique");
                j["got"] = json!(g.to_json());
                j
            });
        }
    }
}

// ---------------------------------------------------------------- strings --

const STR_ALPHA: [&str; 12] = ["a", "Z", "0", " ", "%", "+", "/", "=", "~", "\u{e9}", "\u{1f600}", "\u{0}"];

/// Own percent-decoder: `%XX` (either case) -> byte, everything else must be an
/// unreserved ASCII character (RFC 3986: ALPHA DIGIT - . _ ~).
fn percent_decode(s: &str) -> Result<Vec<u8>, String> {
    let b = s.as_bytes();
    let mut out = Vec::new();
    let mut i = 0;
    while i < b.len() {
        let c = b[i];
        if c == b'%' {
            if i + 3 > b.len() {
                return Err(format!("truncated escape at {i}"));
            }
            let h = std::str::from_utf8(&b[i + 1..i + 3]).map_err(|_| "bad escape")?;
            out.push(u8::from_str_radix(h, 16).map_err(|_| format!("bad hex at {i}"))?);
            i += 3;
        } else if c.is_ascii_alphanumeric() || matches!(c, b'-' | b'.' | b'_' | b'~') {
            out.push(c);
            i += 1;
        } else {
            return Err(format!("character {c:#x} at {i} is neither unreserved nor an escape"));
        }
    }
    Ok(out)
}

/// Class of the input byte at which the decoded form of `enc` first departs from `s`
/// (the minimal feature of an @uri failure).
fn uri_divergence(s: &str, enc: &str) -> &'static str {
    // decode as far as the own decoder accepts
    let mut good = enc.len();
    while good > 0 && percent_decode(&enc[..good]).is_err() {
        good -= 1;
        while good > 0 && !enc.is_char_boundary(good) {
            good -= 1;
        }
    }
    let dec = percent_decode(&enc[..good]).unwrap_or_default();
    let b = s.as_bytes();
    let i = dec.iter().zip(b).position(|(x, y)| x != y).unwrap_or(dec.len().min(b.len()));
    match b.get(i) {
        None => "after-end-of-input",
        Some(b'%') => "percent-sign",
        Some(0) => "nul-byte",
        Some(c) if *c >= 0x80 => "non-ascii-byte",
        Some(c) if c.is_ascii_alphanumeric() || matches!(c, b'-' | b'.' | b'_' | b'~') => "unreserved-byte",
        Some(_) => "reserved-ascii-byte",
    }
}

fn check_string(s: &str, rep: &mut Report) {
    let v = V::str(s);
    let text = v.to_json();
    let d = Doc::new(text.as_bytes());
    let c = Case { fam: "strings", v: &v, text: &text };
    rep.input();
    for which in 0..2 {
        let ev = EVALUATORS[which];
        if let Some(g) = one(&c, &d, which, "@base64|@base64d", "@base64|@base64d", rep) {
            if !veq(&g, &v) {
                rep.fail(&format!("@base64|@base64d:{ev}:value-differs:len%3={}", s.len() % 3), text.len(), || {
                    let mut j = c.json(which, "@base64|@base64d");
                    j["got"] = json!(g.to_json());
                    j
                });
            }
        }
        if let Some(g) = one(&c, &d, which, "@uri", "@uri", rep) {
            let V::Str(enc) = &g else {
                rep.fail(&format!("@uri:{ev}:not-a-string"), text.len(), || c.json(which, "@uri"));
                continue;
            };
            match percent_decode(enc) {
                Ok(bytes) if bytes == s.as_bytes() => {}
                Ok(_) => rep.fail(&format!("@uri:{ev}:decodes-to-different-bytes:at-{}", uri_divergence(s, enc)), text.len(), || {
                    let mut j = c.json(which, "@uri");
                    j["encoded"] = json!(enc);
                    j
                }),
                Err(e) => rep.fail(&format!("@uri:{ev}:not-percent-encoding:at-{}", uri_divergence(s, enc)), text.len(), || {
                    let mut j = c.json(which, "@uri");
                    j["encoded"] = json!(enc);
                    j["decoder"] = json!(e);
                    j
                }),
            }
        }
    }
    if s.len() >= 2 {
        rep.distinct(s);
    }
}

// -------------------------------------------------------------- the spaces --

const SORT_ALPHA: [&str; 24] = [
    "null", "false", "true", "0", "-1", "1.5", "100000000000000000", "9007199254740993", "\"\"", "\"a\"", "\"A\"", "\"b\"", "\"aa\"", "\"a\\u00e9\\ud83d\\ude00\"", "\"\\u0000\"", "[]", "[0]", "[1]", "[0,0]", "{}", "{\"a\":0}", "{\"a\":1}",
    "{\"b\":0}", "{\"a\":0,\"b\":0}",
];

fn nth_seq(alpha: usize, maxlen: u32, idx: u64) -> Vec<usize> {
    let mut v = Vec::new();
    nth_string(alpha as u64, maxlen, idx, &mut v);
    v
}

fn explore(ctx: &Ctx, rep: &mut Report) {
    jqgen::selftest();
    assert_eq!(percent_decode("a%20%c3%A9-._~").unwrap(), "a \u{e9}-._~".as_bytes());
    assert!(percent_decode("a b").is_err() && percent_decode("%2").is_err() && percent_decode("%zz").is_err() && percent_decode("\u{e9}").is_err());
    // 1. the value grammar
    let (nodes, depth) = (ctx.pick(4, 5), 3);
    let vals = values(nodes, depth);
    let r = par_range_in(ctx, "values", vals.len() as u64, 256, |i, rep| {
        let v = &vals[i as usize];
        guard(rep, "PANIC:harness-or-eval", 0, || json!({"kind":"identity","family":"values","value":v.to_json()}), |rep| check_value("values", v, rep));
        if i % 40_009 == 7 {
            rep.sample(|| json!({"family":"values","value":v.to_json(),"paths":paths(v).len(),"checks":"round trips, paths, getpath/setpath/assignment at every path, sort/unique for arrays; both evaluators"}));
        }
    });
    rep.merge(r);
    rep.mark_exhaustive("values", &format!("every value with <= {nodes} nodes and depth <= {depth} over 13 leaves, arrays, and objects with distinct keys from {{a,b,\"\"}} in every order = {}", vals.len()));
    // 2. arrays for sort/unique over a 24-value alphabet covering every type rank and tie
    let sort_vals: Vec<V> = SORT_ALPHA.iter().map(|s| parse_json(s).unwrap()).collect();
    let slen = ctx.pick(3, 4);
    let n = count_strings(sort_vals.len() as u64, slen);
    let r = par_range_in(ctx, "sort-arrays", n, 1024, |i, rep| {
        let idx = nth_seq(sort_vals.len(), slen, i);
        let v = V::Arr(idx.iter().map(|&k| sort_vals[k].clone()).collect());
        let text = v.to_json();
        let d = Doc::new(text.as_bytes());
        let c = Case { fam: "sort-arrays", v: &v, text: &text };
        rep.input();
        let V::Arr(items) = &v else { unreachable!() };
        for which in 0..2 {
            check_sort(&c, &d, which, items, rep);
        }
        if idx.len() >= 2 {
            rep.distinct(&text);
        }
        if i == 5000 {
            rep.sample(|| json!({"family":"sort-arrays","value":text}));
        }
    });
    rep.merge(r);
    rep.mark_exhaustive("sort-arrays", &format!("every array of length 0..={slen} over a 24-value alphabet (all type ranks, equal and unequal members of each rank) = {n}"));
    // 2b. arrays of objects for sort/unique: jq orders objects by their *sorted* key sets and then by the values
    // key by key in sorted-key order — insertion order must not matter. The alphabet has every object over keys
    // {a, b} x values {0, 1} in BOTH insertion orders (so values conflict: {"b":0,"a":1} vs {"b":1,"a":0}),
    // plus different key sets and a three-key object written out of order.
    let obj_alpha: Vec<String> = {
        let mut v = Vec::new();
        for x in 0..2 {
            for y in 0..2 {
                v.push(format!("{{\"a\":{x},\"b\":{y}}}"));
                v.push(format!("{{\"b\":{y},\"a\":{x}}}"));
            }
        }
        for o in ["{}", "{\"a\":0}", "{\"a\":1}", "{\"b\":0}", "{\"c\":0}", "{\"c\":0,\"a\":1}", "{\"a\":1,\"c\":0}", "{\"c\":2,\"b\":1,\"a\":0}", "{\"b\":2,\"c\":1,\"a\":0}", "{\"name\":\"alice\",\"age\":40}", "{\"name\":\"bob\",\"age\":30}", "{\"b\":[1],\"a\":[2]}", "{\"b\":[2],\"a\":[1]}"] {
            v.push(o.to_string());
        }
        v
    };
    let obj_vals: Vec<V> = obj_alpha.iter().map(|s| parse_json(s).unwrap()).collect();
    let olen = ctx.pick(3, 4);
    let n = count_strings(obj_vals.len() as u64, olen);
    let r = par_range_in(ctx, "sort-objects", n, 1024, |i, rep| {
        let idx = nth_seq(obj_vals.len(), olen, i);
        let v = V::Arr(idx.iter().map(|&k| obj_vals[k].clone()).collect());
        let text = v.to_json();
        let d = Doc::new(text.as_bytes());
        let c = Case { fam: "sort-objects", v: &v, text: &text };
        rep.input();
        let V::Arr(items) = &v else { unreachable!() };
        for which in 0..2 {
            check_sort(&c, &d, which, items, rep);
        }
        if idx.len() >= 2 {
            rep.distinct(&text);
        }
        if i == 7000 {
            rep.sample(|| json!({"family":"sort-objects","value":text}));
        }
    });
    rep.merge(r);
    rep.mark_exhaustive("sort-objects", &format!("every array of length 0..={olen} over a {}-object alphabet (keys {{a,b}} x values {{0,1}} in both insertion orders, other key sets, out-of-order three-key objects) = {n}", obj_vals.len()));
    rep.extra.insert("sort_object_alphabet".into(), json!(obj_alpha));
    // 3. strings
    let strlen = ctx.pick(4, 5);
    let n = count_strings(STR_ALPHA.len() as u64, strlen);
    let r = par_range_in(ctx, "strings", n, 1024, |i, rep| {
        let idx = nth_seq(STR_ALPHA.len(), strlen, i);
        let s: String = idx.iter().map(|&k| STR_ALPHA[k]).collect();
        guard(rep, "PANIC:harness-or-eval", 0, || json!({"kind":"string","string":s}), |rep| check_string(&s, rep));
        if i == 3000 {
            rep.sample(|| json!({"family":"strings","string":s}));
        }
    });
    rep.merge(r);
    rep.mark_exhaustive("strings", &format!("every string of 0..={strlen} symbols over {:?} = {n}", STR_ALPHA));
    rep.path("full (jq::eval::<_, JqSemantics>)");
    rep.path("generic (jq::eval_generic::eval_with_cursor)");
    rep.extra.insert("leaves".into(), json!(jqgen::LEAVES));
    rep.extra.insert("keys".into(), json!(jqgen::KEYS));
    rep.extra.insert("sort_alphabet".into(), json!(SORT_ALPHA));
    rep.extra.insert("string_alphabet".into(), json!(STR_ALPHA));
}

fn replay(case: &Value, rep: &mut Report) {
    match case["kind"].as_str().unwrap_or("identity") {
        "string" => check_string(case["string"].as_str().unwrap(), rep),
        _ => {
            let text = case["value"].as_str().unwrap();
            let v = parse_json(text).expect("recorded value parses");
            match case["family"].as_str().unwrap_or("values") {
                "strings" => {
                    let V::Str(s) = &v else { panic!("string case") };
                    check_string(s, rep)
                }
                "sort-arrays" => {
                    let d = Doc::new(text.as_bytes());
                    let c = Case { fam: "sort-arrays", v: &v, text };
                    let V::Arr(items) = &v else { panic!("array case") };
                    rep.input();
                    for which in 0..2 {
                        check_sort(&c, &d, which, items, rep);
                    }
                }
                _ => check_value("values", &v, rep),
            }
        }
    }
}

fn main() {
    drive("C25", explore, replay);
}
