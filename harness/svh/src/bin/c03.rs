//! C03 — Elias-Fano sequences answer exactly under any access history.
//!
//! S2/S3: every sequence of the bounded families × every `get`, `predecessor`
//! argument, iteration. S1: closed-state BFS over the *real* cursor — node =
//! full concrete cursor state (Debug rendering of every field after `ef`),
//! edge = one real API call from the op alphabet, oracle = a plain `Vec<u32>`
//! with an index. The search runs to a fixpoint, so it decides the property for
//! every finite history over the alphabet on that sequence.
#![allow(deprecated)]
use engine::*;
use serde_json::{json, Value};
use std::collections::{HashMap, VecDeque};
use succinctly::bits::{EliasFano, EliasFanoCursor};

const KS: [usize; 12] = [0, 1, 2, 3, 5, 63, 64, 65, 66, 255, 256, 257];

#[derive(Clone, Copy, Debug, PartialEq)]
enum Op {
    AdvanceOne,
    AdvanceBy(usize),
    Seek(usize),
    CursorFrom(usize),
    /// seek(current model index + d): every short forward distance from every reachable state
    SeekRel(usize),
}

impl Op {
    fn to_json(self) -> Value {
        match self {
            Op::AdvanceOne => json!(["advance_one"]),
            Op::AdvanceBy(k) => json!(["advance_by", k]),
            Op::Seek(i) => json!(["seek", i]),
            Op::CursorFrom(i) => json!(["cursor_from", i]),
            Op::SeekRel(d) => json!(["seek_rel", d]),
        }
    }
    fn from_json(v: &Value) -> Op {
        let a = v.as_array().unwrap();
        let n = a.get(1).and_then(|x| x.as_u64()).unwrap_or(0) as usize;
        match a[0].as_str().unwrap() {
            "advance_one" => Op::AdvanceOne,
            "advance_by" => Op::AdvanceBy(n),
            "seek" => Op::Seek(n),
            "cursor_from" => Op::CursorFrom(n),
            "seek_rel" => Op::SeekRel(n),
            o => panic!("unknown op {o}"),
        }
    }
}

fn cursor_key(c: &EliasFanoCursor<'_>) -> String {
    // Debug derive prints every field. The first field `ef: EliasFano { .. }` is the
    // immutable encoded sequence, identical for all cursors of one search; everything
    // after it (whatever the fields are called) is the key.
    debug_key_without_first_field(&format!("{c:?}"))
}

/// Model: position m in 0..=n (n = exhausted). Returns new position.
fn model_step(n: usize, m: usize, op: Op) -> usize {
    match op {
        Op::AdvanceOne => {
            if m + 1 >= n {
                n
            } else {
                m + 1
            }
        }
        Op::AdvanceBy(k) => {
            if m >= n || m.saturating_add(k) >= n {
                n
            } else {
                m + k
            }
        }
        Op::Seek(i) | Op::CursorFrom(i) => i.min(n),
        Op::SeekRel(d) => m.saturating_add(d).min(n),
    }
}

/// Apply `op` to the real cursor; return (new cursor, return value).
fn real_step<'a>(ef: &'a EliasFano, c: &EliasFanoCursor<'a>, m: usize, op: Op) -> (EliasFanoCursor<'a>, Option<u32>) {
    match op {
        Op::AdvanceOne => {
            let mut c2 = c.clone();
            let r = c2.advance_one();
            (c2, r)
        }
        Op::AdvanceBy(k) => {
            let mut c2 = c.clone();
            let r = c2.advance_by(k);
            (c2, r)
        }
        Op::Seek(i) => {
            let mut c2 = c.clone();
            let r = c2.seek(i);
            (c2, r)
        }
        Op::SeekRel(d) => {
            let mut c2 = c.clone();
            let r = c2.seek(m.saturating_add(d));
            (c2, r)
        }
        Op::CursorFrom(i) => {
            let c2 = ef.cursor_from(i);
            let r = c2.current();
            (c2, r)
        }
    }
}

fn observe_ok(vals: &[u32], m2: usize, c2: &EliasFanoCursor<'_>, ret: Option<u32>) -> Option<String> {
    let n = vals.len();
    let expv = vals.get(m2).copied();
    if ret != expv {
        return Some("return".into());
    }
    if c2.current() != expv {
        return Some("current".into());
    }
    if c2.index() != m2.min(n) {
        return Some("index".into());
    }
    if c2.is_exhausted() != (m2 >= n) {
        return Some("is_exhausted".into());
    }
    None
}

fn vals_json(vals: &[u32]) -> Value {
    json!(vals)
}

fn static_checks(vals: &[u32], rep: &mut Report) {
    let n = vals.len();
    let size = n;
    let ef = EliasFano::build(vals);
    rep.evals(1);
    if ef.len() != n {
        rep.fail("static:len", size, || json!({"kind":"static","values":vals_json(vals)}));
    }
    if ef.is_empty() != (n == 0) {
        rep.fail("static:is_empty", size, || json!({"kind":"static","values":vals_json(vals)}));
    }
    // universe: documented as "maximum value + 1" (u64, so u32::MAX + 1 is representable); 0 for the empty sequence
    rep.evals(1);
    let exp_universe = vals.last().map_or(0u64, |&mx| mx as u64 + 1);
    if ef.universe() != exp_universe {
        rep.fail("static:universe", size, || json!({"kind":"static","values":vals_json(vals),"universe":ef.universe(),"expected":exp_universe}));
    }
    for i in 0..n + 2 {
        rep.trans(1);
        if ef.get(i) != vals.get(i).copied() {
            rep.fail("static:get", size, || json!({"kind":"static","values":vals_json(vals),"i":i}));
        }
    }
    for i in [usize::MAX, usize::MAX - 1, u32::MAX as usize, 1usize << 32] {
        rep.trans(1);
        if ef.get(i) != vals.get(i).copied() {
            rep.fail("static:get-huge", size, || json!({"kind":"static","values":vals_json(vals),"i":i}));
        }
    }
    rep.trans(1);
    let it: Vec<u32> = (&ef).into_iter().collect();
    if it != vals {
        rep.fail("static:iter", size, || json!({"kind":"static","values":vals_json(vals)}));
    }
    // stepwise: element i at step i, and an exhausted iterator stays exhausted. (ExactSizeIterator::len() is NOT
    // compared: it is off by one after the first next() on the unchanged tree — size_hint ignores `started` — but
    // the property speaks of the elements iterated, not of the iterator's size hint; noted in DESIGN.md §7.)
    let mut it2 = (&ef).into_iter();
    for i in 0..=n + 1 {
        rep.trans(1);
        if it2.next() != vals.get(i).copied() {
            rep.fail("static:iter:step", size, || json!({"kind":"static","values":vals_json(vals),"step":i}));
            break;
        }
    }
    let mut qs: Vec<u32> = vals.iter().flat_map(|&v| [v.wrapping_sub(1), v, v.wrapping_add(1)]).collect();
    qs.extend([0, 1, u32::MAX, u32::MAX - 1, 1 << 31]);
    qs.sort_unstable();
    qs.dedup();
    for &q in &qs {
        rep.trans(1);
        let exp = vals.iter().rposition(|&v| v <= q).map(|i| (i, vals[i]));
        let got = ef.predecessor(q);
        if got != exp {
            let sig = match (got, exp) {
                (Some((gi, gv)), Some((ei, ev))) if gv == ev && gi != ei => "static:predecessor:wrong-duplicate-index",
                (None, Some(_)) => "static:predecessor:none",
                (Some(_), None) => "static:predecessor:spurious",
                _ => "static:predecessor:wrong",
            };
            rep.fail(sig, size, || json!({"kind":"static","values":vals_json(vals),"q":q,"got":format!("{got:?}"),"exp":format!("{exp:?}")}));
        }
    }
}

fn index_alphabet(n: usize) -> Vec<usize> {
    if n <= 8 {
        (0..n + 2).collect()
    } else {
        let mut v = vec![0, 1, 2, 63, 64, 65, 127, 128, 129, 254, 255, 256, 257, 258, 511, 512, 513, n / 2, n.saturating_sub(2), n - 1, n, n + 1, usize::MAX];
        v.retain(|&i| i <= n + 1 || i == usize::MAX);
        v.sort_unstable();
        v.dedup();
        v
    }
}

/// S1: BFS over real cursor states to a fixpoint.
fn history_bfs(vals: &[u32], rel: bool, rep: &mut Report) {
    let n = vals.len();
    let ef = EliasFano::build(vals);
    let idxs = index_alphabet(n);
    let mut ops: Vec<Op> = vec![Op::AdvanceOne];
    ops.extend(KS.iter().map(|&k| Op::AdvanceBy(k)));
    ops.push(Op::AdvanceBy(usize::MAX));
    ops.extend(idxs.iter().map(|&i| Op::Seek(i)));
    ops.extend(idxs.iter().map(|&i| Op::CursorFrom(i)));
    if rel {
        ops.extend((1..=66).map(Op::SeekRel));
    }
    // node table: key -> id; parents for path reconstruction
    let mut ids: HashMap<String, usize> = HashMap::new();
    let mut parent: Vec<(usize, Option<Op>)> = Vec::new();
    let mut q: VecDeque<(usize, EliasFanoCursor<'_>, usize)> = VecDeque::new();
    let c0 = ef.cursor();
    rep.trans(1);
    if let Some(w) = observe_ok(vals, 0, &c0, c0.current()) {
        rep.fail(&format!("history:cursor():{w}"), n, || json!({"kind":"history","values":vals_json(vals),"ops":[]}));
    }
    ids.insert(cursor_key(&c0), 0);
    parent.push((0, None));
    q.push_back((0, c0, 0));
    let path_of = |parent: &Vec<(usize, Option<Op>)>, mut id: usize, last: Op| -> Vec<Value> {
        let mut p = vec![last.to_json()];
        while let (pid, Some(op)) = parent[id] {
            p.push(op.to_json());
            id = pid;
        }
        p.reverse();
        p
    };
    while let Some((id, c, m)) = q.pop_front() {
        rep.state();
        rep.distinct(&(vals, cursor_key(&c)));
        for &op in &ops {
            rep.trans(1);
            let m2 = model_step(n, m, op);
            let (c2, ret) = real_step(&ef, &c, m, op);
            if let Some(w) = observe_ok(vals, m2, &c2, ret) {
                let name = match op {
                    Op::AdvanceOne => "advance_one",
                    Op::AdvanceBy(_) => "advance_by",
                    Op::Seek(_) | Op::SeekRel(_) => "seek",
                    Op::CursorFrom(_) => "cursor_from",
                };
                let ops_path = path_of(&parent, id, op);
                rep.fail(&format!("history:{name}:{w}"), n * 1000 + ops_path.len(), || {
                    json!({"kind":"history","values":vals_json(vals),"ops":ops_path,"model_index":m2,
                           "got":{"ret":format!("{ret:?}"),"current":format!("{:?}",c2.current()),"index":c2.index(),"exhausted":c2.is_exhausted()}})
                });
                continue; // do not explore beyond a wrong state
            }
            let k = cursor_key(&c2);
            if !ids.contains_key(&k) {
                let nid = parent.len();
                ids.insert(k, nid);
                parent.push((id, Some(op)));
                q.push_back((nid, c2, m2.min(n)));
            }
        }
    }
}

fn replay_history(vals: &[u32], ops: &[Op], rep: &mut Report) {
    let n = vals.len();
    let ef = EliasFano::build(vals);
    let mut c = ef.cursor();
    let mut m = 0usize;
    for (step, &op) in ops.iter().enumerate() {
        rep.trans(1);
        let m2 = model_step(n, m, op);
        let (c2, ret) = real_step(&ef, &c, m, op);
        if let Some(w) = observe_ok(vals, m2, &c2, ret) {
            let name = match op {
                Op::AdvanceOne => "advance_one",
                Op::AdvanceBy(_) => "advance_by",
                Op::Seek(_) | Op::SeekRel(_) => "seek",
                Op::CursorFrom(_) => "cursor_from",
            };
            rep.fail(&format!("history:{name}:{w}"), step, || json!({"kind":"history","values":vals_json(vals),"failed_at_step":step}));
            return;
        }
        c = c2;
        m = m2.min(n);
    }
}

fn sequences(ctx: &Ctx) -> Vec<(String, Vec<u32>)> {
    let mut out: Vec<(String, Vec<u32>)> = Vec::new();
    let alpha: [u32; 15] = [0, 1, 2, 3, 5, 8, 63, 64, 65, 127, 128, 1 << 16, 1 << 31, u32::MAX - 1, u32::MAX];
    let maxlen = ctx.pick(4, 5);
    for s in gen::nondecreasing(&alpha, maxlen) {
        out.push(("small".into(), s));
    }
    let lens: &[usize] = if ctx.quick() { &[255, 256, 257, 513, 700] } else { &[255, 256, 257, 511, 512, 513, 700, 1000, 1025] };
    // irregular gaps (deterministic, no RNG): the number of elements per 64-bit high-bits word varies from
    // word to word, so "the target is the first element of a later word" occurs at many different distances
    for &n in &[70usize, 130, 300, 400] {
        for (m, a) in [(7u32, 3u32), (37, 1), (11, 64), (5, 1000)] {
            let mut acc = 0u32;
            out.push(("irregular".into(), (0..n as u32).map(|i| { acc = acc.saturating_add((i * i + i / 3) % m * a); acc }).collect()));
        }
    }
    for &n in lens {
        for s in [0u32, 1, 2, 63, 64, 65, 1000, 4_000_000] {
            out.push(("stride".into(), (0..n as u32).map(|i| i.saturating_mul(s)).collect()));
        }
        for p in gen::boundaries(&[0, 256, 512], n) {
            if p < n {
                out.push(("gap".into(), (0..n).map(|i| if i < p { i as u32 } else { i as u32 + (1 << 31) }).collect()));
            }
        }
        // duplicate runs: each value repeated r times
        for r in [2usize, 3, 64, 65, 256, 257] {
            out.push(("dups".into(), (0..n).map(|i| (i / r) as u32 * 3).collect()));
        }
        // dense high bits then a jump to u32::MAX
        out.push(("tail-max".into(), (0..n).map(|i| if i + 3 < n { i as u32 } else { u32::MAX }).collect()));
    }
    out
}

fn explore(ctx: &Ctx, rep: &mut Report) {
    let seqs = sequences(ctx);
    let r = par_range(ctx, seqs.len() as u64, 8, |i, rep| {
        let (fam, vals) = &seqs[i as usize];
        rep.space(&format!("static/{fam}"));
        rep.input();
        let case = || json!({"kind":"static","values":vals});
        guard(rep, &format!("PANIC:static/{fam}"), vals.len(), case, |rep| static_checks(vals, rep));
        rep.space(&format!("history/{fam}"));
        let case = || json!({"kind":"history-bfs","values":vals});
        guard(rep, &format!("PANIC:history/{fam}"), vals.len(), case, |rep| history_bfs(vals, fam == "irregular" || fam == "small" || !ctx.quick(), rep));
        if i % 997 == 3 {
            rep.sample(|| json!({"family":fam,"values_prefix":&vals[..vals.len().min(8)],"len":vals.len(),
                "ops":"BFS to fixpoint over advance_one, advance_by(k), seek(i), cursor_from(i)"}));
        }
    });
    rep.merge(r);
    for k in rep.subspaces.keys().cloned().collect::<Vec<_>>() {
        rep.mark_exhaustive(&k, "every sequence of the family; static: every get/predecessor argument of the stated set; history: BFS to fixpoint (every op applied in every reachable concrete cursor state)");
    }
    rep.extra.insert("op_alphabet".into(), json!({"advance_by_k": KS, "seek_rel": "seek(index + d) for every d in 1..=66 from every reachable state (families small and irregular; every family in the thorough tier)", "seek/cursor_from": "0..=len+1 (len<=8) or boundary indices ±{0,1,2} of 0/64/128/256/512/len plus usize::MAX"}));
}

fn replay(case: &Value, rep: &mut Report) {
    let vals: Vec<u32> = case["values"].as_array().unwrap().iter().map(|v| v.as_u64().unwrap() as u32).collect();
    match case["kind"].as_str().unwrap_or("static") {
        "history" => {
            let ops: Vec<Op> = case["ops"].as_array().map(|a| a.iter().map(Op::from_json).collect()).unwrap_or_default();
            replay_history(&vals, &ops, rep);
        }
        "history-bfs" => history_bfs(&vals, true, rep),
        _ => static_checks(&vals, rep),
    }
}

fn main() {
    drive("C03", explore, replay);
}
