#!/usr/bin/env python3
"""Compare open known findings with what the last run of each check reproduced (from evidence)."""
import json, glob, os, sys
ROOT = os.path.dirname(os.path.dirname(os.path.abspath(__file__)))
sys.path.insert(0, os.path.join(ROOT, "py"))
import common
known = common.load_known()
by = {}
for k in known:
    by.setdefault(k["property"], []).append(k)
for pid in sorted(by):
    ev = os.path.join(ROOT, "evidence", pid + ".json")
    if not os.path.exists(ev):
        print(pid, "no evidence"); continue
    e = json.load(open(ev))
    rep = {r["signature"] for r in e["coverage"].get("known_findings_reproduced", [])}
    for k in by[pid]:
        st = k["status"]
        mark = "reproduced" if k["signature"] in rep else "NOT-reproduced"
        if (st == "open" and mark != "reproduced") or (st == "fixed" and mark == "reproduced") or "-v" in sys.argv:
            print(f"{pid} [{e['tier']}] {st:5} {mark:15} {k['signature']}")
